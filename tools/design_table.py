#!/usr/bin/env python3
"""tools/design_table.py - replace the seed table at the end of DESIGN.md section 8.4 by seeded/SUMMARY.md."""
import re
ROOT = "/verif"
d = open(f"{ROOT}/DESIGN.md").read().split("\n")
start = next(i for i, l in enumerate(d) if l.startswith("| seeded change |"))
end = start
while end < len(d) and d[end].startswith("|"):
    end += 1
table = [l for l in open(f"{ROOT}/seeded/SUMMARY.md").read().split("\n") if l.startswith("|")]
d[start:end] = table
open(f"{ROOT}/DESIGN.md", "w").write("\n".join(d))
print(f"table: {len(table) - 2} rows")
