#!/usr/bin/env python3
"""Like run_all_seeds.py, but each seeded change is applied in its own scratch worktree of /repo (under /tmp, removed
afterwards) and the checks read that worktree (HDL21_REPO), so that several seeds can be swept at a time.  /repo itself is
not touched.  Usage: tools/run_all_seeds_parallel.py [N workers [seed ids...]] -> seeded/SUMMARY.md, meta.json updates."""
import json, os, subprocess, sys
from concurrent.futures import ThreadPoolExecutor
ROOT = "/verif"
N = int(sys.argv[1]) if len(sys.argv) > 1 else 4


def sh(cmd, env=None):
    return subprocess.run(cmd, shell=True, capture_output=True, text=True, env=env)


def one(sid):
    d = f"{ROOT}/seeded/{sid}"
    meta = json.load(open(f"{d}/meta.json"))
    checks = list(meta.get("my_checks_against_it", {}) or [meta["breaks_property"]])
    if meta["breaks_property"] not in checks:
        checks.insert(0, meta["breaks_property"])
    wt = f"/tmp/sweep_{sid}"
    sh(f"git -C /repo worktree remove --force {wt}")
    r = sh(f"git -C /repo worktree add -q {wt} HEAD")
    if r.returncode != 0:
        return (sid, meta["breaks_property"], "WORKTREE FAILED", r.stderr[:80])
    try:
        a = sh(f"git -C {wt} apply {d}/patch.diff")
        if a.returncode != 0:
            return (sid, meta["breaks_property"], "PATCH DOES NOT APPLY", "")
        det = {}
        env = dict(os.environ, HDL21_REPO=wt)
        for c in checks:
            r = sh(f"cd {ROOT} && ./check {c} --tier quick", env=env)
            lines = [l[:300] for l in r.stdout.splitlines() if l.startswith(("VIOLATION", "UNDECIDED", "UNSUPPORTED"))]
            det[c] = {"exit": r.returncode, "lines": lines[:4]}
    finally:
        sh(f"git -C /repo worktree remove --force {wt}")
    meta["my_checks_against_it"] = det
    meta["caught_by"] = [c for c, v in det.items() if v["exit"] == 1]
    json.dump(meta, open(f"{d}/meta.json", "w"), indent=1)
    first = next((l for c, v in det.items() if v["exit"] == 1 for l in v["lines"] if l.startswith("VIOLATION")), "")
    key = first.split("key=")[1].split(" ::")[0] if "key=" in first else ""
    row = (sid, meta["breaks_property"], ", ".join(meta["caught_by"]) or "MISSED", key[:110])
    print(row, flush=True)
    return row


allsids = sorted(s for s in os.listdir(f"{ROOT}/seeded") if os.path.isdir(f"{ROOT}/seeded/{s}"))
sids = [s for s in allsids if s in sys.argv[2:]] if len(sys.argv) > 2 else allsids      # optional: only the named seeds
with ThreadPoolExecutor(N) as ex:
    done = {r[0]: r for r in ex.map(one, sids)}
rows = []
for sid in allsids:            # the summary always covers every seed: rows of seeds not run now come from their meta.json
    if sid in done:
        rows.append(done[sid])
        continue
    meta = json.load(open(f"{ROOT}/seeded/{sid}/meta.json"))
    det = meta.get("my_checks_against_it", {})
    first = next((l for c, v in det.items() if v.get("exit") == 1 for l in v.get("lines", []) if l.startswith("VIOLATION")), "")
    key = first.split("key=")[1].split(" ::")[0] if "key=" in first else ""
    rows.append((sid, meta["breaks_property"], ", ".join(meta.get("caught_by", [])) or "MISSED", key[:110]))
with open(f"{ROOT}/seeded/SUMMARY.md", "w") as f:
    f.write("| seeded change | breaks | caught by (quick tier) | first failing obligation / check |\n|---|---|---|---|\n")
    for r in rows:
        f.write("| " + " | ".join(r) + " |\n")
print("missed:", [r[0] for r in rows if r[2] == "MISSED"], "of", len(rows))
