#!/usr/bin/env python3
"""tools/ingest_many.py <list file> [N workers]
Each line of the list: <property> <mutation dir> <seed id> [extra checks...].  Confirms every change in its own scratch
worktree of /repo (the demonstration passes without the change and fails with it; the repository's tests pass with it),
stores patch.diff / demo.py / notes.md / meta.json under seeded/<seed id>/ and leaves the check results to
tools/run_all_seeds_parallel.py.  /repo itself is not touched."""
import json, os, shutil, subprocess, sys
from concurrent.futures import ThreadPoolExecutor
N = int(sys.argv[2]) if len(sys.argv) > 2 else 6


def sh(cmd, **kw):
    return subprocess.run(cmd, shell=True, capture_output=True, text=True, **kw)


def one(line):
    prop, src, sid, *checks = line.split()
    dst = f"/verif/seeded/{sid}"
    os.makedirs(dst, exist_ok=True)
    for f in ("patch.diff", "demo.py", "notes.md"):
        shutil.copy(os.path.join(src, f), os.path.join(dst, f))
    wt = f"/tmp/confirm_{sid}"
    sh(f"git -C /repo worktree remove --force {wt}")
    r = sh(f"git -C /repo worktree add -q {wt} HEAD")
    if r.returncode != 0:
        return (sid, "WORKTREE FAILED " + r.stderr[:100])
    env = dict(os.environ, PYTHONPATH=":".join([wt] + [f"{wt}/pdks/{d}" for d in ("Sky130", "Gf180", "Asap7")]))
    ran = {}
    try:
        d0 = sh(f"cd {wt} && /venv/bin/python {dst}/demo.py", env=env)
        ran["demo_without_change"] = {"exit": d0.returncode, "tail": d0.stdout.strip()[-200:]}
        a = sh(f"git -C {wt} apply {dst}/patch.diff")
        if a.returncode != 0:
            return (sid, "PATCH DOES NOT APPLY " + a.stderr[:100])
        # keep the patch as it applies to the present tree
        open(f"{dst}/patch.diff", "w").write(sh(f"git -C {wt} diff").stdout)
        d1 = sh(f"cd {wt} && /venv/bin/python {dst}/demo.py", env=env)
        ran["demo_with_change"] = {"exit": d1.returncode, "tail": (d1.stdout + d1.stderr).strip()[-300:]}
        t = sh(f"cd {wt} && /venv/bin/python -m pytest -q -p no:cacheprovider 2>&1 | grep -E 'passed|failed' | tail -1")
        ran["test_suite_with_change"] = t.stdout.strip()
    finally:
        sh(f"git -C /repo worktree remove --force {wt}")
    ok = ran["demo_without_change"]["exit"] == 0 and ran["demo_with_change"]["exit"] != 0 and \
        " failed" not in (" " + ran["test_suite_with_change"]).replace("xfailed", "x") and "passed" in ran["test_suite_with_change"]
    meta = {"seed": sid, "breaks_property": prop, "confirmed": ok, "what_i_ran": ran,
            "needs_to_manifest": open(os.path.join(dst, "notes.md")).read()[:1500],
            "my_checks_against_it": {c: {} for c in [prop] + checks}, "caught_by": []}
    json.dump(meta, open(os.path.join(dst, "meta.json"), "w"), indent=1)
    return (sid, "confirmed" if ok else f"NOT CONFIRMED {ran}")


lines = [l.strip() for l in open(sys.argv[1]) if l.strip() and not l.startswith("#")]
with ThreadPoolExecutor(N) as ex:
    for r in ex.map(one, lines):
        print(*r, flush=True)
