#!/bin/bash
# Runs every quick check on the unchanged tree for several VERIF_SEED values: any exit != 0 or VIOLATION line is a false
# alarm of the machinery (or a defect not yet seen).  Usage: tools/seed_sweep.sh [seeds...]
cd "$(dirname "$0")/.."
for seed in "${@:-2 3 4 5}"; do
  for c in C01 C02 C03 C04 C05 C06 C07 C08 C09 C10 C11 C12 C13 C14 C15 C16 C17 C18 C19; do
    out=$(VERIF_SEED=$seed ./check $c --tier quick 2>&1); rc=$?
    if [ $rc -ne 0 ] || echo "$out" | grep -q "^VIOLATION"; then
      echo "seed=$seed $c exit=$rc"; echo "$out" | grep -E "^VIOLATION|CHECKER" | head -3 | cut -c1-240
    fi
  done
  echo "seed $seed done"
done
