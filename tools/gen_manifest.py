#!/usr/bin/env python3
"""Regenerates MANIFEST.json from the table below (kept valid at all times)."""
import json, os
ROOT = os.path.dirname(os.path.dirname(os.path.abspath(__file__)))
ALL = [json.loads(l)["id"] for l in open(os.path.join(ROOT, "properties.jsonl"))]

TB = ("pyvc (own ast->z3 VC generator, encoding of the CPython subset cross-checked concretely, not proved); z3 5.1, "
      "cvc5 1.0.3; pydantic/protobuf/vlsirtools as dependencies; the reference semantics under /verif/rtc are trusted "
      "specifications")

CLAIMS = {
    "C03": dict(
        category="other",
        text="Hybrid. Proved (pyvc, from the current source of hdl21.slice:_slice_inner, for all widths, starts and "
             "stops, one scenario per constant step): the result denotes exactly Python's selection, width == number "
             "selected, bounds inside the parent and tight enough that stepping from the first position enumerates the "
             "selection, empty/out-of-range rejected, only ValueError escapes; _indices returns exactly that "
             "enumeration. Bounded "
             "(run-time contract on the real code, labelled bounded): the same against Python list slicing on the "
             "exhaustive grid W<=5 (7 thorough), and nested slice/concat resolution (_list_slice, _resolve_concat, "
             "width) against explicit bit lists on an exhaustive small family plus seeded random expressions.",
        design_ref="DESIGN.md section 4 C03",
        technique="contract-based deductive verification (pyvc VCs discharged by z3) + bounded run-time contract checks",
        note=TB + "; slice step is per constant step (symbolic step is nonlinear); nested resolution is bounded only"),
    "C04": dict(
        category="other",
        text="Hybrid. Proved (pyvc, quantified heap invariants, from the current source of hdl21/instance.py): "
             "_Instance.connect/replace/disconnect and _get_connref/_get_portref preserve Inv_conn (conns[i][p] is c "
             "<=> (i,p) in c._connected_ports) and Inv_refs (one PortRef per (instance, port)), their whole-view "
             "postconditions (conns' and every back-reference set exactly as specified, nothing else changes), return "
             "values, KeyError/TypeError exactly when documented, refusal (RuntimeError) once the owning module is "
             "elaborated, exceptional postconditions. Bounded (labelled): the "
             "same contract evaluated at run time on real objects after every step of enumerated operation histories "
             "over 8 connectable kinds; and ELABORATED histories: call/setattr/connect/replace/disconnect sequences "
             "with port references taken before and after re-connections, completed to a valid mapping, exported, "
             "the exported nets compared with the partition computed from the history alone. Instance.__init__ "
             "establishes the invariants (proved); an AST audit shows nothing else writes conns/_connected_ports; "
             "connect-by-call reaches connect() for every keyword, whatever it is called (loop body, 9 naming classes).",
        design_ref="DESIGN.md section 4 C04",
        technique="contract-based deductive verification (pyvc VCs with quantified heap invariants, z3; finite-scope "
                  "instantiation for counterexamples) + bounded run-time contract checks on operation histories",
        note=TB + "; __call__/__setattr__/_to_array and the elaborated result are covered only by the bounded part"),
    "C18": dict(
        category="other",
        text="Hybrid. Proved (pyvc, quantified namespace invariant Inv_ns, from the current source): module._add, "
             "Module.add, Module.__setattr__, Module.get, Module.__getattr__, Module.__delattr__ and bundle._add keep "
             "every kind view equal to the restriction of the namespace to that kind (re-use of a name evicts the old "
             "entry), set the parent, reject reserved names / non-HDL values / additions after elaboration, and change "
             "nothing else (whole-view postconditions and frames). Bounded (labelled): the same contract evaluated "
             "at run time after every step of enumerated setattr/add/get histories on real Modules and Bundles, plus "
             "sub-classing, freeze and class-style == procedural.",
        design_ref="DESIGN.md section 4 C18",
        technique="contract-based deductive verification (pyvc VCs with quantified heap invariants, z3) + bounded "
                  "run-time contract checks on edit histories",
        note=TB + "; Inv_ns assumed on entry (fresh containers are empty); Bundle.add/__setattr__ and the decorators "
             "are covered only by the bounded part"),
    "C01": dict(
        category="other",
        text="Hybrid. Proved (pyvc): export_slice emits exactly the bits the slice denotes with VLSIR's inclusive top "
             "and never a bit outside the signal; _get_inner / Slice.top/bot/step/width return one coherent resolved "
             "index; export_port_dir is total and name-preserving; export_connection_target dispatches Signal / Slice / Concat "
             "to a name / export_slice / export_concat and refuses anything else; find_source and handle_noconn; the "
             "per-element wiring of instance arrays (element k of n receives bits [k*w, (k+1)*w) of an n*w wide "
             "connection, for all n, w, k: the loop body executed symbolically); resolve_portref records, connects and "
             "propagates exactly once; update_ref_deps re-points connected ports, slices and concatenation parts (loop "
             "bodies; 1-3 parts); export_concat emits the parts in reverse order (1-4 parts); export_instance appends "
             "one Connection per conns entry. Bounded (labelled): to_proto's end-to-end "
             "postcondition - leaf-net partition, devices with parameters and top-level ports of the package equal "
             "the meaning of the design as written, computed before elaboration by an independent reference "
             "interpreter - on ~960 (quick) design programs covering every connectable feature at depth 1-3; the "
             "netlisters' MSB-first reading is probed on every run.",
        design_ref="DESIGN.md section 4 C01",
        technique="contract-based deductive verification of the export leaves (pyvc, z3) + bounded run-time "
                  "evaluation of to_proto's postcondition against a reference interpreter",
        note=TB + "; the elaboration passes themselves (graph rewriting) are covered only by the bounded "
             "postcondition; rtc/meaning.py is a trusted specification"),
    "C06": dict(
        category="other",
        text="Hybrid. Bounded (labelled): wf_package(to_proto(d)) - unique module/signal/instance names, definition "
             "before use, ports name declared signals, every instance refers to a package module / declared external "
             "module / known primitive and connects each port exactly once with the port's width, targets inside "
             "their signals; from_proto and the spice/spectre netlisters accept - on the design family plus "
             "Series/MosStack/Wrapper. Proved (pyvc): exported slices stay inside their signal and have the width "
             "they denote (export_slice over _slice_inner's contract).",
        design_ref="DESIGN.md section 4 C06",
        technique="bounded run-time evaluation of to_proto's well-formedness postcondition + pyvc proofs of the "
                  "slice-bounds clause",
        note=TB + "; rtc/wf.py is a trusted specification; export_module/export_instance are not under a proved contract"),
    "C08": dict(
        category="other",
        text="Hybrid. Proved (pyvc, from the current source): ElabPass.elaborate_module_base restores the pending set "
             "on every exit (normal and exceptional), only grows done, returns cached modules untouched, poisons a "
             "module whose pass-specific rewrite raised and refuses poisoned modules; elaborate_instance_base, "
             "elaborate_instantiable, elaborate_tops and the base-class hooks carry the same contract; generator.run "
             "restores pending and the call stack on every exit, returns cached modules without running the body and "
             "rejects circular calls; a syntactic frame audit shows nothing else touches the caches. Bounded "
             "(labelled): a failing pass injected at every (pass position, module) of 14 designs with retry / "
             "unrelated / sharing continuations against fresh-process references, real design faults with "
             "repair-and-retry, generator bodies raising once.",
        design_ref="DESIGN.md section 4 C08",
        technique="contract-based deductive verification with exceptional postconditions and virtual-callee contracts "
                  "(pyvc, z3) + bounded fault injection",
        note=TB + "; overriding pass hooks are assumed to obey the virtual contract (audited not to touch the cache)"),
    "C11": dict(
        category="other",
        text="Hybrid. Bounded (labelled): to_proto(from_proto(P).tops) == P by protobuf message equality for every "
             "package of the design family and of a primitive/external-module parameter space; prefix and port "
             "direction tables round-trip exhaustively. Proved (pyvc): export_slice's inclusive-top translation, "
             "export_port_dir, export_connection_target; import_connection_target returns the declared signal / the "
             "unit-step slice [bot, top] of it / delegates concatenations / refuses undeclared names and unset "
             "variants; slice round-trip lemma over the three contracts; export followed by import of a signal target "
             "executed as one symbolic run returns the same signal; import_concat / export_concat keep the parts in "
             "mutually inverse order (1-4 parts, arity unrolled).",
        design_ref="DESIGN.md section 4 C11",
        technique="bounded run-time round-trip equality + pyvc proofs of export leaves",
        note=TB + "; import_concat and from_proto's module / instance loops are not under a proved contract"),
    "C02": dict(
        category="other",
        text="Hybrid. Proved (pyvc): check_signals_compatible returns Valid exactly when both sides have equal widths; "
             "MarkModules.elaborate_module returns only for a named module and freezes it; Orphanage.assert_parentage / "
             "check_connectable return only for owned objects; elaborate_module_base / elaborate_tops visit every "
             "module once per pass class; _slice_inner rejects out-of-range and empty indices (C03). Evaluated on the "
             "real Elaborator.default(): no pass class is listed twice (own cache per pass) and the connection and "
             "ownership checks run after the last rewriting pass. Bounded fault enumeration (labelled): the 13 fault "
             "classes of the statement planted at every applicable site, at the top and 1-2 levels deep, through "
             "to_proto / elaborate / netlist.",
        design_ref="DESIGN.md section 4 C02",
        technique="contract-based deductive verification of checker soundness (pyvc, z3) + pass-list obligations + "
                  "bounded single-fault enumeration",
        note=TB + "; check_compatible's dispatch is proved, check_instance / check_bundles_compatible / the array width rule are covered by the fault family "
             "only; one known finding (name clash accepted by elaborate() alone)"),
    "C05": dict(
        category="other",
        text="Hybrid. Proved (pyvc with z3 + cvc5 on strings): ElabPass.flatname returns join(segments) + '_'*k not in "
             "the avoid set and within maxlen (loop invariant + decreasing measure); ResolvePortRefs.create_source and "
             "replace_noconn insert only names absent from the module namespace (call-site precondition of the "
             "pass-internal Module.add contract) and leave every designer name bound to its object; the same for the "
             "insertion loops of ArrayFlattener, BundleFlattener.replace_bundle_inst and "
             "InstBundleElabPass.elaborate_instance_bundle (one arbitrary iteration from an arbitrary state). Bounded "
             "(labelled): adversarially named designs for every naming rule x underscore suffixes x declaration "
             "orders against the reference interpreter and object identity.",
        design_ref="DESIGN.md section 4 C05",
        technique="contract-based deductive verification on strings (pyvc, z3 + cvc5) with call-site obligations + "
                  "bounded adversarial naming family",
        note=TB + "; Path.to_name and the Instance constructor are abstracted at the loop sites"),
    "C07": dict(
        category="other",
        text="Hybrid. Proved (pyvc): elaborate_module_base returns a module already done by the pass untouched and "
             "only grows done (cache soundness); module._add refuses additions once _elaborated is set; MarkModules "
             "sets it. Bounded (labelled): exhaustive 1-2 call and seeded longer histories of elaborate/to_proto/"
             "netlist on sub-modules and lists before exporting the top of 4 DAGs with shared children, bundle ports, "
             "port references; idempotence; new parents over elaborated children; create/delete cycles for id-keyed "
             "caches.",
        design_ref="DESIGN.md section 4 C07",
        technique="contract-based deductive verification of cache soundness and freeze (pyvc, z3) + bounded call "
                  "histories",
        note=TB + "; io_for_checking / io_for_resolving / THE_CACHE are covered by the bounded histories only"),
    "C12": dict(
        category="other",
        text="Static determinism obligations re-derived from the AST on every run: each loop or comprehension over a "
             "set-typed field in hdl21/elab, hdl21/proto, params/flatten/generator/qualname either goes through an "
             "ordering function or writes only into the loop element; no id()/hash() flows into generated names. "
             "Bounded (labelled): every design of the family (plus order-sensitive shapes) exported and netlisted in "
             "spice/spectre/verilog in 6 (12) processes with different PYTHONHASHSEED and randomised unrelated work, "
             "all digests equal.",
        design_ref="DESIGN.md section 4 C12",
        technique="static frame/determinism obligations over the AST + bounded multi-process comparison (cross-process "
                  "equality is not expressible as a contract on one call; labelled bounded)",
        note="set iteration order is the only modelled source of nondeterminism; the AST audit is syntactic (set-typed "
             "fields identified by name)"),
    "C09": dict(
        category="other",
        text="Hybrid. Proved (pyvc): generator.run returns a cached module without running the body, stores results, "
             "rejects circular calls and restores pending/stack on every exit; relational obligations on two symbolic "
             "executions of the real _unique_name (z3 + cvc5 on strings): equal readable names imply equal parameter "
             "values for string / optional-string shapes (None vs 'None' included), and a readable name always "
             "contains '=' (never a hex digest); generator._run gives a fresh result exactly one name and leaves a result "
             "that already belongs to a generator call (handed along by any generator, itself included) as named. "
             "Bounded (labelled): memo identity, body run count, distinct names, "
             "export-name uniqueness, name stability and independence of the name from the spelling of equal values "
             "over five param-class shapes x 39 values and three call forms; handed-on modules (other generator, same "
             "generator, chain) keep their name; every paramclass field of the library takes part in ==/hash.",
        design_ref="DESIGN.md section 4 C09",
        technique="contract-based deductive verification incl. relational string obligations (pyvc, z3 + cvc5) + "
                  "bounded parameter-shape family",
        note=TB + "; hashed branch relies on md5/JSON injectivity (assumed); int/float fields bounded only"),
    "C10": dict(
        category="other",
        text="Hybrid. Proved (pyvc): PortDir.flipped swaps INPUT/OUTPUT and fixes INOUT/NONE; involution lemma over the "
             "contract; export_port_dir total; BundleInstance.__copy__ keeps every public field and flipped() returns a "
             "copy with the flag negated, the original untouched (two flips cancel); the direction rule of "
             "flatten_bundle_inst_helper for one arbitrary leaf (port-ness, declared direction swapped iff the flip "
             "state, role -> OUTPUT/INPUT/undirected) and the recursion step (same port-ness, flip state XOR the "
             "sub-instance's flag), started by flatten_bundle_inst from the instance's own flags. Bounded-exhaustive "
             "(labelled): "
             "flattened names, widths, visibility and directions of ~20,000 (quick) bundle instantiations - every leaf kind at depth 1-3 with flips at every "
             "level by constructor flag and flipped(), roles, port vs internal, plus seeded random trees - against a "
             "reference of the documented rule.",
        design_ref="DESIGN.md section 4 C10",
        technique="pyvc proof of the direction flip + bounded-exhaustive run-time check of the flattening rule",
        note=TB + "; the induction over the bundle tree is argued, not machine-checked; the naming "
             "of flattened members is bounded only"),
    "C13": dict(
        category="other",
        text="Hybrid. Proved (pyvc): export_prefix is total over the 21 prefixes and name-preserving; "
             "export_param_value picks the variant matching the value's type and carries the value unchanged "
             "(None -> None, TypeError outside the accepted types); export_prefixed (over exact rationals) emits an "
             "integer mantissa within int64 as that integer and anything else as its decimal string, with the prefix "
             "of the same name, and never raises; export_primitive_params renames exactly the pulse source's "
             "parameters. Bounded (labelled): exported name/variant/exact digits and "
             "value (as Fraction, floats bit-for-bit) for an external module and ten ideal primitives over ints to "
             "+-2^63, floats, 1-40 digit Decimals, strings, Literals, Prefixed x 21 prefixes; None omitted; documented "
             "pulse renaming; to_scalar conversion.",
        design_ref="DESIGN.md section 4 C13",
        technique="pyvc proofs of the dispatch/table functions + bounded exactness check against rationals",
        note=TB + "; Decimal and float are outside the solver theories"),
    "C14": dict(
        category="other",
        text="Hybrid. Proved (pyvc over exact rationals, cvc5/z3, from the current source of hdl21/prefix.py, for every "
             "ordered pair of the 21 prefixes and ARBITRARY real mantissas): the six comparison operators of Prefixed "
             "(with _rounded_to_smaller, to_prefixed and exact inlined) never raise, agree with the comparison of the "
             "exact values beyond the 1e-20 tolerance, make equal values equal with equal hashes, satisfy trichotomy "
             "and the relations between < <= == != >= >, are symmetric under operand swap; int() truncates and float() "
             "is the nearest float of the exact value. Bounded (labelled): + - * neg abs scale against exact "
             "rationals over all 441 prefix pairs x mantissa pairs (decimal's 28-digit context is outside the solver "
             "theories), construction routes (copy-with-update of a used number, copy, pickle), prefix tables "
             "exhaustively.",
        design_ref="DESIGN.md section 4 C14 and section 8.2",
        technique="contract-based deductive verification over linear real/integer arithmetic with floor (pyvc VCs, "
                  "cvc5 then z3; relational clauses over merged runs of the six operators) + bounded run-time check "
                  "of the arithmetic operators against fractions.Fraction",
        note=TB + "; Fraction(Decimal) exact for finite Decimals, hash/float of a Fraction are functions of its value "
             "(assumed); arithmetic operators have no deductive part; one known finding (28-digit context precision)"),
    "C16": dict(
        category="other",
        text="Hybrid. Proved (pyvc): _find_signal_or_port returns the named port, else the named signal, else raises; "
             "walk() continues past its two guards only for names without the ':' separator; make_name is the "
             "':'-join of the path (1-3 instances); lemma: such joins are injective, so no designer name can collide "
             "with a flattened path name. "
             "Bounded (labelled): leaf devices with parameters, leaf-net partition and ports of flatten(m) equal those "
             "of m for generated scalar/bus hierarchies (depth 1-3, primitive and external leaves, internal nets at "
             "every level, ':'-colliding names) and a third of the shared family; a rejection is accepted only for "
             "designs with slices/concats.",
        design_ref="DESIGN.md section 4 C16",
        technique="pyvc proof of the lookup helper + bounded run-time comparison through the package reader",
        note=TB + "; walk/flatten (generator-based rewrite) are bounded only"),
    "C17": dict(
        category="other",
        text="Hybrid. Proved (pyvc): export_save accepts exactly the five documented SaveTarget forms and carries the "
             "mode / name / comma-joined names; next_analysis_name returns Analysis<k> and increments k (distinct "
             "names) and touches nothing but the counter; export_sweep_variable total; export_control / export_analysis "
             "dispatch; export_attr appends the converted attribute to exactly one of the three lists; export_op / "
             "export_tran carry the own name or the next fresh one and pass values through export_float; Sim.add "
             "appends every valid attribute at the end. Bounded (labelled): SimInputs of procedurally built, add()-built "
             "and class-defined Sims, alone and in lists sharing or not sharing a testbench, compared field by field "
             "(floats: nearest float of the exact value); non-testbenches rejected.",
        design_ref="DESIGN.md section 4 C17",
        technique="pyvc proofs of dispatch functions + bounded run-time field comparison",
        note=TB + "; export_analysis and friends are bounded only"),
    "C15": dict(
        category="other",
        text="Hybrid. Proved (pyvc): HierarchyWalker.visit_instance / visit_module / visit_instantiable leave "
             "connections, names and hierarchy containers untouched on every exit (only Instance.of may change), total "
             "dispatch over the instantiable kinds, with the PDK hooks as virtual callees; an AST audit shows no PDK "
             "walker writes connections or names; use_defaults of the Sky130 and GF180 walkers picks, for w and l "
             "independently, the given value or the table default. Exhaustive over the PDK tables (evaluated on the real walkers): "
             "every type/family/threshold triple, every model name and passive table entry for sample / Sky130 / "
             "GF180 / ASAP7 with frame, selection, port compatibility, cache identity, export + spice/spectre "
             "netlists, compile-twice, sizes, pdk.compile by module/name/default; logic cells sampled 1 in 16 (all in "
             "thorough).",
        design_ref="DESIGN.md section 4 C15",
        technique="contract-based deductive verification of the walker frame (pyvc, z3) + exhaustive evaluation of "
                  "the finite device tables",
        note=TB + "; PDK hook overrides assumed to obey the frame (audited syntactically); three known findings "
             "(generic 4/3-terminal primitives mapped to 5/4-terminal devices)"),
    "C19": dict(
        category="other",
        text="Hybrid. Proved for all n (z3 lemmas over the array rule and Concat bit order): with c0 = Concat(P0, i), "
             "c1 = Concat(i, P1), unit 0's first port is P0, unit n-1's second port is P1, consecutive units share "
             "exactly i[k], i[k] touches nothing else, widths satisfy the per-element rule; _seriesconn proved by pyvc; "
             "connect-by-call (how Series and Wrapper wire their units) reaches connect() for every port name. "
             "Bounded (labelled): exported structure of Series for four unit cells x all ordered port pairs x n in "
             "{1,2,3,8} (1..16 thorough) by name and by Signal; rejections; MosStack == Series over (d, s); Wrapper "
             "over modules with bus and bundle ports.",
        design_ref="DESIGN.md section 4 C19",
        technique="lemmas over contracts discharged by z3 for all n + pyvc proof of the port lookup + bounded "
                  "structural check of the exported package",
        note=TB + "; Series / Wrapper bodies themselves are bounded only (they drive the builder API)"),
}

NA_REASON = "check not built yet (work in progress; see DESIGN.md section 4 for the plan)"

m = {
    "version": 1,
    "setup_cmd": "./setup.sh",
    "hooks": {
        "guard": "HDL21_VERIF",
        "enable": "no hooks: all contracts are sidecar files under /verif; HDL21_VERIF is reserved and guards nothing in /repo",
        "baseline_off_cmd": "cd /repo && /venv/bin/python -m pytest -ra -q -p no:cacheprovider --timeout=900 --continue-on-collection-errors",
        "source_commits": [],
        "add_only": True,
    },
    "engines": [
        {"name": "pyvc", "path": "pyvc/", "serves_properties": sorted(CLAIMS),
         "kind_free_text": "verification-condition generator: symbolic execution of function ASTs extracted from /repo "
                           "on every run, sidecar contracts (contracts/), obligations discharged by z3 then cvc5"},
        {"name": "rtc", "path": "rtc/", "serves_properties": sorted(CLAIMS),
         "kind_free_text": "the same contracts evaluated at run time on the real functions over bounded families "
                           "(bounded stand-in, never counted as proved)"},
    ],
    "checks": [],
    "notes": "fix: commits in /repo and known findings are listed in known_findings.jsonl; see DESIGN.md",
    "not_applicable": [],
}
# What later rounds of seeded changes added to each check (appended to the claim text).
ADDENDA = {
    "C01": " Later additions: the direction / array / concat loop bodies, update_ref_deps, resolve_portref under contract; "
           "bounded families for designs written in several steps, declaration orders of reference chains, every "
           "concatenation of two or three pieces of one bus, and C05's adversarial-name designs against the reference meaning.",
    "C02": " Later additions: _slice_inner's rejection clauses (an index selecting nothing raises) proved under C02 as well; "
           "faults that arise through history: every empty slice on ports of every width, edits attempted (and possibly "
           "refused) after a first elaboration / export, signals resized after a slice or concatenation of them was looked at.",
    "C03": " Later additions: ref_width proved (the present width of the referent, through module / primitive / external "
           "instances); Slice properties resolve anew on each read (no memo); slices of port references for 10 kinds of referent "
           "(incl. bundle members, inside sliced concatenations) against the reference meaning; run-time contract on parents of 7 kinds "
           "(port and bundle references, slices, concatenations) incl. histories in which the referent is resized between "
           "two indexings; same-parent histories.",
    "C04": " Later additions: final connections to bundle members (b.x) in the elaborated histories; references held in a "
           "variable or inside a concatenation.",
    "C05": " Later additions: the loop insertion sites of arrays.py / flatten_bundles.py / inst_bundles.py, copy_port; "
           "adversarial designs in which the designer's signal is used directly / through a slice / a concatenation / not at "
           "all, the designer's own compound (pair, array, bundle instance) carries the invented name, and invented names clash "
           "with each other also on a child's bundle port.",
    "C06": " Later additions: modules edited after a first export, C02's history faults, every concatenation of two or three "
           "pieces of one bus.",
    "C07": " Later additions: io_for_resolving / io_for_checking under contract; cache-ownership audit; histories with an "
           "unrelated look-alike design and with list calls that fail on their last member.",
    "C08": " Later additions: the poison invariant is an equivalence (an error is recorded on a module iff its own rewrite "
           "raised); a module on or below which a pass failed is not marked done; nothing below marks a pending module done - "
           "proved for elaborate_module_base, its loops and elaborate_tops; persistent faults retried 7 times through every entry "
           "point; repaired child ports after a failure.",
    "C09": " Later additions: qualpath under contract; every pair of strings of up to three pieces over small alphabets "
           "(blanks, '=', line breaks, None) named differently; a call repeated after 3 000 (20 000) other cached calls; "
           "external modules of one name in two domains and generators / modules of one name from two Python modules as "
           "parameter values.",
    "C12": " Later additions: each process makes a different number of throw-away generator calls first; designs asking for "
           "one generated cell twice with 40 / 150 / 400 other calls in between.",
    "C13": " Later additions: str-typed parameter-class fields and the model parameter of the physical primitives with "
           "leading / trailing blanks and line breaks.",
    "C15": " Later additions: use_defaults of the Sky130 and GF180 walkers proved; two requests in one compile in both orders "
           "with the designer's parameter objects compared before / after; compile by default after a failed compile to "
           "another PDK.",
    "C16": " Later additions: three separator / empty-name guards of walk proved; ports re-declared after use at every level; "
           "path names of several hundred characters.",
    "C17": " Later additions: to_proto of a Sim / a list of 1-3 Sims under contract (i-th result is the i-th Sim's); option "
           "values; Sims edited in place between exports; export_attr / named analyses / Sim.add loop body under contract; analysis objects used more than "
           "once (nested ones included); lists of 3-4 Sims with interleaved testbenches.",
    "C18": " Later additions: Bundle.add and the class-body loops of @module / @bundle under contract; assignment of an "
           "object already held moves it; the prior holder of a re-used name leaves the module (existential over the "
           "namespace); Module.add refuses the protected names (must_raise clause); __getattr__ for underscore names; "
           "names only add() can give; class bodies whose values already carry another name (modules and bundles).",
    "C19": " Later additions: _unused_name and a naming-site audit of Series / Wrapper; unit ports called like the generator's "
           "own objects (i, units, inner, units_0); units of one name from one factory.",
}
ADDENDA2 = {
    "C01": " Rounds 7-9 (bounded): end-relative indices into buses whose parts were resized after a width query and into same-named signals of several widths; no-connects on array / pair ports; array shares of strided, reversed, nested slices and unaligned concatenations; a design that no longer reads as written, or cannot be written, is reported.",
    "C02": " Rounds 7-10 (bounded): clashing imported modules; a module named like its own descendant; ports connected and then disconnected; connections to port-less targets.",
    "C03": " Rounds 7-9 (bounded): indices into w-bit pieces of wider objects judged by the bits selected; end-relative indices after resizing; array shares of slices.",
    "C04": " Rounds 7-9 (bounded): one connection dictionary re-used after its contents changed; bit 0 of a port reference; a port connected and then disconnected is refused like a never-connected one; the content of connectable objects is a frame of connect / replace / disconnect; arrays and pairs of two-terminal devices (ports p / n) re-connected in every way.",
    "C05": " Rounds 7-9 (bounded): one bundle type under one instance name in two modules; the invented name and the next candidates all held by the designer, in every order, for each naming rule.",
    "C06": " Rounds 7-9 (bounded): unset parameters in dictionaries and compiled devices (every exported parameter carries a value); generated names with dotted parameter text; refused edits of exported modules; external modules whose pin list changes after use; parents repaired after a child's fault was reported; one external-module name in two domains. Known findings: hand-given module names with dots, and same-named external modules in two domains, vs. the netlisters (reported under their own key).",
    "C07": " Rounds 7-9 (bounded): outcomes (package or exception) of valid and invalid new parents over children that were used before; designs written in two parts around an elaboration; built-in generators over used units; generators handing out hand-written modules that were used before.",
    "C08": " Rounds 7-9 (bounded): failures found while walking the hierarchy, inside the export and inside the bundle-flattening pass, repeated with other failures in between; generators that fall back when a sub-generator raises.",
    "C09": " Rounds 7-9 (bounded): equal calls of one cached generator from nine contexts (inside cached / uncached generators, after elaboration, inside a body that raises afterwards, a library result handed on by a user generator); parameters pickled in another process.",
    "C10": " Rounds 7-9: the per-member loop of replace_bundle_conn under contract (one connection, under the flattened port's own name, to the parent-side signal of the same path). Bounded: bundle connections whose names differ or collide on the two sides; one port per leaf of the bundle as it stands (coinciding paths, re-assigned and copied members); supply and clock leaves; roles equal by name; bundle-valued ports of instance arrays.",
    "C11": " Rounds 7-9 (bounded): number-like literal text on every ideal primitive; every optional parameter given as None; dotted generated and hand-given module names; parameter names like the call machinery's arguments.",
    "C12": " Rounds 7-9 (bounded): library cells with optional text parameters used earlier with them unset; stacks over units with several parallel ports; failed attempts and imports of differing declarations as earlier work; opaque parameter values.",
    "C14": " Rounds 7-9 (bounded): values a hair below a whole number; the thread's decimal context is a frame of every operation, succeeding or failing (loss of precision / another rounding rule).",
    "C15": " Rounds 7-9 (bounded): compiled generic primitives next to direct instances of the same PDK cell; the default PDK after a late registration (fresh processes); multipliers given as zero; a second compile that raises; a design exported before it is compiled.",
    "C16": " Rounds 7-9 (bounded): single-level tops not elaborated before flatten() (the result as returned holds leaves on nets only; invalid ones are refused); one module under several port maps; leaf pins named like Instance attributes.",
    "C17": " Rounds 7-9 (bounded): save targets compared as given (names that read like a mode, the testbench port); measurements on analysis objects of every kind; literal text with indentation.",
    "C18": " Rounds 7-9: the reserved names are stated in the specification, not read from the code. Bounded: nine kinds of edit of an elaborated module are refused and leave no trace; visibility changed in place, then the object moved or added again.",
    "C19": " Rounds 7-9 (bounded): units with a namesake of a flattened bundle member, flipped and one-leaf bundle ports (directions kept), units left half-way by a failed parent; stacks of 11 and more units; series ports given one by name and one as object.",
}
ADDENDA3 = {
    "C04": " Round 13 (bounded): instances already connected (signal, bit, port reference, bundle member) made arrays with `*`, then connected again in five ways.",
    "C09": " Round 13 (bounded): unequal parameter values with equal hashes; sweeps over an uncached generator with every result dropped at once.",
    "C17": " Round 13 (bounded): include / library paths with `..` components; class attributes with leading underscores go by the name they are assigned to. export_include / export_lib under contract (path text and section unchanged).",
    "C06": " Round 12: the port loop of export_external_module and the signal / port / instance loops of export_module proved per iteration (one record per element, appended last; iteration sources compared as source text).",
    "C11": " Round 12: import_port_dir, import_prefix (never refuse a table entry; the member of the same name) and import_parameter_value (per variant the value the record carries), import_prefixed (what the trusted Prefixed constructor is handed) and import_primitive_params (pulse renaming inverted, missing ones None) proved; the direction and prefix round trips are lemmas over the export-side and import-side contracts.",
    "C12": " Round 12: the static audit also takes loops over expressions that are sets by their syntax (set displays, set()/frozenset(), set algebra on .keys()/.items() views).",
    "C13": " Round 12: to_scalar under contract (the Prefixed constructor - trusted - is handed the argument itself; a refused string becomes a Literal of the same text); bounded: numeric strings of 19-35 significant digits and exponents beyond a double's range.",
    "C16": " Round 12: syntactic obligations on flatten()'s assembly (nodes is all of walk(); one unconditional add per node); bounded: leaf devices without terminals at every level.",
}
for pid in ALL:
    c = CLAIMS.get(pid)
    if c is None:
        m["not_applicable"].append({"property_id": pid, "reason": NA_REASON})
        continue
    m["checks"].append({
        "property_id": pid,
        "quick_cmd": f"./check {pid} --tier quick",
        "thorough_cmd": f"./check {pid} --tier thorough",
        "evidence_file": f"evidence/{pid}.json",
        "replay_cmd_template": f"./check {pid} --replay {{path}}",
        "engine": "pyvc+rtc",
        "level_claimed": {"category": c["category"], "text": c["text"] + ADDENDA.get(pid, "") + ADDENDA2.get(pid, "") + ADDENDA3.get(pid, ""), "design_ref": c["design_ref"]},
        "level_note": c["note"],
        "technique": c["technique"],
    })
json.dump(m, open(os.path.join(ROOT, "MANIFEST.json"), "w"), indent=1)
print("MANIFEST.json:", len(m["checks"]), "checks,", len(m["not_applicable"]), "not applicable")
