#!/usr/bin/env python3
"""tools/ingest_seed.py <property> <mutation dir> <seed id> <checks...>
Confirms a sub-agent's seeded change in a scratch worktree of /repo (tests pass with it, its demonstration fails with it
and passes without), copies it to /verif/seeded/<seed id>/ and runs the named checks against it in /repo (applied, then
undone).  Writes meta.json."""
import json, os, shutil, subprocess, sys
prop, src, sid = sys.argv[1:4]
checks = sys.argv[4:] or [prop]
dst = f"/verif/seeded/{sid}"
os.makedirs(dst, exist_ok=True)
for f in ("patch.diff", "demo.py", "notes.md"):
    if os.path.abspath(src) != os.path.abspath(dst):
        shutil.copy(os.path.join(src, f), os.path.join(dst, f))
wt = f"/tmp/confirm_{sid}"
def sh(cmd, **kw):
    return subprocess.run(cmd, shell=True, capture_output=True, text=True, **kw)
sh(f"git -C /repo worktree remove --force {wt}")
r = sh(f"git -C /repo worktree add -q {wt} HEAD")
assert r.returncode == 0, r.stderr
env = dict(os.environ, PYTHONPATH=":".join([wt] + [f"{wt}/pdks/{d}" for d in ("Sky130", "Gf180", "Asap7")]))
ran = {}
try:
    d0 = sh(f"cd {wt} && /venv/bin/python {dst}/demo.py", env=env)
    ran["demo_without_change"] = {"exit": d0.returncode, "tail": d0.stdout.strip()[-200:]}
    a = sh(f"git -C {wt} apply {dst}/patch.diff")
    assert a.returncode == 0, a.stderr
    d1 = sh(f"cd {wt} && /venv/bin/python {dst}/demo.py", env=env)
    ran["demo_with_change"] = {"exit": d1.returncode, "tail": (d1.stdout + d1.stderr).strip()[-300:]}
    t = sh(f"cd {wt} && /venv/bin/python -m pytest -q -p no:cacheprovider 2>&1 | grep -E 'passed|failed' | tail -1")
    ran["test_suite_with_change"] = t.stdout.strip()
finally:
    sh(f"git -C /repo worktree remove --force {wt}")
ok = ran["demo_without_change"]["exit"] == 0 and ran["demo_with_change"]["exit"] != 0 and (" failed" not in (" " + ran["test_suite_with_change"]).replace("xfailed", "x")) and "passed" in ran["test_suite_with_change"]
# run my checks against it
det = {}
assert sh("git -C /repo status --porcelain").stdout.strip() == "", "repo not clean"
a = sh(f"git -C /repo apply {dst}/patch.diff")
assert a.returncode == 0, a.stderr
try:
    for c in checks:
        r = sh(f"cd /verif && ./check {c} --tier quick")
        lines = [l[:300] for l in r.stdout.splitlines() if l.startswith(("VIOLATION", "UNDECIDED", "UNSUPPORTED"))]
        det[c] = {"exit": r.returncode, "lines": lines[:5]}
finally:
    sh("git -C /repo checkout -- .")
meta = {"seed": sid, "breaks_property": prop, "confirmed": ok, "what_i_ran": ran,
        "needs_to_manifest": open(os.path.join(dst, "notes.md")).read()[:1500],
        "my_checks_against_it": det,
        "caught_by": [c for c, v in det.items() if v["exit"] == 1]}
json.dump(meta, open(os.path.join(dst, "meta.json"), "w"), indent=1)
print(sid, "confirmed" if ok else "NOT CONFIRMED", "caught_by", meta["caught_by"])
for c, v in det.items():
    print("  ", c, "exit", v["exit"], (v["lines"] or [""])[0][:200])
