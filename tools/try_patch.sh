#!/bin/sh
# tools/try_patch.sh <patch.diff> <Cxx> [<Cyy> ...]
# Applies a seeded change to /repo, runs the named checks (quick tier), prints their VIOLATION lines and exit codes,
# and undoes the change straight afterwards.  /repo must be clean before.
set -u
P="$1"; shift
cd /verif
if [ -n "$(git -C /repo status --porcelain)" ]; then echo "repo not clean" >&2; exit 2; fi
git -C /repo apply "$P" || { echo "patch does not apply" >&2; exit 2; }
trap 'git -C /repo checkout -- . ' EXIT
for c in "$@"; do
  out=$(./check "$c" --tier quick 2>&1); rc=$?
  echo "== $c exit=$rc"
  echo "$out" | grep -E "^(VIOLATION|UNDECIDED|UNSUPPORTED|CHECKER-ERROR)" | cut -c1-260 | head -6
done
