#!/usr/bin/env python3
"""Re-runs every seeded change under /verif/seeded against the checks recorded in its meta.json (quick tier), applying
the patch to /repo and undoing it straight afterwards.  Writes seeded/SUMMARY.md and updates each meta.json."""
import json, os, subprocess, sys
ROOT = "/verif"
def sh(cmd):
    return subprocess.run(cmd, shell=True, capture_output=True, text=True)
assert sh("git -C /repo status --porcelain").stdout.strip() == "", "repo not clean"
rows = []
for sid in sorted(os.listdir(f"{ROOT}/seeded")):
    d = f"{ROOT}/seeded/{sid}"
    if not os.path.isdir(d):
        continue
    meta = json.load(open(f"{d}/meta.json"))
    checks = list(meta.get("my_checks_against_it", {}) or [meta["breaks_property"]])
    if meta["breaks_property"] not in checks:
        checks.insert(0, meta["breaks_property"])
    a = sh(f"git -C /repo apply {d}/patch.diff")
    if a.returncode != 0:
        rows.append((sid, meta["breaks_property"], "PATCH DOES NOT APPLY", ""))
        continue
    det = {}
    try:
        for c in checks:
            r = sh(f"cd {ROOT} && ./check {c} --tier quick")
            lines = [l[:300] for l in r.stdout.splitlines() if l.startswith(("VIOLATION", "UNDECIDED", "UNSUPPORTED"))]
            det[c] = {"exit": r.returncode, "lines": lines[:4]}
    finally:
        sh("git -C /repo checkout -- .")
    meta["my_checks_against_it"] = det
    meta["caught_by"] = [c for c, v in det.items() if v["exit"] == 1]
    json.dump(meta, open(f"{d}/meta.json", "w"), indent=1)
    first = next((v["lines"][0] for c, v in det.items() if v["exit"] == 1 and v["lines"]), "")
    key = first.split("key=")[1].split(" ::")[0] if "key=" in first else ""
    rows.append((sid, meta["breaks_property"], ", ".join(meta["caught_by"]) or "MISSED", key[:110]))
    print(rows[-1], flush=True)
with open(f"{ROOT}/seeded/SUMMARY.md", "w") as f:
    f.write("| seeded change | breaks | caught by (quick tier) | first failing obligation / check |\n|---|---|---|---|\n")
    for r in rows:
        f.write("| " + " | ".join(r) + " |\n")
print("missed:", [r[0] for r in rows if r[2] == "MISSED"])
