#!/bin/sh
# Runs the repository's pinned suite (guard off); prints the summary line.
cd /repo && /venv/bin/python -m pytest -p no:cacheprovider --timeout=900 -q "$@" 2>&1 | grep -E "^[0-9]+ (passed|failed)|passed|failed" | tail -1
