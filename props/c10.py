"""C10 - bundle ports flatten to the documented names, directions and visibility."""
import itertools
import random
from enum import Enum, auto

from pyvc import *
from contracts.common import *

INFO = {
    "level": "other",
    "explanation": "hybrid: PortDir.flipped proved by pyvc (swaps INPUT/OUTPUT, fixes INOUT/NONE, involution lemma) and "
                   "export_port_dir total; flatten_bundle_inst_helper / replace_bundle_conn are recursive graph "
                   "rewrites evaluated at run time against a 12-line reference of the documented rule over an "
                   "exhaustively enumerated family of bundle definition trees (bounded-exhaustive)",
    "trusted_base": ["the reference rule in props/c10.py:expected_leaves (trusted specification)", "pyvc", "z3"],
}

LEAF_KINDS = ("input", "output", "inout", "noneport", "role_ab", "role_ba", "plain",
              # leaves declared as ports through the usage-specific constructors (supplies, clocks): ports like any other
              "power", "ground", "clock", "clock_out")


def mk_roles():
    import hdl21 as h

    class AB(Enum):
        A = auto()
        B = auto()
    return h.RoleSet.from_enum(AB)


def mk_leaf(kind, width, roles):
    import hdl21 as h
    if kind == "input":
        return h.Input(width=width)
    if kind == "output":
        return h.Output(width=width)
    if kind == "inout":
        return h.Inout(width=width)
    if kind == "noneport":
        return h.Port(width=width)
    if kind == "power":
        return h.Power(width=width)
    if kind == "ground":
        return h.Ground(width=width)
    if kind == "clock":
        return h.Clock(width=width)
    if kind == "clock_out":
        return h.Clock(width=width, direction=h.PortDir.OUTPUT)
    if kind == "role_ab":
        return h.Signal(width=width, src=roles.A, dest=roles.B)
    if kind == "role_ba":
        return h.Signal(width=width, src=roles.B, dest=roles.A)
    return h.Signal(width=width)


def trees(tier, seed):
    """tree := (leaves, subs); leaves: tuple of (name, kind, width); subs: tuple of (name, flipped, role, tree)"""
    rnd = random.Random(seed)
    small_leafsets = [((("x", k, 1),)) for k in LEAF_KINDS] + \
                     [(("x", a, 1), ("y", b, 2)) for a in LEAF_KINDS for b in ("input", "role_ab", "plain")]
    roles_ = (None, "A", "B")
    out = []
    # depth 1: every leaf set
    for ls in small_leafsets:
        out.append((ls, ()))
    # depth 2: one or two sub-bundles, every flip/role combination on a few leaf sets
    sub_leafsets = [(("x", k, 1),) for k in LEAF_KINDS]
    for ls in sub_leafsets:
        for fl in (False, True):
            for ro in roles_:
                out.append(((("t", "input", 1),), (("s", fl, ro, (ls, ())),)))
    for ls1, ls2 in itertools.product(sub_leafsets[:4], sub_leafsets[3:]):
        for f1, f2 in itertools.product((False, True), repeat=2):
            out.append(((), (("s1", f1, "A", (ls1, ())), ("s2", f2, "B", (ls2, ())))))
    # depth 3: flips at every level
    for ls in sub_leafsets:
        for f1, f2 in itertools.product((False, True), repeat=2):
            for r2 in roles_:
                out.append(((("t", "output", 2),), (("m", f1, "A", ((("u", "inout", 1),), (("d", f2, r2, (ls, ())),))),)))
    n = 3000 if tier == "thorough" else 200

    def rand_tree(d):
        leaves = tuple((f"l{k}", rnd.choice(LEAF_KINDS), rnd.randint(1, 3)) for k in range(rnd.randint(0 if d else 1, 3)))
        subs = ()
        if d > 0:
            subs = tuple((f"b{k}", rnd.random() < 0.5, rnd.choice(roles_), rand_tree(d - 1))
                         for k in range(rnd.randint(0, 2)))
        if not leaves and not subs:
            leaves = (("l0", rnd.choice(LEAF_KINDS), 1),)
        return (leaves, subs)
    systematic = len(out)
    for _ in range(n):
        out.append(rand_tree(rnd.randint(1, 3)))
    forms = ((False, "ctor"), (True, "ctor"), (True, "func"), (False, "func2"), (False, "ctor+func"), (True, "func3"),
             (True, "ctor+copy"), (True, "ctor+mul"))
    for k, t in enumerate(out):
        # systematic trees: every flip form; random trees: the three basic forms and one of the compound ones
        use = forms if k < systematic else forms[:3] + (forms[3 + k % 5],)
        for port in (True, False):
            for flipped in use:
                for role in roles_:
                    yield (t, port, flipped, role)


def build_bundle(tree, roles, counter):
    import hdl21 as h
    leaves, subs = tree
    counter[0] += 1
    B = h.Bundle(name=f"Bn{counter[0]}")
    B.roles = roles
    for name, kind, width in leaves:
        B.add(mk_leaf(kind, width, roles), name=name)
    for name, fl, ro, sub in subs:
        SB = build_bundle(sub, roles, counter)
        B.add(SB(flipped=fl, role=getattr(roles, ro) if ro else None), name=name)
    return B


def expected_leaves(tree, is_port, flips, role):
    """THE RULE (statement of C10): one scalar per leaf, named by the member path; a port-declared leaf keeps its
    direction for an even number of flips on its path and has input/output swapped for an odd number; a role-carrying
    leaf is OUTPUT if the containing instance's role is its source, INPUT if it is its destination, undirected
    otherwise; inout/undirected stay; leaves of non-port instances are internal signals."""
    leaves, subs = tree
    out = {}
    for name, kind, width in leaves:
        if not is_port:
            out[(name,)] = (width, "INTERNAL", "NONE")
            continue
        if kind in ("input", "output", "power", "ground", "clock", "clock_out"):
            d = {"power": "INPUT", "ground": "INPUT", "clock": "INPUT", "clock_out": "OUTPUT"}.get(kind, kind.upper())
            if flips % 2:
                d = {"INPUT": "OUTPUT", "OUTPUT": "INPUT"}[d]
        elif kind == "inout":
            d = "INOUT"
        elif kind == "noneport":
            d = "NONE"
        elif kind in ("role_ab", "role_ba"):
            src, dest = ("A", "B") if kind == "role_ab" else ("B", "A")
            d = "OUTPUT" if role == src else ("INPUT" if role == dest else "NONE")
        else:
            d = "NONE"
        out[(name,)] = (width, "PORT", d)
    for name, fl, ro, sub in subs:
        for path, v in expected_leaves(sub, is_port, flips + (1 if fl else 0), ro).items():
            out[(name,) + path] = v
    return out


def check_tree(case):
    import hdl21 as h
    tree, port, (flipped, how), role = case
    w = {"case": repr(case)}
    roles = mk_roles()
    B = build_bundle(tree, roles, [0])
    if role and how in ("func", "func2", "ctor+func"):
        # the instance's role given as an EQUAL role that is another object (a copy, a role of a second RoleSet made from
        # the same names): roles are what they are called
        import copy as _copy
        other = mk_roles()
        role_obj = _copy.copy(getattr(roles, role)) if how == "func" else getattr(other, role)
        B0 = B

        def B(**kw):
            if kw.get("role") is not None:
                kw["role"] = role_obj
            return B0(**kw)
    bi = B(port=port, role=getattr(roles, role) if role else None, flipped=(flipped and how == "ctor"))
    if flipped and how == "func":
        bi = h.flipped(bi)
    elif how == "func2":                       # two flips cancel
        bi = h.flipped(h.flipped(bi))
    elif how == "ctor+func":                   # constructor flag, then flipped(): not flipped
        bi = h.flipped(B(port=port, role=getattr(roles, role) if role else None, flipped=True))
    elif how == "func3":
        bi = h.flipped(h.flipped(h.flipped(bi)))
    elif how == "ctor+copy":                   # copies keep the flag
        import copy
        bi = copy.deepcopy(copy.copy(B(port=port, role=getattr(roles, role) if role else None, flipped=True)))
    elif how == "ctor+mul":
        bi = (2 * B(port=port, role=getattr(roles, role) if role else None, flipped=True))[1]
    m = h.Module(name="C10Top")
    m.add(bi, name="bb")
    want = expected_leaves(tree, port, 1 if flipped else 0, role)
    try:
        h.elaborate(m)
    except Exception as e:
        return (f"elaborate.raises.{type(e).__name__}", f"{case!r}: {type(e).__name__}: {str(e)[-150:]}", w)
    got = {}
    for name, s in list(m.ports.items()) + list(m.signals.items()):
        got[name] = (s.width, "PORT" if name in m.ports else "INTERNAL", s.direction.name, s.vis.name)
    exp_names = {"bb_" + "_".join(p): v for p, v in want.items()}
    if set(got) != set(exp_names):
        return ("post.names", f"{case!r}: flattened to {sorted(got)}, expected {sorted(exp_names)}", w)
    for n, (width, vis, d) in exp_names.items():
        gw, gvis, gd, gvis2 = got[n]
        if gw != width:
            return ("post.width", f"{case!r}: {n} has width {gw}, leaf has {width}", w)
        if gvis != vis or gvis2 != vis:
            return ("post.visibility", f"{case!r}: {n} is {gvis}/{gvis2}, expected {vis}", w)
        if vis == "PORT" and gd != d:
            return ("post.direction", f"{case!r}: {n} has direction {gd}, expected {d}", w)
    if m.bundles:
        return ("post.bundle-left", f"{case!r}: bundle instance still present after elaboration", w)
    # the SAME bundle definition (its nested sub-instances are shared objects) instantiated again in this process with
    # the opposite flip on a peer module: the rule applies to each instantiation on its own
    if port and how in ("ctor", "func"):
        bi2 = B(port=True, role=getattr(roles, role) if role else None, flipped=not flipped)
        m2 = h.Module(name="C10Peer")
        m2.add(bi2, name="bb")
        want2 = expected_leaves(tree, True, 0 if flipped else 1, role)
        try:
            h.elaborate(m2)
        except Exception as e:
            return (f"elaborate.raises.{type(e).__name__}", f"{case!r} (peer, opposite flip): {type(e).__name__}: "
                                                            f"{str(e)[-150:]}", w)
        for p_, (width, vis, d) in want2.items():
            n = "bb_" + "_".join(p_)
            s2 = m2.ports.get(n)
            if s2 is None:
                return ("post.names", f"{case!r}: peer instantiation lacks port {n}", w)
            if s2.direction.name != d:
                return ("post.direction", f"{case!r}: second instantiation of the same definition with the opposite flip: "
                                          f"{n} has direction {s2.direction.name}, expected {d}", w)
    return None


def conn_cases(tier, seed):
    """(tree, variant): both sides of a bundle connection must agree on which flattened port carries which member"""
    rnd = random.Random(seed + 17)
    base = []
    base.append(((("x", "plain", 1), ("y", "plain", 2)), ()))
    base.append(((("a", "input", 1), ("b", "output", 1), ("c", "plain", 3)), ()))
    base.append(((("t", "plain", 1),), (("s", False, None, ((("x", "plain", 1), ("y", "plain", 2)), ())),)))
    base.append(((("zz", "plain", 2),), (("s1", False, None, ((("x", "plain", 1),), ())),
                                        ("s0", True, None, ((("x", "plain", 1), ("w", "plain", 1)), ())))))
    base.append(((), (("m", False, None, ((("u", "plain", 1),), (("d", False, None, ((("x", "plain", 2),), ())),))),)))
    n = 60 if tier == "thorough" else 8

    def rand_tree(d):
        leaves = tuple((f"l{k}", "plain", rnd.randint(1, 3)) for k in range(rnd.randint(0 if d else 1, 3)))
        subs = ()
        if d > 0:
            subs = tuple((f"b{k}", rnd.random() < 0.5, None, rand_tree(d - 1)) for k in range(rnd.randint(0, 2)))
        if not leaves and not subs:
            leaves = (("l0", "plain", 1),)
        return (leaves, subs)
    for _ in range(n):
        base.append(rand_tree(rnd.randint(1, 2)))
    for t in base:
        for variant in ("whole", "anon-reversed", "anon-sorted", "member-refs"):
            yield (t, variant)


def check_connection(case):
    import hdl21 as h
    from rtc.meaning import meaning, package_meaning, compare, Unsupported as OracleUnsupported
    tree, variant = case
    w = {"case": repr(("conn",) + case)}
    roles = mk_roles()
    B = build_bundle(tree, roles, [0])

    def leaf_paths(t, prefix=()):
        for name, kind, width in t[0]:
            yield prefix + (name,), width
        for name, fl, ro, sub in t[1]:
            yield from leaf_paths(sub, prefix + (name,))

    def tap(width):
        return h.ExternalModule(name=f"Tap{width}", port_list=[h.Inout(name="a", width=width)], desc="", domain="c10")

    def ref(bi, path):
        cur = bi
        for seg in path:
            cur = getattr(cur, seg)
        return cur
    child = h.Module(name="C10Child")
    child.bp = B(port=True)
    for path, width in leaf_paths(tree):
        child.add(tap(width)()(a=ref(child.bp, path)), name="c_" + "_".join(path))
    parent = h.Module(name="C10Parent")
    parent.pb = B()
    for path, width in leaf_paths(tree):
        parent.add(tap(width)()(a=ref(parent.pb, path)), name="p_" + "_".join(path))
    members = [n for n, _, _ in tree[0]] + [n for n, _, _, _ in tree[1]]
    if variant == "whole":
        conn = parent.pb
    elif variant == "member-refs":
        conn = h.AnonymousBundle(**{n: getattr(parent.pb, n) for n in members})
    else:
        order = list(reversed(members)) if variant == "anon-reversed" else sorted(members, reverse=True)
        conn = h.AnonymousBundle(**{n: getattr(parent.pb, n) for n in order})
    parent.c = child(bp=conn)
    try:
        want = meaning(parent)
    except OracleUnsupported:
        return None
    try:
        pkg = h.to_proto(parent)
    except Exception as e:
        return (f"connection.raises.{type(e).__name__}", f"{case!r}: valid bundle connection rejected: "
                                                         f"{type(e).__name__}: {str(e)[-140:]}", w)
    from rtc.meaning import InvalidPackage
    try:
        diff = compare(want, package_meaning(pkg, parent.name))
    except InvalidPackage as e:
        diff = [f"the exported package is not a circuit: {e}"]
    if diff:
        return ("connection.members-disagree", f"{case!r}: {diff[0][:260]}", w)
    if variant != "whole":
        return None
    # ... and afterwards: an unrelated design with a module of the SAME NAME and port name but another bundle type is
    # elaborated, then a new parent connects to the (elaborated) child again: still member for member
    Other = h.Bundle(name="C10OtherB")
    Other.add(h.Signal(name="solo", width=3))
    twin = h.Module(name="C10Child")
    twin.bp = Other(port=True)
    twin.t = tap(3)()(a=twin.bp.solo)
    tp = h.Module(name="C10TwinParent")
    tp.ob = Other()
    tp.c = twin(bp=tp.ob)
    try:
        h.to_proto(tp)
        late = h.Module(name="C10LateParent")
        late.pb = B()
        for path, width in leaf_paths(tree):
            late.add(tap(width)()(a=ref(late.pb, path)), name="p_" + "_".join(path))
        late.c = child(bp=late.pb)
        fresh_child = h.Module(name="C10Child")
        fresh_child.bp = B(port=True)
        for path, width in leaf_paths(tree):
            fresh_child.add(tap(width)()(a=ref(fresh_child.bp, path)), name="c_" + "_".join(path))
        fresh = h.Module(name="C10LateParent")
        fresh.pb = B()
        for path, width in leaf_paths(tree):
            fresh.add(tap(width)()(a=ref(fresh.pb, path)), name="p_" + "_".join(path))
        fresh.c = fresh_child(bp=fresh.pb)
        want2 = meaning(fresh)
        diff = compare(want2, package_meaning(h.to_proto(late), late.name))
    except OracleUnsupported:
        return None
    except InvalidPackage as e:
        diff = [f"the exported package is not a circuit: {e}"]
    except Exception as e:
        return (f"connection.late-parent.raises.{type(e).__name__}", f"{case!r}: a new parent over the elaborated child, after an "
                                                                     f"unrelated same-named module was elaborated: {str(e)[-140:]}", w)
    if diff:
        return ("connection.late-parent.members-disagree", f"{case!r}: {diff[0][:260]}", w)
    return None


def check_array_bundle_port(kind):
    """an instance ARRAY (and a Pair) of children with a bundle-valued port, connected to the whole bundle, to an anonymous
    bundle, to a dictionary, to a sub-bundle reference: every element gets every member (broadcast), as for a plain instance"""
    import hdl21 as h
    from rtc.meaning import meaning, package_meaning, compare, InvalidPackage, Unsupported as OracleUnsupported
    w = {"case": repr(("arraybundle", kind))}
    T = h.ExternalModule(name="ATap", port_list=[h.Inout(name="a")], desc="", domain="c10a")
    Bn = h.Bundle(name="ABn")
    Bn.add(h.Signal(name="x"))
    Bn.add(h.Signal(name="y"))
    Outer = h.Bundle(name="AOuter")
    Outer.add(Bn(), name="inner")
    child = h.Module(name="AChild")
    child.bp = Bn(port=True)
    child.tx, child.ty = T()(a=child.bp.x), T()(a=child.bp.y)
    parent = h.Module(name="AParent")
    parent.pb = Bn()
    parent.ob = Outer()
    parent.s, parent.t = h.Signal(), h.Signal()
    parent.px, parent.py, parent.ps, parent.pt = T()(a=parent.pb.x), T()(a=parent.pb.y), T()(a=parent.s), T()(a=parent.t)
    parent.pix = T()(a=parent.ob.inner.x)
    target, conn = kind.split("/")
    c = {"whole": lambda: parent.pb, "anon": lambda: h.AnonymousBundle(x=parent.s, y=parent.pb.y), "dict": lambda: dict(x=parent.pb.x, y=parent.t),
         "bundlize": lambda: h.bundlize(y=parent.s, x=parent.t), "sub-bundle-ref": lambda: parent.ob.inner}[conn]()
    inst = child(bp=c)
    parent.i = {"instance": lambda: inst, "array2": lambda: 2 * inst, "array1": lambda: 1 * inst}[target]()
    try:
        want = meaning(parent)
    except OracleUnsupported as e:
        return None
    try:
        pkg = h.to_proto(parent)
    except Exception as e:
        return (f"connection.raises.{type(e).__name__}", f"{kind}: valid bundle connection rejected: {type(e).__name__}: {str(e)[-140:]}", w)
    try:
        diff = compare(want, package_meaning(pkg, parent.name))
    except InvalidPackage as e:
        diff = [f"the exported package is not a circuit: {e}"]
    if diff:
        return ("connection.members-disagree", f"{kind}: {diff[0][:260]}", w)
    return None


ARRAY_BUNDLE_CASES = [f"{t}/{c}" for t in ("instance", "array2", "array1") for c in ("whole", "anon", "dict", "bundlize", "sub-bundle-ref")]


def naming_conn_cases():
    """bundle connections in which the NAMES on the two sides differ or collide: whole bundle instances handed over as
    members of an anonymous bundle under other names (crossed, renamed); a child whose flattened leaves want one name
    (`b.c.x` and `b_c.x`, `b.x` and a scalar `b_x`), connected by a parent that declares its bundles in either order"""
    for kind in ("anon-crossed", "anon-renamed", "anon-same-names", "anon-nested-renamed"):
        yield ("naming", kind, 0)
    for kind in ("leaf-collision", "scalar-collision", "signal-collision"):
        for order in (0, 1):
            for child_order in (0, 1):
                yield ("naming", kind, order * 2 + child_order)


def check_naming_connection(case):
    import hdl21 as h
    from rtc.meaning import meaning, package_meaning, compare, InvalidPackage, Unsupported as OracleUnsupported
    _, kind, order = case
    w = {"case": repr(case)}
    T = h.ExternalModule(name="NTap", port_list=[h.Inout(name="a")], desc="", domain="c10n")
    Sub = h.Bundle(name="NSub")
    Sub.add(h.Signal(name="p"))
    Sub.add(h.Signal(name="n"))
    if kind.startswith("anon"):
        Pair = h.Bundle(name="NPair")
        Pair.add(Sub(), name="a")
        Pair.add(Sub(), name="b")
        child = h.Module(name="NChild")
        child.pr = Pair(port=True)
        for k, r in enumerate((child.pr.a.p, child.pr.a.n, child.pr.b.p, child.pr.b.n)):
            child.add(T()(a=r), name=f"c{k}")
        parent = h.Module(name="NParent")
        n1, n2 = ("a", "b") if kind in ("anon-crossed", "anon-same-names") else ("first", "second")
        i1, i2 = parent.add(Sub(), name=n1), parent.add(Sub(), name=n2)
        for k, r in enumerate((i1.p, i1.n, i2.p, i2.n)):
            parent.add(T()(a=r), name=f"p{k}")
        if kind == "anon-crossed":
            conn = h.AnonymousBundle(a=i2, b=i1)
        elif kind == "anon-nested-renamed":
            parent.third = Sub()
            conn = h.AnonymousBundle(a=h.AnonymousBundle(p=i2.n, n=parent.third.p), b=i1)
        else:
            conn = h.AnonymousBundle(a=i1, b=i2)
        parent.c = child(pr=conn)
    else:
        Cx = h.Bundle(name="NCx")
        Cx.add(h.Signal(name="x"))
        Outer = h.Bundle(name="NOuter")
        Outer.add(Cx(), name="c")
        Outer.add(h.Signal(name="y"))
        child = h.Module(name="NChild2")
        decls = [lambda: child.add(Outer(port=True), name="b")]
        if kind == "leaf-collision":
            decls.append(lambda: child.add(Cx(port=True), name="b_c"))           # b.c.x and b_c.x: both `b_c_x`
        elif kind == "scalar-collision":
            decls.append(lambda: child.add(h.Port(name="b_c_x")))
        else:
            decls.append(lambda: child.add(h.Signal(name="b_c_x")))
        for d in (decls if order % 2 == 0 else reversed(decls)):
            d()
        child.t0 = T()(a=child.b.c.x)
        child.t1 = T()(a=child.b.y)
        if kind == "leaf-collision":
            child.t2 = T()(a=child.b_c.x)
        else:
            child.t2 = T()(a=child.get("b_c_x"))
        parent = h.Module(name="NParent2")
        pdecls = [lambda: parent.add(Outer(), name="ob"), lambda: parent.add(Cx(), name="oc"), lambda: parent.add(h.Signal(name="os"))]
        for d in (pdecls if order // 2 == 0 else reversed(pdecls)):
            d()
        parent.q0, parent.q1, parent.q2, parent.q3 = T()(a=parent.ob.c.x), T()(a=parent.ob.y), T()(a=parent.oc.x), T()(a=parent.os)
        conns = dict(b=parent.ob)
        if kind == "leaf-collision":
            conns["b_c"] = parent.oc
        elif kind == "scalar-collision":
            conns["b_c_x"] = parent.os
        if order // 2:
            conns = dict(reversed(list(conns.items())))
        parent.c = child(**conns)
    try:
        want = meaning(parent)
    except OracleUnsupported as e:
        return ("naming.oracle-unsupported", f"{case!r}: {e}", w)
    try:
        pkg = h.to_proto(parent)
    except Exception as e:
        return (f"connection.raises.{type(e).__name__}", f"{case!r}: valid bundle connection rejected: "
                                                         f"{type(e).__name__}: {str(e)[-140:]}", w)
    try:
        diff = compare(want, package_meaning(pkg, parent.name))
    except InvalidPackage as e:
        diff = [f"the exported package is not a circuit: {e}"]
    if diff:
        return ("connection.members-disagree", f"{case!r}: {diff[0][:260]}", w)
    return None


MEMBER_CASES = ("coincide/leaf-vs-nested", "coincide/two-nestings", "coincide/three", "coincide/leaf-vs-nested-reversed",
                "reassigned/leaf-to-sub", "reassigned/sub-to-leaf", "reassigned/leaf-to-wider-leaf", "reassigned/sub-to-other-sub",
                "reassigned/twice", "copied/flipped-sub-under-new-name", "copied/leaf-under-new-name", "copied/named-newcomer",
                "copied/sub-copy-under-new-name")


def check_members(kind):
    """one scalar port per leaf of the bundle AS IT STANDS when it is used: leaves whose underscore-joined paths spell
    one name (`a_x` next to `a.x`) stay two ports; a bundle definition in which a name was re-assigned to a member of
    another kind (or width) before use flattens to its final members only - and a parent connecting exactly those
    members, through the whole bundle and through an anonymous bundle, gets every leaf where it belongs"""
    import hdl21 as h
    from rtc.meaning import meaning, package_meaning, compare, InvalidPackage, Unsupported as OracleUnsupported
    w = {"case": repr(("members", kind))}

    def sub(*leaves):
        S = h.Bundle(name="MS" + "".join(n for n, _ in leaves))
        for n, wd in leaves:
            S.add(h.Signal(name=n, width=wd))
        return S
    B = h.Bundle(name="MB")
    if kind.startswith("coincide/"):
        order = {"coincide/leaf-vs-nested": ["a_x", "a", "z"], "coincide/leaf-vs-nested-reversed": ["a", "a_x", "z"],
                 "coincide/two-nestings": ["a", "a_b", "z"], "coincide/three": ["a_b_c", "a", "a_b"]}[kind]
        for nm in order:
            if nm == "a_x":
                B.add(h.Output(name="a_x", width=2))
            elif nm == "z":
                B.add(h.Input(name="z", width=3))
            elif nm == "a_b_c":
                B.add(h.Signal(name="a_b_c", width=3))
            elif nm == "a":
                B.add(sub(("x", 1))() if "leaf-vs-nested" in kind else sub(("b_c", 1))(), name="a")
            else:
                B.add(sub(("c", 2))(), name="a_b")
    else:
        B.x = h.Output(width=2)
        B.y = h.Input()
        if kind == "reassigned/leaf-to-sub":
            B.x = sub(("s", 1))()
        elif kind == "reassigned/sub-to-leaf":
            B.x = sub(("s", 1))()
            B.x = h.Signal(width=3)
        elif kind == "reassigned/leaf-to-wider-leaf":
            B.x = h.Input(width=4)
        elif kind == "reassigned/sub-to-other-sub":
            B.x = sub(("s", 1))()
            B.x = sub(("t", 2), ("s", 3))()
        elif kind == "reassigned/twice":
            B.x = sub(("s", 1))()
            B.x = h.Signal(width=3)
            B.x = sub(("q", 2))()
            B.y = sub(("q", 1))()
        else:
            # a member added AFTER definition whose object still carries the name of another member (a copy, a flipped
            # copy, an object made with that name): the bundle has both members
            import copy as _copy
            B.x = sub(("s", 1), ("t", 2))()
            if kind == "copied/flipped-sub-under-new-name":
                B.z = h.flipped(B.x)
            elif kind == "copied/sub-copy-under-new-name":
                B.z = _copy.copy(B.x)
            elif kind == "copied/leaf-under-new-name":
                B.z = _copy.copy(B.y)
            else:
                B.z = h.Signal(name="y", width=2)
            if sorted(B.namespace) != ["x", "y", "z"]:
                return ("members.lost", f"{kind}: after `B.z = <an object that carried another member's name>` the bundle "
                                        f"has members {sorted(B.namespace)}, expected x, y, z", w)

    def leaves(bundle, prefix=()):
        for n, sgn in bundle.signals.items():
            if bundle.namespace.get(n) is sgn:
                yield prefix + (n,), sgn
        for n, bi in bundle.bundles.items():
            if bundle.namespace.get(n) is bi:
                yield from leaves(bi.of, prefix + (n,))
    # the members as the NAMESPACE has them (the definition as it stands)
    final = []
    for n, v in B.namespace.items():
        if isinstance(v, h.Signal):
            final.append(((n,), v))
        else:
            final.extend(((n,) + p_, s_) for p_, s_ in leaves(v.of))

    def tap(width):
        return h.ExternalModule(name=f"MTap{width}", port_list=[h.Inout(name="a", width=width)], desc="", domain="c10m")

    def ref(bi, path):
        cur = bi
        for seg in path:
            cur = getattr(cur, seg)
        return cur
    inner = h.Module(name="MInner")
    inner.b = B(port=True)
    for p_, s_ in final:
        inner.add(tap(s_.width)()(a=ref(inner.b, p_)), name="c_" + "__".join(p_))
    for variant in ("whole", "anon"):
        outer = h.Module(name="MOuter")
        outer.ob = B()
        for p_, s_ in final:
            outer.add(tap(s_.width)()(a=ref(outer.ob, p_)), name="p_" + "__".join(p_))
        if variant == "whole":
            outer.i = inner(b=outer.ob)
        else:
            outer.i = inner(b=h.AnonymousBundle(**{n: getattr(outer.ob, n) for n in reversed(list(B.namespace))}))
        try:
            want = meaning(outer)
        except OracleUnsupported as e:
            return ("members.oracle-unsupported", f"{kind}: {e}", w)
        except Exception as e:
            # the design is written from the definition's namespace; if it reads differently through the definition's
            # member views (what references and the oracle walk), the definition itself is incoherent
            return ("members.definition-incoherent", f"{kind}: the bundle's namespace and its member views disagree: {str(e)[:160]}", w)
        try:
            pkg = h.to_proto(outer)
        except Exception as e:
            return (f"members.raises.{type(e).__name__}", f"{kind}/{variant}: a bundle connection listing exactly the bundle's members "
                                                          f"is refused: {type(e).__name__}: {str(e)[-140:]}", w)
        pin = [m_ for m_ in pkg.modules if m_.name.endswith("MInner")][0]
        widths = {s_.name: s_.width for s_ in pin.signals}
        got = sorted((widths[p_.signal], p_.direction) for p_ in pin.ports)
        import vlsir.circuit_pb2 as vckt
        dirs = {"INPUT": vckt.Port.Direction.INPUT, "OUTPUT": vckt.Port.Direction.OUTPUT, "INOUT": vckt.Port.Direction.INOUT,
                "NONE": vckt.Port.Direction.NONE}
        exp = sorted((s_.width, dirs[s_.direction.name] if s_.vis.name == "PORT" else dirs["NONE"]) for _, s_ in final)
        if len(pin.ports) != len(final) or got != exp:
            return ("members.one-port-per-leaf", f"{kind}: the bundle has {len(final)} leaves {[('.'.join(p_), s_.width) for p_, s_ in final]}, "
                                                 f"the module exports ports {[(p_.signal, widths[p_.signal]) for p_ in pin.ports]}", w)
        try:
            diff = compare(want, package_meaning(pkg, outer.name))
        except InvalidPackage as e:
            diff = [f"the exported package is not a circuit: {e}"]
        if diff:
            return ("connection.members-disagree", f"{kind}/{variant}: {diff[0][:260]}", w)
        inner2 = h.Module(name="MInner")          # (a fresh child for the second variant)
        inner2.b = B(port=True)
        for p_, s_ in final:
            inner2.add(tap(s_.width)()(a=ref(inner2.b, p_)), name="c_" + "__".join(p_))
        inner = inner2
    return None


def flipped_obligations(ctx):
    """PortDir.flipped by pyvc + the involution lemma over its contract."""
    import z3
    from hdl21.signal import PortDir

    class Flipped(Contract):
        key = "hdl21.signal:PortDir.flipped"
        props = ("C10",)
        raises = ()

        def scenarios(self, eng):
            def setup(eng, st):
                z = z3.Int("d")
                st.assume(z3.And(z >= 0, z < 4))
                return {"self": SEnum(z, PortDir)}
            yield Scenario("any-direction", setup)

        def p_swap(self, eng, st0, st, a, res):
            idx = {m: k for k, m in enumerate(PortDir)}
            d = a.self.z
            rz = res.z if isinstance(res, SEnum) else z3.IntVal(idx[res])
            return z3.And(z3.Implies(d == idx[PortDir.INPUT], rz == idx[PortDir.OUTPUT]),
                          z3.Implies(d == idx[PortDir.OUTPUT], rz == idx[PortDir.INPUT]),
                          z3.Implies(d == idx[PortDir.INOUT], rz == idx[PortDir.INOUT]),
                          z3.Implies(d == idx[PortDir.NONE], rz == idx[PortDir.NONE]))
        posts = property(lambda self: [("swap-in-out-fix-others", self.p_swap)])
    con = Flipped()
    eng = mk_engine(contracts=[con])
    ctx.verify(eng, [con], min_obligations={con.key: 3})
    # lemma over the contract only: flipping twice is the identity
    idx = {m: k for k, m in enumerate(PortDir)}
    F = z3.Function("flipped", z3.IntSort(), z3.IntSort())
    d = z3.Int("d")
    spec = z3.ForAll([d], z3.And(z3.Implies(d == idx[PortDir.INPUT], F(d) == idx[PortDir.OUTPUT]),
                                 z3.Implies(d == idx[PortDir.OUTPUT], F(d) == idx[PortDir.INPUT]),
                                 z3.Implies(z3.Or(d == idx[PortDir.INOUT], d == idx[PortDir.NONE]), F(d) == d)))
    x = z3.Int("x")
    ctx.lemma("flipped-involution", [spec, x >= 0, x < 4], F(F(x)) == x)


def run(ctx):
    flipped_obligations(ctx)
    from contracts import c_bundleinst as cb
    ctx.verify(cb.copy_engine(), cb.VERIFY_COPY, min_obligations={"hdl21.bundle:BundleInstance.__copy__": 30})
    ctx.verify(cb.engine(), cb.VERIFY_FLIPPED, min_obligations={"hdl21.bundle:flipped": 3})
    from contracts import c_bundleflat as cbf
    key, obs, info = cbf.obligations()
    for u in info.get("unsupported", []):
        ctx.unsupported.append((key, u))
    if len(obs) < 6 and not info.get("unsupported"):
        ctx.checker_errors.append(f"only {len(obs)} direction-rule obligations")
    ctx.discharge(obs, key + " [leaf direction block; sub-bundle loop body]", info)
    ctx.verify(cbf.top_engine(), cbf.VERIFY_TOP)
    key, obs, info = cbf.replace_conn_obligations()
    for u in info.get("unsupported", []):
        ctx.unsupported.append((key, u))
    if len(obs) < 2 and not info.get("unsupported"):
        ctx.checker_errors.append(f"only {len(obs)} obligations for the per-member loop of replace_bundle_conn")
    ctx.discharge(obs, key + " [per-member loop body]", info)
    ctx.assumptions.append("replace_bundle_conn: one arbitrary member of the child's flattened port is proved (connected "
                           "under the flattened port's own name, to the parent-side signal of the same path); that the "
                           "loop visits every member, and that the cache entry is the child's, are decided by the bounded family")
    ctx.assumptions.append("direction rule: one arbitrary leaf and one arbitrary sub-bundle per loop are proved; the "
                           "induction over the bundle tree's depth (flip state at a leaf == parity of the flips on its "
                           "path) is the standard argument over those two facts and flatten_bundle_inst's start state, "
                           "not machine-checked; naming and widths are decided by the bounded family")
    b = z3.Bool("flag")
    ctx.lemma("two-flips-cancel (over the contract of flipped(): result.flipped == not arg.flipped)", [],
              z3.Not(z3.Not(b)) == b)
    from contracts import c_export as cx
    ctx.verify(cx.engine(), [c for c in cx.VERIFY if c.key.endswith("export_port_dir")])
    ctx.run_bounded("bundle-trees", trees(ctx.tier, ctx.seed), check_tree,
                    rule="bundle definition trees: every leaf kind (input, output, inout, undirected port, role "
                         "A->B, role B->A, plain) at depth 1, under a sub-bundle with every flip/role, two siblings, "
                         "depth 3 with flips at every level, plus seeded random trees (depth<=3, fan-out<=3, widths "
                         "1-3); each instantiated as port and internal, unflipped / flipped by constructor / flipped by "
                         "flipped(), with role None/A/B; names, widths, visibility, directions compared with the rule; "
                         "distinct = (tree, instantiation); non-trivial = tree has a sub-bundle or a directed leaf",
                    bound="depth<=3, fan-out<=3", key_of=repr,
                    nontrivial=lambda c: bool(c[0][1]) or any(k != "plain" for _, k, _ in c[0][0]))
    ctx.run_bounded("bundle-connections", conn_cases(ctx.tier, ctx.seed), check_connection,
                    rule="a child whose bundle port's leaves each feed a distinguishable device, connected from a parent "
                         "bundle instance whose leaves also feed devices: as the whole bundle, as an anonymous bundle "
                         "listing the members in reversed / sorted order, and member by member; leaf-level partition "
                         "compared with the reference interpreter; flat, nested, flipped and random definitions",
                    bound="depth<=2", key_of=repr, nontrivial=lambda c: c[1] != "whole")
    ctx.run_bounded("bundle-members-as-they-stand", list(MEMBER_CASES), check_members,
                    rule="bundles whose leaves' underscore-joined paths spell one name (a_x / a.x, a.b_c / a_b.c, three at once) "
                         "and bundle definitions in which a name was re-assigned to a member of another kind or width before "
                         "use: one exported port per leaf of the definition as it stands (widths, directions), and a parent "
                         "connecting the whole bundle / an anonymous bundle of its members: leaf-level partition == reference",
                    bound="9 definitions x 2 connections", key_of=repr)
    ctx.run_bounded("bundle-ports-of-arrays", ARRAY_BUNDLE_CASES, check_array_bundle_port,
                    rule="an instance / array of 2 / array of 1 of a child with a bundle-valued port, connected to the whole bundle, "
                         "an anonymous bundle, a dictionary, bundlize(), a sub-bundle reference: leaf-level partition == reference",
                    bound="3 targets x 5 connections", key_of=repr)
    ctx.run_bounded("bundle-connections-under-name-pressure", naming_conn_cases(), check_naming_connection,
                    rule="whole bundle instances handed over as members of an anonymous bundle under other names (crossed, "
                         "renamed, nested); a child whose flattened leaves want one name (b.c.x / b_c.x / a scalar b_c_x) "
                         "declared and connected in either order: leaf-level partition == reference interpreter",
                    bound="4 + 3 x 4 designs", key_of=repr)
    ctx.assumptions.append("'the instance's role' is read as the role of the bundle instance that directly contains "
                           "the leaf (roles are declared per bundle type); role-directed leaves are not flipped")
    return INFO


def replay(payload):
    c = (payload.get("input") or {}).get("case")
    if not c:
        return 2
    case = eval(c)
    r = check_connection(case[1:]) if case[0] == "conn" else check_naming_connection(case) if case[0] == "naming" else check_members(case[1]) if case[0] == "members" else check_array_bundle_port(case[1]) if case[0] == "arraybundle" else check_tree(case)
    print("replay:", r)
    return 1 if r else 0
