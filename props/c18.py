"""C18 - module and bundle namespaces stay coherent under any edit sequence."""
import itertools
import random

from pyvc import *
from contracts.common import *
from contracts import c_module as cm

INFO = {
    "level": "other",
    "explanation": "hybrid: Inv_ns and whole-view postconditions of module._add / Module.add / __setattr__ / get / "
                   "__getattr__ / __delattr__ and bundle._add proved from the current source (pyvc, z3); edit "
                   "histories on real Modules and Bundles checked at run time (bounded)",
    "trusted_base": ["pyvc heap encoding", "z3"],
}
NAMES = ("a", "b", "c")
MKINDS = ("signal", "port", "instance", "array", "pair", "bundle")
BKINDS = ("signal", "bundle")


def mk_value(kind, ctx):
    import hdl21 as h
    if kind == "signal":
        return h.Signal(width=ctx["rnd"].randint(1, 3))
    if kind == "port":
        return h.Input()
    if kind == "instance":
        return ctx["Child"]()
    if kind == "array":
        return h.InstanceArray(ctx["Child"], 2)
    if kind == "pair":
        return h.Pair(ctx["Child"])
    if kind == "bundle":
        return ctx["B"]()
    raise KeyError(kind)


def kind_of(v):
    import hdl21 as h
    from hdl21.instance import InstanceBundle
    if isinstance(v, h.Signal):
        return "ports" if v.vis == h.Visibility.PORT else "signals"
    if isinstance(v, h.Instance):
        return "instances"
    if isinstance(v, h.InstanceArray):
        return "instarrays"
    if isinstance(v, InstanceBundle):
        return "instbundles"
    return "bundles"


ADD_ONLY_NAMES = ("_u", "in", "a b")     # names only add() can give: leading underscore, keyword, not an identifier


def histories(rnd, n, maxlen, kinds):
    ops = ("setattr", "add_named", "add_name_arg", "get", "bad_value", "banned", "delattr", "reuse_obj", "reuse_obj",
           "rename_by_hand", "revis_move", "revis_readd")

    def step():
        op = rnd.choice(ops[:3] * 3 + ops[3:])
        if op in ("add_named", "add_name_arg", "get") and rnd.random() < 0.25:
            return (op, rnd.choice(ADD_ONLY_NAMES), rnd.choice(kinds))
        return (op, rnd.choice(NAMES), rnd.choice(kinds))
    for _ in range(n):
        yield tuple(step() for _ in range(rnd.randint(1, maxlen)))


def small_histories(kinds):
    for k1 in kinds:
        for k2 in kinds:
            for op1 in ("setattr", "add_named", "add_name_arg"):
                for op2 in ("setattr", "add_named", "add_name_arg"):
                    yield ((op1, "a", k1), (op2, "a", k2), ("get", "a", k1))
                    yield ((op1, "a", k1), (op1, "b", k2), (op2, "a", k2))
                for nm in ADD_ONLY_NAMES:
                    yield ((op1, "a", k1), ("add_named" if op1 == "setattr" else op1, nm, k2), ("get", nm, k2))
                    yield (("add_named", nm, k1), ("add_name_arg", nm, k2), (op1, "a", k1))
            # an object held under two names, or re-named by hand, when one of its names is re-used for another kind
            yield (("setattr", "a", k1), ("reuse_obj", "b", k1), ("setattr", "a", k2), ("get", "b", k1))
            yield (("setattr", "a", k1), ("reuse_obj", "b", k1), ("setattr", "b", k2), ("get", "a", k1))
            yield (("setattr", "a", k1), ("revis_move", "b", k1), ("get", "a", k1), ("setattr", "a", k2))
            yield (("setattr", "a", k1), ("revis_move", "a", k1), ("reuse_obj", "c", k1))
            yield (("setattr", "a", k1), ("setattr", "b", k2), ("revis_readd", "a", k1), ("revis_move", "c", k2))
            yield (("setattr", "a", k1), ("rename_by_hand", "a", k1), ("setattr", "a", k2))
            yield (("setattr", "a", k1), ("setattr", "c", k1), ("rename_by_hand", "a", k1), ("add_name_arg", "a", k2))


def check_history(case):
    import hdl21 as h
    target, hist, seed = case
    rnd = random.Random(seed)

    @h.module
    class Child:
        p = h.Port()

    @h.bundle
    class B:
        x = h.Signal()
    ctx = {"rnd": rnd, "Child": Child, "B": B}
    is_mod = target == "module"
    m = h.Module(name="M") if is_mod else h.Bundle(name="Bn")
    kinds = ("ports", "signals", "instances", "instarrays", "instbundles", "bundles") if is_mod else \
        ("signals", "bundles")
    banned = ("ports", "signals", "instances", "instarrays", "instbundles", "bundles", "literals", "props",
              "namespace", "add", "get") if is_mod else ("signals", "bundles", "namespace")
    spec = {}
    ever = []          # every object that was a member at some point
    for step, (op, name, kind) in enumerate(hist):
        for v_ in spec.values():
            if not any(v_ is e_ for e_ in ever):
                ever.append(v_)
        where = f"step {step} of {case!r}"
        try:
            if op == "setattr":
                v = mk_value(kind, ctx)
                setattr(m, name, v)
                spec[name] = v
            elif op == "add_named":
                v = mk_value(kind, ctx)
                v.name = name
                r = m.add(v)
                if r is not v:
                    return ("post.result", f"add returned another object at {where}")
                spec[name] = v
            elif op == "add_name_arg":
                v = mk_value(kind, ctx)
                r = m.add(v, name=name)
                if r is not v or v.name != name:
                    return ("post.result", f"add(name=) did not name/return the object at {where}")
                spec[name] = v
            elif op == "get":
                pass
            elif op == "bad_value":
                for bad in (5, "s", None, Child, h.Concat(h.Signal())):
                    try:
                        setattr(m, name, bad)
                    except TypeError:
                        continue
                    return ("rejects.non-attr", f"non-HDL value {bad!r} accepted by setattr at {where}")
            elif op == "banned":
                for b in banned:
                    for how in ("setattr", "add(named)", "add(name=)"):
                        v = mk_value(kind, ctx)
                        try:
                            if how == "setattr":
                                setattr(m, b, v)
                            elif how == "add(named)":
                                v.name = b
                                m.add(v)
                            else:
                                m.add(v, name=b)
                        except RuntimeError:
                            continue
                        return ("rejects.banned", f"reserved name {b} accepted by {how} at {where}")
            elif op == "delattr":
                # nothing can be deleted: HDL attributes, the object's own public and private attributes, absent names
                for victim in (name, "_initialized", "_elaborated", "name", "namespace", "_no_such_attribute"):
                    try:
                        delattr(m, victim)
                    except RuntimeError:
                        continue
                    except AttributeError:
                        return ("rejects.delattr", f"delattr({victim!r}) raised AttributeError rather than the refusal at {where}")
                    return ("rejects.delattr", f"deletion of attribute {victim!r} accepted at {where}")
                # ... and the object still sorts what it is given
                try:
                    setattr(m, "not_hdl", 5)
                except TypeError:
                    pass
                else:
                    return ("rejects.non-attr", f"non-HDL value accepted after deletion attempts at {where}")
            elif op == "reuse_obj":
                # an object the module already holds, assigned under another name (`m.b = m.a`): it MOVES - an object
                # has one name (held under both it would be exported twice, as two `b`s)
                if not spec:
                    continue
                src = sorted(spec)[rnd.randrange(len(spec))]
                v = spec[src]
                held_as = v.name
                setattr(m, name, v)
                if held_as != name and spec.get(held_as) is v:
                    del spec[held_as]
                spec[name] = v
            elif op in ("revis_move", "revis_readd"):
                # a held signal's visibility is changed IN PLACE (internal <-> port), then the object is assigned under
                # `name` (a move, or the same name again) / added again under its own name: after the assignment or add()
                # it is listed where its visibility says
                # (objects held under ONE name only: one that hand-renaming has left under two keys is re-filed under the
                #  name it carries, and what becomes of its other key after an in-place change is outside the property)
                sigs = sorted(n_ for n_, v_ in spec.items() if isinstance(v_, h.Signal) and v_.name == n_
                              and sum(1 for o_ in spec.values() if o_ is v_) == 1)
                if not sigs or not is_mod:
                    continue
                src = sigs[rnd.randrange(len(sigs))]
                v = spec[src]
                v.vis = h.Visibility.INTERNAL if v.vis == h.Visibility.PORT else h.Visibility.PORT
                if op == "revis_move":
                    setattr(m, name, v)
                    if src != name:
                        del spec[src]
                    spec[name] = v
                else:
                    m.add(v)
            elif op == "rename_by_hand":
                # the object's own `name` field changes; the namespace keys do not
                if name in spec:
                    spec[name].name = "renamed_" + name
        except (TypeError, RuntimeError) as e:
            return (f"raises.{type(e).__name__}", f"{type(e).__name__}: {str(e)[:100]} at {where}")
        # run-time Inv_ns
        ns = dict(m.namespace)
        if set(ns) != set(spec) or any(ns[k] is not spec[k] for k in spec):
            return ("post.view", f"namespace {sorted(ns)} != expected {sorted(spec)} at {where}")
        for kd in kinds:
            want = {n: v for n, v in spec.items() if kind_of(v) == kd}
            got = getattr(m, kd)
            if set(got) != set(want) or any(got[k] is not want[k] for k in want):
                return ("post.inv_ns", f"view `{kd}` holds {sorted(got)} but the names of that kind are "
                                       f"{sorted(want)} at {where}")
        for n, v in spec.items():
            if m.get(n) is not v or getattr(m, n) is not v:
                return ("post.get", f"get/getattr({n}) disagree with the namespace at {where}")
            parent = v._parent_module if is_mod else v._parent_bundle
            if parent is not m:
                return ("post.parent", f"{n} does not report the module as parent at {where}")
        # get() looks in the HDL namespace only: the object's own attributes, methods and views are not in it
        for n in banned + ("name", "bundle_ports", "roles", "_initialized", "_elaborated", "__class__", "__dict__"):
            if n not in spec and m.get(n) is not None:
                return ("post.get", f"get({n!r}) returns {type(m.get(n)).__name__} although nothing was added under that name at {where}")
        # an object that lost its (last) name to another is no longer the module's: it does not report it as parent
        for e_ in ever:
            if not any(e_ is v_ for v_ in spec.values()):
                parent = e_._parent_module if is_mod else e_._parent_bundle
                if parent is m:
                    return ("post.parent", f"an object evicted from its name still reports the {'module' if is_mod else 'bundle'} as its parent at {where}")
        for n in NAMES + ADD_ONLY_NAMES:
            if n not in spec and m.get(n) is not None:
                return ("post.get", f"get({n}) returns an object for an absent name at {where}")
    return None


def check_misc(_):
    """sub-classing, post-elaboration freeze, class-style == procedural"""
    import hdl21 as h
    try:
        class X(h.Module):
            pass
        return ("rejects.subclass", "sub-classing Module accepted")
    except RuntimeError:
        pass

    @h.module
    class Leaf:
        p = h.Port()

    @h.module
    class Cls:
        i = h.Input(width=2)
        s = h.Signal()
        x = Leaf(p=s)
        _tmp = 5
    P = h.Module(name="Cls")
    P.i = h.Input(width=2)
    P.s = h.Signal()
    P.x = Leaf(p=P.s)
    for kd in ("ports", "signals", "instances", "namespace"):
        a, b = getattr(Cls, kd), getattr(P, kd)
        if list(a) != list(b) or [type(v) for v in a.values()] != [type(v) for v in b.values()]:
            return ("class-style", f"class-style and procedural modules differ in `{kd}`: {list(a)} vs {list(b)}")
    if Cls.i.width != 2 or Cls.x.conns["p"] is not Cls.s:
        return ("class-style", "class-style module lost a width or a connection")
    # values that already carry a name of their own (other than the class-body key): the KEY names them, exactly as the
    # assignment `m.key = value` would
    B = h.Bundle(name="CB")
    B.x = h.Signal()

    def values():
        return {"i2": h.Input(name="other_in", width=3), "s2": h.Signal(name="s"), "p2": h.Port(name="i2"),
                "x2": h.Instance(of=Leaf, name="was_x"), "arr": h.InstanceArray(Leaf, 2, name="was_arr"),
                "bb": h.BundleInstance(of=B, name="was_bb"), "plain": h.Signal()}
    Cls2 = h.module(type("Cls2", (), dict(values())))
    P2 = h.Module(name="Cls2")
    for k, v in values().items():
        setattr(P2, k, v)
    for kd in ("ports", "signals", "instances", "instarrays", "bundles", "namespace"):
        a, b = getattr(Cls2, kd), getattr(P2, kd)
        if list(a) != list(b) or [type(v) for v in a.values()] != [type(v) for v in b.values()] or \
                [v.name for v in a.values()] != [v.name for v in b.values()]:
            return ("class-style", f"class-style and procedural modules with pre-named values differ in `{kd}`: "
                                   f"{[(k, v.name) for k, v in a.items()]} vs {[(k, v.name) for k, v in b.items()]}")
    for k in values():
        if Cls2.get(k) is None or getattr(Cls2, k) is not Cls2.get(k) or Cls2.get(k).name != k:
            return ("class-style", f"class-body key `{k}` does not denote its value (named {getattr(Cls2.get(k), 'name', None)!r})")
    BC = h.bundle(type("BC2", (), {"m1": h.Signal(name="zz", width=2), "m2": B(name="was")}))
    BP = h.Bundle(name="BC2")
    BP.m1 = h.Signal(name="zz", width=2)
    BP.m2 = B(name="was")
    for kd in ("signals", "bundles", "namespace"):
        a, b = getattr(BC, kd), getattr(BP, kd)
        if list(a) != list(b) or [v.name for v in a.values()] != [v.name for v in b.values()]:
            return ("class-style", f"class-style and procedural bundles with pre-named values differ in `{kd}`: {list(a)} vs {list(b)}")
    h.elaborate(Cls)
    for f in (lambda: setattr(Cls, "late", h.Signal()), lambda: Cls.add(h.Signal(name="late2"))):
        try:
            f()
        except RuntimeError:
            continue
        return ("rejects.elaborated", "addition after elaboration accepted")
    # ... and a REFUSED edit is no edit: every way of adding or moving something on the elaborated module is refused and
    # leaves every name denoting the object it denoted, every object named as it was, and the exported package unchanged
    def snapshot(m):
        return ([(k, id(v), v.name) for k, v in m.namespace.items()],
                {kd: [(k, id(v)) for k, v in getattr(m, kd).items()] for kd in ("ports", "signals", "instances", "instarrays", "bundles")})
    F = h.Module(name="Frozen")
    F.a, F.b, F.p = h.Signal(), h.Signal(width=2), h.Port()
    F.r = h.R(r=1)(p=F.a, n=F.p)
    F.e = h.ExternalModule(name="FzE", port_list=[h.Inout(name="w", width=2)], desc="", domain="c18")()(w=F.b)
    before_pkg = h.to_proto(F).SerializeToString(deterministic=True)
    before = snapshot(F)
    outside = h.Signal(name="outside")
    edits = {
        "move signal onto a used name": lambda: setattr(F, "b", F.a),
        "move signal onto a new name": lambda: setattr(F, "c", F.a),
        "move instance": lambda: setattr(F, "r2", F.r),
        "instance onto a signal's name": lambda: setattr(F, "a", F.r),
        "new signal under a used name": lambda: setattr(F, "a", h.Signal(width=3)),
        "named newcomer by assignment": lambda: setattr(F, "n", outside),
        "add() under a used name": lambda: F.add(h.Signal(), name="a"),
        "add() of a held object": lambda: F.add(F.a),
        "port onto a signal's name": lambda: setattr(F, "a", h.Port()),
    }
    for what, f in edits.items():
        try:
            f()
        except RuntimeError:
            pass
        else:
            return ("rejects.elaborated", f"after elaboration: {what} was accepted")
        if snapshot(F) != before:
            return ("rejects.elaborated.trace", f"after elaboration: {what} was refused but changed the module: names / views "
                                                f"{snapshot(F)[0]} (before: {before[0]})")
        if outside.name != "outside":
            return ("rejects.elaborated.trace", f"after elaboration: {what} was refused but renamed the object to {outside.name!r}")
    if h.to_proto(F).SerializeToString(deterministic=True) != before_pkg:
        return ("rejects.elaborated.trace", "refused edits of an elaborated module changed its exported package")
    return None


def check_own_attribute_names(case):
    """names that are plain attributes of the Module / Bundle object itself and are not protected: an object add()ed
    under one of them must either be refused or be what attribute access returns"""
    import hdl21 as h
    target, nm = case
    m = h.Module(name="M") if target == "module" else h.Bundle(name="Bn")
    v = h.Signal()
    try:
        m.add(v, name=nm)
    except RuntimeError:
        return None
    if m.get(nm) is v and getattr(m, nm, None) is not v:
        return (f"own-attribute-name/{target}.{nm}", f"{target}: add(name={nm!r}) accepted; get({nm!r}) is the signal, "
                                                     f"attribute access gives {getattr(m, nm, None)!r}", {"case": repr(case)})
    return None


def run(ctx):
    thorough = ctx.tier == "thorough"
    eng = cm.engine()
    ctx.verify(eng, cm.VERIFY, min_obligations={"hdl21.module:_add": 15, "hdl21.bundle:_add": 5})
    ctx.verify(cm.init_engine(), cm.VERIFY_INIT)
    for key, obs, info in cm.decorator_loop_obligations():
        for u in info.get("unsupported", []):
            ctx.unsupported.append((key, u))
        if len(obs) < 8 and not info.get("unsupported"):
            ctx.checker_errors.append(f"only {len(obs)} class-body obligations for {key}")
        ctx.discharge(obs, key + " [class-body entry: as the assignment obj.<key> = value]", info)
    ctx.assumptions.append("Inv_ns holds for Modules by induction over designer edits: established by Module.__init__ "
                           "(proved), preserved by add / __setattr__ / _add (proved); for Bundles the constructor is "
                           "not separately verified (all containers start empty)")
    ctx.assumptions.append("Signal.vis is not mutated after the signal has been added (the port view is computed at add time)")
    rnd = random.Random(ctx.seed)
    n = 20000 if thorough else 2500
    L = 6 if thorough else 5
    cases = itertools.chain(
        (("module", hh, 1) for hh in small_histories(MKINDS)),
        (("bundle", hh, 1) for hh in small_histories(BKINDS)),
        (("module", hh, k) for k, hh in enumerate(histories(rnd, n, L, MKINDS))),
        (("bundle", hh, k) for k, hh in enumerate(histories(rnd, n // 3, L, BKINDS))))
    ctx.run_bounded(
        "edit-histories", cases,
        lambda c: (lambda r: None if r is None else (f"hdl21.{c[0]}:history/{r[0]}", r[1], {"case": repr(c)}))(check_history(c)),
        rule="sequences of setattr/add/add(name=)/get/bad value/banned name/delattr over names {a,b,c} and every "
             "attribute kind on a real Module or Bundle; after every step the namespace, every kind view, get, getattr "
             "and parent are compared with the specification map; exhaustive 3-step re-use family + seeded random; "
             "distinct = distinct history; non-trivial = some name used twice",
        bound=f"length<={L}, 3 names", key_of=repr,
        nontrivial=lambda c: len({n for _, n, _ in c[1]}) < len(c[1]))
    ctx.run_bounded("own-attribute-names", [("module", "name"), ("bundle", "name"), ("bundle", "roles"), ("module", "desc"),
                                            ("bundle", "desc")],
                    lambda c: (lambda r: None if r is None else (f"hdl21.{c[0]}:{r[0]}", r[1], r[2]))(check_own_attribute_names(c)),
                    rule="add() under a name that is an unprotected plain attribute of the object itself",
                    bound="5 (object, name) pairs", key_of=repr)
    ctx.run_bounded("misc-rejections", [0], lambda c: (lambda r: None if r is None else
                    (f"hdl21.module:misc/{r[0]}", r[1], {"case": "misc"}))(check_misc(c)),
                    rule="sub-classing, post-elaboration additions, class-style vs procedural definition",
                    bound="one fixed program", key_of=repr)
    return INFO


def replay(payload):
    inp = payload.get("input") or {}
    if inp.get("case") == "misc":
        r = check_misc(0)
    elif "case" in inp:
        r = check_history(eval(inp["case"]))
    else:
        print("nothing to replay natively; obligation:", payload.get("obligation"))
        return 2
    print("replay:", r)
    return 1 if r else 0
