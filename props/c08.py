"""C08 - a failed elaboration or generator call does not poison later ones."""
import itertools
import json
import os
import subprocess
import sys

from pyvc import *
from contracts.common import *

INFO = {
    "level": "other",
    "explanation": "hybrid: exceptional postconditions of ElabPass.elaborate_module_base / elaborate_instance_base / "
                   "elaborate_instantiable / elaborate_tops (pending restored, done monotone, broken => poisoned, "
                   "poisoned => refused) and of generator.run (pending and stack restored) proved from the current "
                   "source with virtual callees modelled by their contract; fault injection at every (pass position, "
                   "module) of a bounded design set with four continuations, against fresh-process references",
    "trusted_base": ["behavioural contract assumed for overriding pass hooks (they never touch the class-level cache: "
                     "audited syntactically every run)", "pyvc", "z3"],
}
ROOT = os.path.dirname(os.path.dirname(os.path.abspath(__file__)))


def design_set(tier):
    from rtc.designs import designs
    want_feat = ["hier", "pref", "bundle_port", "array", "pair", "shared", "slice", "concat", "anon_bundle", "nc"]
    picked, seen = [], set()
    for desc, b in designs(0, 0):
        f = desc.split("/")[0]
        if desc.endswith("/d2") or desc.endswith("/d3"):
            key = (f, desc.split("/")[-1])
            lim = 40 if tier == "thorough" else 14
            if key not in seen and len(picked) < lim:
                seen.add(key)
                picked.append((desc, b))
    return picked


def serialize(pkg):
    return pkg.SerializeToString(deterministic=True).hex()


def reference_main():
    """Runs in a fresh process: the package every design of the set exports when nothing failed before."""
    import hdl21 as h
    tier = sys.argv[sys.argv.index("--reference") + 1]
    out = {}
    for desc, b in design_set(tier):
        out[desc] = serialize(h.to_proto(b()))
    print("REF" + json.dumps(out))


def fresh_reference(tier):
    p = subprocess.run([sys.executable, "-m", "props.c08", "--reference", tier], cwd=ROOT, capture_output=True,
                       text=True, timeout=600, env=dict(os.environ, PYTHONPATH=ROOT))
    for line in p.stdout.splitlines():
        if line.startswith("REF"):
            return json.loads(line[3:])
    raise RuntimeError("reference process failed: " + p.stderr[-500:])


def modules_of(top):
    import hdl21 as h
    out, seen = [], set()

    def rec(m):
        if id(m) in seen:
            return
        seen.add(id(m))
        out.append(m)
        for grp in (m.instances, m.instarrays, m.instbundles):
            for i in grp.values():
                if isinstance(i.of, h.Module):
                    rec(i.of)
    rec(top)
    return out


def contains(m, target):
    return any(x is target for x in modules_of(m))


def inject_cases(tier):
    import hdl21 as h
    from hdl21.elab import Elaborator
    npos = len(Elaborator.default().passes)
    ds = design_set(tier)
    for di, (desc, b) in enumerate(ds):
        nmods = len(modules_of(b()))
        for pos in range(npos):
            for mi in range(nmods):
                yield ("inject", desc, pos, mi, ds[(di + 1) % len(ds)][0])


def check_inject(case, ref, builders):
    import hdl21 as h
    from hdl21.elab import Elaborator, set_elaborator, reset_elaborator
    from hdl21.elab.passes.base import ElabPass
    _, desc, pos, mi, other = case
    top = builders[desc]()
    mods = modules_of(top)
    target = mods[mi]

    class Boom(ElabPass):
        def elaborate_module(self, module):
            if module is target:
                raise RuntimeError(f"injected failure in {module.name}")
            return module
    passes = list(Elaborator.default().passes)
    set_elaborator(Elaborator(passes=passes[:pos] + [Boom] + passes[pos:]))
    try:
        try:
            h.elaborate(top)
            first = None
        except Exception as e:
            first = e
    finally:
        reset_elaborator()
    where = f"{desc} pass#{pos} module {target.name}"
    if first is None:
        return ("inject.no-failure", f"injected failure did not surface: {where}", {"case": repr(case)})
    # (a) retry unchanged: the original error again, never a package
    try:
        h.to_proto(top)
        return ("retry.returns-package", f"retry after failure returned a package: {where}", {"case": repr(case)})
    except Exception as e2:
        if type(e2) is not type(first) or str(e2) != str(first):
            return ("retry.different-error", f"retry reports {type(e2).__name__}: {str(e2)[-80:]!r} instead of the "
                                             f"original {str(first)[-60:]!r}: {where}", {"case": repr(case)})
    # (a2) the designer edits the offending module and retries: a half-rewritten module is still never exported
    try:
        target.add(h.Signal(name="late_edit_sig"))
        edited = True
    except Exception:
        edited = False        # refusing the edit is fine too
    if edited:
        try:
            h.to_proto(top)
            return ("edit-retry.returns-package", f"after an edit of the half-rewritten module the design was "
                                                  f"exported: {where}", {"case": repr(case)})
        except Exception:
            pass
    # (b) an unrelated design equals the fresh-process result
    try:
        got = serialize(h.to_proto(builders[other]()))
    except Exception as e:
        return ("unrelated.raises", f"unrelated design {other} fails after {where}: {type(e).__name__}: {str(e)[-100:]}",
                {"case": repr(case)})
    if got != ref[other]:
        return ("unrelated.differs", f"unrelated design {other} exports differently after {where}", {"case": repr(case)})
    # (c) a new parent over the sub-modules that do not contain the offending module == the same from a fresh build
    def share(mlist, tgt):
        P = h.Module(name="SharedParent")
        k = 0
        for m in mlist[1:]:
            if contains(m, tgt):
                continue
            if getattr(m, "bundle_ports", None) or m._pre_flattening_io is not None and any(
                    not isinstance(v, h.Signal) for v in m._pre_flattening_io.values()):
                continue        # modules with bundle-valued ports are left out (on both sides alike)
            conns = {}
            for pn, port in list(m.ports.items()):
                conns[pn] = P.add(h.Signal(name=f"s{k}_{pn}", width=port.width))
            P.add(h.Instance(of=m, name=f"u{k}")(**conns))
            k += 1
        return P if k else None
    fresh_top = builders[desc]()
    fmods = modules_of(fresh_top)
    p1, p2 = share(mods, target), share(fmods, fmods[mi])
    if (p1 is None) != (p2 is None):
        return ("shared.shape", f"sharing parent differs in shape after {where}", {"case": repr(case)})
    if p1 is not None:
        try:
            a = serialize(h.to_proto(p1))
        except Exception as e:
            a = f"raises {type(e).__name__}: {str(e)[-120:]}"
        try:
            bb = serialize(h.to_proto(p2))
        except Exception as e:
            bb = f"raises {type(e).__name__}: {str(e)[-120:]}"
        if a != bb:
            return ("shared.differs", f"design sharing sub-modules exports {a[:80]!r} after {where}, fresh: {bb[:80]!r}",
                    {"case": repr(case)})
    return None


def fault_cases():
    """real design faults caught by checking passes, and a generator body raising once"""
    return [("fault", k) for k in ("width", "missing-port", "orphan", "generator-once", "generator-nested", "generator-bad-params", "generator-fallback", "late-fault-shared-children")] + \
        [("fault", f"flatten-fault-shared-children/{f}/{how}") for f in ("anon-missing-member", "bad-bundle-ref", "noconn-in-anon")
         for how in ("list", "one-top")] + \
        [("fault", f"export-fault/{v}") for v in ("tuple", "list", "nested-paramclass", "object")] + \
        [("fault", f"repair-child-ports/{how}") for how in ("add-port", "remove-port", "widen-port")] + \
        [("fault", f"persistent/{f}/depth{d}") for f in ("width", "missing-port", "array-missing-port", "anon-width", "unnamed", "self-instance", "circular")
         for d in (0, 1, 2)]


def check_fault(case, ref, builders):
    import hdl21 as h
    kind = case[1]

    @h.module
    class Leaf:
        a = h.Port(width=2)
        b = h.Port()
    if kind.startswith("repair-child-ports/"):
        # a parent fails because it disagrees with a shared child's port list; the designer repairs the CHILD (which is
        # sound and not frozen) and builds a new parent: the new design is judged against the child as it is now
        how = kind.split("/")[1]

        def build(repaired):
            C = h.Module(name="SharedChild")
            C.a = h.Port()
            if how == "remove-port" or repaired and how == "add-port":
                C.b = h.Port()
            if how == "widen-port":
                C.w = h.Port(width=2 if repaired else 1)
            C.r = h.R(r=1)(p=C.a, n=C.b if "b" in C.ports else C.a)
            return C

        def parent(C, name):
            P = h.Module(name=name)
            P.s, P.t = h.Signal(), h.Signal()
            P.w2 = h.Signal(width=2)
            conns = dict(a=P.s)
            if how == "add-port":
                conns["b"] = P.t
            if how == "widen-port":
                conns["w"] = P.w2
            P.c = C(**conns)
            return P
        want = serialize(h.to_proto(parent(build(True), "RepairedParent"))) if how != "remove-port" else None
        C = build(False)
        try:
            h.to_proto(parent(C, "FailingParent"))
            return (f"fault.{kind}.accepted", "ill-formed design exported", {"case": repr(case)})
        except Exception:
            pass
        try:
            if how == "add-port":
                C.b = h.Port()
                C.r.n = C.b
            elif how == "widen-port":
                C.w.width = 2
            else:
                return None       # (removing a port is not an edit the library offers)
        except RuntimeError:
            return None           # the child is closed for edits: nothing to judge
        try:
            got = serialize(h.to_proto(parent(C, "RepairedParent")))
        except Exception as e:
            return (f"fault.{kind}.stale", f"a new parent over the repaired child is refused: {type(e).__name__}: {str(e)[-140:]}",
                    {"case": repr(case)})
        if got != want:
            return (f"fault.{kind}.differs", "a new parent over the repaired child exports differently from a fresh build", {"case": repr(case)})
        return None
    if kind.startswith("export-fault/"):
        # a failure INSIDE the export (after elaboration succeeded): a parameter value with no package form, between two
        # good ones. Repeating the export - of that design, of a second design sharing the same call object, of the module
        # alone - reports the original error every time; a design with a good call exports as in a fresh process
        import io as _io

        @h.paramclass
        class Inner2:
            k = h.Param(dtype=int, desc="k", default=1)
        bad = {"tuple": (1, 2), "list": [1, 2], "nested-paramclass": Inner2(k=3), "object": object()}[kind.split("/")[1]]
        E = h.ExternalModule(name="XfE", port_list=[h.Inout(name="a")], paramtype=dict, desc="", domain="xf")
        badcall = E(dict(w=1, bad=bad, z=3))
        goodcall = E(dict(w=1, z=3))

        def design(name, call, n=1):
            m = h.Module(name=name)
            m.s = h.Signal()
            m.pre = goodcall(a=m.s)
            for k in range(n):
                m.add(call(a=m.s), name=f"u{k}")
            return m
        want_good = serialize(h.to_proto(design("XfGoodRef", goodcall, 2)))
        d1, d2 = design("XfOne", badcall), design("XfTwo", badcall, 2)
        first = None
        for attempt, (what, f) in enumerate([("first design", lambda: h.to_proto(d1)), ("first design again", lambda: h.to_proto(d1)),
                                             ("second design sharing the call", lambda: h.to_proto(d2)),
                                             ("netlist of the first", lambda: h.netlist(d1, _io.StringIO(), fmt="spice")),
                                             ("both in a list", lambda: h.to_proto([d1, d2])),
                                             ("first design a third time", lambda: h.to_proto(d1))]):
            try:
                f()
            except Exception as e:
                got = (type(e).__name__, str(e)[:80])
            else:
                return ("fault.export-fault.accepted", f"{kind}: {what}: a result was returned for a design with an un-exportable "
                                                       f"parameter value", {"case": repr(case)})
            if first is None:
                first = got
            elif got[0] != first[0]:
                return ("fault.export-fault.retry-different", f"{kind}: {what} reports {got}, the first export {first}", {"case": repr(case)})
        if serialize(h.to_proto(design("XfGoodRef", goodcall, 2))) != want_good:
            return ("fault.export-fault.unrelated-differs", f"{kind}: a design of good calls exports differently after the failures", {"case": repr(case)})
        return None
    if kind.startswith("persistent/"):
        # the failed call repeated many times, through every entry point: the original error each time, never a package -
        # wherever in the hierarchy the fault sits and whichever (early or late) pass finds it
        import io as _io
        _, fault, depth = kind.split("/")
        depth = int(depth[-1])

        @h.bundle
        class PB:
            x = h.Signal(width=2)
            y = h.Signal()
        CB = h.Module(name="PersCB")
        CB.q = PB(port=True)
        CB.l = Leaf(a=CB.q.x, b=CB.q.y)
        bad = h.Module(name="PersBad") if fault != "unnamed" else h.Module()
        bad.x, bad.y = h.Signal(width=2), h.Signal()
        if fault == "width":
            bad.i = Leaf(a=bad.y, b=bad.y)
        elif fault == "missing-port":
            bad.i = Leaf(a=bad.x)
        elif fault == "array-missing-port":
            bad.x4 = h.Signal(width=4)
            bad.arr = 2 * Leaf(a=bad.x4)
        elif fault == "anon-width":
            bad.c = CB(q=h.AnonymousBundle(x=bad.y, y=bad.y))
        elif fault == "self-instance":
            # found while the hierarchy is being walked: nothing is recorded on the module, every repeat finds it anew
            bad.i = Leaf(a=bad.x, b=bad.y)
            bad.me = bad()
        elif fault == "circular":
            other = h.Module(name="PersOther")
            other.back = bad()
            bad.i = Leaf(a=bad.x, b=bad.y)
            bad.o = other()
        else:
            bad.i = Leaf(a=bad.x, b=bad.y)

        def another_failure(k):
            """an unrelated faulty design, caught by the same checking pass (or, for k odd, also found during the walk)"""
            o = h.Module(name=f"PersUnrelated{k}")
            o.x, o.y = h.Signal(width=2), h.Signal()
            o.good = Leaf(a=o.x, b=o.y)
            if k % 2:
                o.me = o()
            elif fault == "missing-port":
                o.i = Leaf(a=o.x)
            else:
                o.i = Leaf(a=o.y, b=o.y)
            oo = h.Module(name=f"PersUnrelatedUp{k}")
            oo.inner = o()
            try:
                h.to_proto(oo)
            except Exception:
                return
            raise AssertionError("the unrelated faulty design was accepted")
        top = bad
        for k in range(depth):
            up = h.Module(name=f"PersUp{k}")
            up.s2, up.s1 = h.Signal(width=2), h.Signal()
            up.good = Leaf(a=up.s2, b=up.s1)
            up.inner = top()
            top = up
        first = None
        for attempt in range(7):
            try:
                h.to_proto(top)
            except Exception as e:
                got = (type(e).__name__, str(e))
            else:
                return (f"fault.persistent.accepted", f"{kind}: attempt {attempt + 1} of the same export returned a package", {"case": repr(case)})
            if attempt >= 2:
                another_failure(attempt)      # other designs fail in between: the repeat still reports ITS error
            if first is None:
                first = got
            elif got != first:
                return (f"fault.persistent.retry-different", f"{kind}: attempt {attempt + 1} reports {got[0]}: {got[1][-90:]!r}, the "
                                                             f"first {first[0]}: {first[1][-90:]!r}", {"case": repr(case)})
        for entry in (h.elaborate, lambda t: h.netlist(t, _io.StringIO(), fmt="spice"), h.to_proto, h.elaborate, h.to_proto):
            try:
                entry(top)
            except Exception:
                continue
            return (f"fault.persistent.accepted", f"{kind}: a later call through another entry point returned a result", {"case": repr(case)})
        return None
    if kind.startswith("flatten-fault-shared-children/"):
        # a failure raised INSIDE the bundle-flattening pass, in a run in which healthy modules with bundle-valued ports
        # were flattened before the failing one was reached (a sibling top of a list call, or sub-modules visited earlier):
        # a different, valid parent of those healthy modules exports exactly as without the failed run
        _, fault, how = kind.split("/")

        def build():
            @h.bundle
            class Bus:
                p, n = h.Signals(2)
            Child = h.Module(name="FfChild")
            Child.bus = Bus(port=True)
            Child.r = h.R(r=1)(p=Child.bus.p, n=Child.bus.n)
            UserA = h.Module(name="FfUserA")
            UserA.b = Bus()
            UserA.c = Child(bus=UserA.b)
            Bad = h.Module(name="FfBad")
            Bad.s = h.Signal()
            if how == "one-top":
                Bad.ua = UserA()
            if fault == "anon-missing-member":
                Bad.c = Child(bus=h.AnonymousBundle(p=Bad.s))
            elif fault == "bad-bundle-ref":
                Bad.b = Bus()
                Bad.r = h.R(r=2)(p=Bad.b.p, n=Bad.b.nosuch)
            else:
                Bad.c = Child(bus=h.AnonymousBundle(p=Bad.s, n=h.NoConn()))
            UserB = h.Module(name="FfUserB")
            UserB.b1, UserB.b2 = Bus(), Bus()
            UserB.c1 = Child(bus=UserB.b1)
            UserB.c2 = Child(bus=h.AnonymousBundle(p=UserB.b2.n, n=UserB.b2.p))
            UserB.ua = UserA()
            return UserA, Bad, UserB
        _, _, ref_b = build()
        want = serialize(h.to_proto(ref_b))
        ua, bad, ub = build()
        try:
            h.elaborate([ua, bad] if how == "list" else bad)
        except Exception:
            pass
        else:
            return None          # (this construct is accepted on this tree: no failed run to speak of)
        try:
            got = serialize(h.to_proto(ub))
        except Exception as e:
            return ("fault.flatten-fault.poisoned", f"{kind}: a valid design sharing sub-modules with the failed run is refused: "
                                                    f"{type(e).__name__}: {str(e)[-140:]}", {"case": repr(case)})
        if got != want:
            return ("fault.flatten-fault.differs", f"{kind}: a valid design sharing sub-modules with the failed run exports differently",
                    {"case": repr(case)})
        return None
    if kind == "late-fault-shared-children":
        # a parent that fails LATE (array width, found only when arrays are flattened) has already had its sound
        # children flattened; a different, valid parent sharing those children - reached through a port reference to a
        # bundle-valued port - must still export exactly as it does without the failed call
        def build():
            @h.bundle
            class Diff:
                p, n = h.Signals(2)
            Tx = h.Module(name="TxL")
            Tx.d = Diff(port=True)
            Tx.r = h.R(r=1)(p=Tx.d.p, n=Tx.d.n)
            Rx = h.Module(name="RxL")
            Rx.d = Diff(port=True)
            Rx.r = h.R(r=2)(p=Rx.d.p, n=Rx.d.n)
            Unit = h.Module(name="UnitL")
            Unit.a = h.Input()
            Unit.r = h.R(r=3)(p=Unit.a, n=Unit.a)
            Bad = h.Module(name="BadL")
            Bad.tx = Tx()
            Bad.rx = Rx(d=Bad.tx.d)
            Bad.w = h.Signal(width=3)
            Bad.arr = 2 * Unit(a=Bad.w)
            Good = h.Module(name="GoodL")
            Good.tx = Tx()
            Good.rx = Rx(d=Good.tx.d)
            Good.nc = Tx(d=h.NoConn())
            return Bad, Good
        _, good_ref = build()
        want = serialize(h.to_proto(good_ref))
        bad, good = build()
        try:
            h.to_proto(bad)
            return (f"fault.{kind}.accepted", "ill-formed design exported", {"case": repr(case)})
        except Exception:
            pass
        try:
            got = serialize(h.to_proto(good))
        except Exception as e:
            return (f"fault.{kind}.poisoned", f"a valid design sharing the failed design's children is refused: "
                                              f"{type(e).__name__}: {str(e)[:120]}", {"case": repr(case)})
        if got != want:
            return (f"fault.{kind}.differs", "a valid design sharing the failed design's children exports differently",
                    {"case": repr(case)})
        return None
    if kind in ("width", "missing-port", "orphan"):
        def build(bad):
            m = h.Module(name="Faulty")
            m.x = h.Signal(width=2)
            m.y = h.Signal()
            foreign = h.Signal(name="foreign")
            if kind == "width":
                m.i = Leaf(a=m.y if bad else m.x, b=m.y)
            elif kind == "missing-port":
                m.i = Leaf(a=m.x) if bad else Leaf(a=m.x, b=m.y)
            else:
                m.i = Leaf(a=m.x, b=foreign if bad else m.y)
            return m
        m = build(True)
        errs = []
        for _ in range(2):
            try:
                h.to_proto(m)
                return (f"fault.{kind}.accepted", "ill-formed design exported", {"case": repr(case)})
            except Exception as e:
                errs.append((type(e).__name__, str(e)))
        if errs[0] != errs[1]:
            return (f"fault.{kind}.retry-different", f"second attempt reports {errs[1][1][-80:]!r}, first "
                                                     f"{errs[0][1][-80:]!r}", {"case": repr(case)})
        # repair and retry: either refused, or exactly what a fresh build of the repaired design gives
        if kind == "width":
            m.i.a = m.x
        elif kind == "missing-port":
            m.i.b = m.y
        else:
            m.i.b = m.y
        try:
            got = serialize(h.to_proto(m))
        except Exception:
            got = None
        if got is not None and got != serialize(h.to_proto(build(False))):
            return (f"fault.{kind}.repair-differs", "repaired module exports a package a fresh build does not give",
                    {"case": repr(case)})
        # an unrelated design still equals the fresh-process result
        other = next(iter(ref))
        if serialize(h.to_proto(builders[other]())) != ref[other]:
            return (f"fault.{kind}.unrelated-differs", f"{other} differs after a design fault", {"case": repr(case)})
        return None
    # generators
    @h.paramclass
    class P:
        n = h.Param(dtype=int, desc="n", default=1)
    state = {"calls": 0}

    @h.generator
    def Inner(p: P) -> h.Module:
        state["calls"] += 1
        if state["calls"] == 1:
            raise ValueError("body raised once")
        m = h.Module()
        m.a = h.Port()
        m.r = h.R(r=p.n)(p=m.a, n=m.a)
        return m

    @h.generator
    def Outer(p: P) -> h.Module:
        m = h.Module()
        m.a = h.Signal()
        m.i = Inner(n=p.n)(a=m.a)
        return m
    if kind == "generator-bad-params":
        # a call refused before the body runs (params object of another class) leaves nothing pending: the same refusal
        # every time, directly and from inside another generator, and valid calls unaffected
        @h.paramclass
        class Q:
            w = h.Param(dtype=int, desc="w", default=1)
        state["calls"] = 5          # the body itself does not raise here
        msgs = []
        for k in range(3):
            try:
                Inner(Q(w=3))
                return (f"{kind}.accepted", "params object of another class accepted", {"case": repr(case)})
            except Exception as e:
                msgs.append(f"{type(e).__name__}: {str(e)[:60]}")
        if len(set(msgs)) != 1 or "ircular" in msgs[-1]:
            return (f"{kind}.poisoned", f"repeating a refused call reports {msgs}", {"case": repr(case)})

        @h.generator
        def Calls(p: P) -> h.Module:
            m = h.Module()
            try:
                Inner(Q(w=3))
            except RuntimeError as e:
                if "ircular" in str(e):
                    raise
            m.a = h.Signal()
            m.i = Inner(n=p.n)(a=m.a)
            return m
        try:
            h.to_proto(Calls(n=4))
        except Exception as e:
            return (f"{kind}.poisoned", f"after a refused call: {type(e).__name__}: {str(e)[:100]}", {"case": repr(case)})
        return None
    if kind == "generator-fallback":
        # a generator whose body raises EVERY time for some parameters, called from inside a generator that catches the
        # error and falls back to another cell (the outermost call succeeds): repeating the failing call - directly, or
        # through the same pattern in another design - reports the original error again, never a circular dependency
        @h.generator
        def Fancy(p: P) -> h.Module:
            if p.n % 3 == 0:
                raise ValueError(f"no fancy cell for n={p.n}")
            m = h.Module()
            m.a = h.Port()
            m.r = h.R(r=10 * p.n)(p=m.a, n=m.a)
            return m

        @h.generator
        def Plain(p: P) -> h.Module:
            m = h.Module()
            m.a = h.Port()
            m.c = h.C(c=p.n)(p=m.a, n=m.a)
            return m

        @h.generator
        def Chooser(p: P) -> h.Module:
            m = h.Module()
            m.s = h.Signal()
            try:
                cell = Fancy(n=p.n)
            except ValueError:
                cell = Plain(n=p.n)
            m.i = cell(a=m.s)
            return m

        @h.generator
        def Chooser2(p: P) -> h.Module:
            m = h.Module()
            m.s = h.Signal()
            for k in (p.n, p.n + 1):
                try:
                    cell = Fancy(n=k)
                except ValueError:
                    cell = Plain(n=k)
                m.add(cell(a=m.s), name=f"i{k}")
            return m
        fresh = None
        for attempt in range(4):
            for G, n in ((Chooser, 3), (Chooser2, 3), (Chooser, 6), (Chooser2, 5)):
                try:
                    pkg = serialize(h.to_proto(G(n=n)))
                except Exception as e:
                    return (f"{kind}.poisoned", f"attempt {attempt}: a generator that falls back when a sub-generator raises "
                                                f"fails itself: {type(e).__name__}: {str(e)[:100]}", {"case": repr(case)})
            for n in (3, 6):
                try:
                    Fancy(n=n)
                    return (f"{kind}.no-raise", "generator body exception swallowed", {"case": repr(case)})
                except ValueError as e:
                    got = str(e)
                except Exception as e:
                    return (f"{kind}.poisoned", f"attempt {attempt}: the failing call repeated directly reports "
                                                f"{type(e).__name__}: {str(e)[:100]} instead of its own error", {"case": repr(case)})
                if got != f"no fancy cell for n={n}":
                    return (f"{kind}.wrong-error", got, {"case": repr(case)})
            if Fancy(n=4) is not Fancy(n=4):
                return (f"{kind}.memo", "a good call next to the failing ones is not memoised", {"case": repr(case)})
        return None
    G = Inner if kind == "generator-once" else Outer
    try:
        G(n=3)
        return (f"{kind}.no-raise", "generator body exception swallowed", {"case": repr(case)})
    except ValueError:
        pass
    except Exception as e:
        return (f"{kind}.wrong-error", f"{type(e).__name__}: {e}", {"case": repr(case)})
    try:
        m2 = G(n=3)
    except Exception as e:
        return (f"{kind}.poisoned", f"second call reports {type(e).__name__}: {str(e)[:100]} instead of running the "
                                    f"body again", {"case": repr(case)})
    if state["calls"] != 2:
        return (f"{kind}.calls", f"body ran {state['calls']} times", {"case": repr(case)})
    if G(n=3) is not m2:
        return (f"{kind}.memo", "third call did not return the cached module", {"case": repr(case)})
    h.to_proto(m2)
    return None


def run(ctx):
    from contracts import c_io
    ctx.verify(c_io.engine(), c_io.VERIFY)       # which interface of a child a pass sees must follow what was DONE to it
    from contracts import c_elab as ce, c_generator as cg
    eng = mk_engine(contracts=ce.CONTRACTS, loops=ce.LOOPS, class_attrs=ce.CLASS_ATTRS, field_classes=ce.FIELD_CLASSES,
                    schema_extra=ce.SCHEMA_EXTRA)
    ctx.verify(eng, ce.VERIFY, min_obligations={"hdl21.elab.passes.base:ElabPass.elaborate_module_base": 40})
    eng2 = mk_engine(contracts=cg.CONTRACTS, class_attrs=cg.CLASS_ATTRS, field_classes=cg.FIELD_CLASSES,
                     schema_extra=cg.SCHEMA_EXTRA)
    ctx.verify(eng2, cg.VERIFY, min_obligations={"hdl21.generator:run": 10})
    # the poison flag must survive designer edits: module._add's frame (nothing but the namespace views changes)
    from contracts import c_module as cm
    ctx.verify(cm.engine(), [cm.CONTRACTS[0]], min_obligations={cm.CONTRACTS[0].key: 15})
    bad, escapes = ce.audit_cache_ownership(with_escapes=True)
    for e_ in escapes:
        ctx.unsupported.append(("hdl21.elab:cache-ownership", f"the pass cache is bound to another name or handed to a call at {e_[0]}:{e_[1]}: the ownership audit cannot follow it"))
    ctx.frame_audit("hdl21.elab:cache-ownership", bad, "a class-level pass cache or _elab_error is written outside ElabPass")
    ctx.assumptions += [
        "overriding pass hooks (elaborate_module etc. in the pass sub-classes) obey the virtual contract: they may "
        "raise anything, leave pending/stack as found and only grow done (they do not touch the cache: audited)",
        "generator bodies do not mutate Generator / GeneratorCall objects",
        "GeneratorCall.__eq__/__hash__ are consistent (cache keys are modelled as equivalence classes)"]
    ref = fresh_reference(ctx.tier)
    builders = dict(design_set(ctx.tier))
    ctx.run_bounded("fault-injection", inject_cases(ctx.tier), lambda c: check_inject(c, ref, builders),
                    rule="an injected pass raising at every (pass-list position 0..10, module) of each design of the "
                         "set; continuations: retry unchanged (same error, never a package), unrelated design == "
                         "fresh-process bytes, new parent over untouched sub-modules == same from a fresh build; "
                         "distinct = (design, position, module); all non-trivial",
                    bound="%d designs of depth 2-3" % len(builders), key_of=repr)
    ctx.run_bounded("real-faults-and-generators", fault_cases(), lambda c: check_fault(c, ref, builders),
                    rule="width mismatch / missing port / foreign signal caught by checking passes: retry gives the "
                         "same error, repair-and-retry is refused or equals a fresh build; generator body raising "
                         "once (direct and nested): second call runs the body again, third is cached",
                    bound="5 fixed programs", key_of=repr)
    return INFO


def replay(payload):
    inp = payload.get("input") or {}
    if "case" in inp:
        case = eval(inp["case"])
        ref = fresh_reference("quick")
        builders = dict(design_set("thorough"))
        r = check_inject(case, ref, builders) if case[0] == "inject" else check_fault(case, ref, builders)
        print("replay:", r)
        return 1 if r else 0
    print("nothing to replay natively; obligation:", payload.get("obligation"))
    return 2


if __name__ == "__main__" and "--reference" in sys.argv:
    sys.path.insert(0, ROOT)
    reference_main()
