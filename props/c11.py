"""C11 - exported packages survive a round trip through from_proto."""
import itertools
from pyvc import *
from contracts.common import *
from rtc.family import design_family, nontrivial, RULE

INFO = {
    "level": "other",
    "explanation": "hybrid: export/import leaf pairs proved inverse by pyvc where in reach (slice bounds, port "
                   "directions, prefix tables by exhaustive evaluation of the real functions); package equality after "
                   "to_proto(from_proto(P)) evaluated at run time over the design family and the primitive / external "
                   "module parameter space (bounded)",
    "trusted_base": ["protobuf message equality", "pyvc", "z3"],
}


def param_programs():
    """primitive / external-module parameter space (one small module per case)"""
    import hdl21 as h
    from decimal import Decimal
    vals = [1, 0, -3, 2.5, 1e-9, Decimal("1.50"), "2*x", 3 * h.prefix.n, h.Prefixed(number=Decimal("1.25"), prefix=h.Prefix.KILO),
            h.Literal("a+b")]
    for k, v in enumerate(vals):
        def b(v=v):
            m = h.Module(name="PM")
            m.a, m.b = h.Signal(), h.Signal()
            m.r = h.R(r=v)(p=m.a, n=m.b)
            m.c = h.C(c=v)(p=m.a, n=m.b)
            return m
        yield (f"params/RC/{k}:{v!r}", b)
    for k, v in enumerate(vals):
        def b(v=v):
            E = h.ExternalModule(name="EXTP", port_list=[h.Input(name="i", width=2), h.Output(name="o")],
                                 paramtype=dict, desc="ext", domain="dom")
            m = h.Module(name="PE")
            m.x, m.y = h.Signal(width=2), h.Signal()
            m.e = E(w=v, l=None if k % 2 else 7)(i=m.x, o=m.y)
            return m
        yield (f"params/ext/{k}:{v!r}", b)

    def vp():
        m = h.Module(name="PV")
        m.a, m.b = h.Signal(), h.Signal()
        m.v = h.Vpulse(delay=1 * h.prefix.n, v1=0, v2=1, period=2, rise=1 * h.prefix.p, fall=1 * h.prefix.p, width=1)(p=m.a, n=m.b)
        m.d = h.Vdc(dc=1, ac=0)(p=m.a, n=m.b)
        m.l = h.L(l=1 * h.prefix.u)(p=m.a, n=m.b)
        return m
    yield ("params/sources", vp)

    def partial_pulse():
        m = h.Module(name="PVp")
        m.a, m.b = h.Signal(), h.Signal()
        m.v = h.Vpulse(v1=0, v2=1)(p=m.a, n=m.b)          # the other pulse parameters are left unset
        m.w = h.Vpulse(delay=2 * h.prefix.n)(p=m.a, n=m.b)
        m.s = h.Vsin(voff=0, vamp=1, freq=1 * h.prefix.M)(p=m.a, n=m.b)
        return m
    yield ("params/partial-sources", partial_pulse)
    # modules defined outside any Python module (exec / notebook cell / `python -c`): their exported names are un-dotted
    def undotted():
        code = ("import hdl21 as h\n"
                "m = h.Module(name='Undot')\nm.a = h.Port()\nm.r = h.R(r=1)(p=m.a, n=m.a)\n"
                "top = h.Module(name='UndotTop')\ntop.s = h.Signal()\ntop.i = m(a=top.s)\n")
        g = {}
        exec(code, g)
        return g["top"]
    yield ("params/undotted-module-names", undotted)

    # equal parameter values written differently on instances of one primitive / external module in one package
    def equal_spelled_differently():
        from decimal import Decimal as D
        E = h.ExternalModule(name="EXTQ", port_list=[h.Inout(name="p"), h.Inout(name="n")], paramtype=dict, desc="",
                             domain="dom")
        m = h.Module(name="PQ")
        m.a, m.b = h.Signal(), h.Signal()
        m.r1 = h.R(r=1 * h.prefix.µ)(p=m.a, n=m.b)
        m.r2 = h.R(r=1000 * h.prefix.n)(p=m.a, n=m.b)
        m.r3 = h.R(r=h.Prefixed(number=D("0.0010"), prefix=h.Prefix.MILLI))(p=m.a, n=m.b)
        m.c1 = h.C(c=h.Prefixed(number=D("2.5"), prefix=h.Prefix.PICO))(p=m.a, n=m.b)
        m.c2 = h.C(c=h.Prefixed(number=D("2.50"), prefix=h.Prefix.PICO))(p=m.a, n=m.b)
        m.e1 = E(w=1 * h.prefix.K, k=1)(p=m.a, n=m.b)
        m.e2 = E(w=1000 * h.prefix.UNIT, k=1.0)(p=m.a, n=m.b)
        return m
    yield ("params/equal-values-spelled-differently", equal_spelled_differently)
    # declaration histories: names first declared as one kind and re-declared as another, ports declared in an order that
    # differs from the order of first mention
    def redeclared():
        m = h.Module(name="Redecl")
        m.vdd = h.Signal()                 # first mentioned as a plain signal ...
        m.k = h.Signal(width=2)
        m.inp = h.Input()
        m.out = h.Output()
        m.vdd = h.Inout()                  # ... and made a port afterwards, after the other ports
        m.k = h.Port(width=2)
        m.t = h.Input()
        m.t = h.Signal()                   # a port demoted to a signal
        m.r = h.R(r=1)(p=m.inp, n=m.out)
        m.r2 = h.R(r=1)(p=m.vdd, n=m.t)
        m.c = h.C(c=1)(p=m.k[0], n=m.k[1])
        top = h.Module(name="RedeclTop")
        top.a, top.b, top.c = h.Signals(3)
        top.kk = h.Signal(width=2)
        top.i = m(inp=top.a, out=top.b, vdd=top.c, k=top.kk)
        return top
    yield ("params/redeclared-ports", redeclared)

    # parameter classes with enum-, string- and bool-valued fields on external modules; literals that look like numbers
    def typed_paramclass():
        import enum

        class Corner(enum.Enum):
            TT = "tt"
            FF = "ff"

        class Speed(str, enum.Enum):
            FAST = "fast"
        PC = h.paramclass(type("EnumP", (), {"corner": h.Param(dtype=Corner, desc="c", default=Corner.TT),
                                             "speed": h.Param(dtype=Speed, desc="s", default=Speed.FAST),
                                             "label": h.Param(dtype=str, desc="l", default="1e3"),
                                             "n": h.Param(dtype=int, desc="n", default=2)}))
        E = h.ExternalModule(name="EXTE", port_list=[h.Inout(name="p")], paramtype=PC, desc="", domain="dom")
        m = h.Module(name="PEnum")
        m.a = h.Signal()
        m.e1 = E(PC())(p=m.a)
        m.e2 = E(PC(corner=Corner.FF, label="007", n=0))(p=m.a)
        m.mn = h.Nmos(model="25")(d=m.a, g=m.a, s=m.a, b=m.a)
        return m
    yield ("params/typed-paramclass", typed_paramclass)

    def numeric_literals():
        m = h.Module(name="PLit")
        m.a, m.b = h.Signal(), h.Signal()
        E = h.ExternalModule(name="EXTL", port_list=[h.Inout(name="p"), h.Inout(name="n")], paramtype=dict, desc="", domain="dom")
        m.e = E(x=h.Literal("1000"), y=h.Literal("3"), z=h.Literal("1e-9"))(p=m.a, n=m.b)
        return m
    yield ("params/numeric-literals-on-external-modules", numeric_literals)

    def numeric_literals_prim():
        m = h.Module(name="PLitP")
        m.a, m.b = h.Signal(), h.Signal()
        m.r = h.R(r=h.Literal("1000"))(p=m.a, n=m.b)
        m.c = h.C(c=h.Literal("3"))(p=m.a, n=m.b)
        return m
    yield ("params/numeric-literals-on-primitives", numeric_literals_prim)

    # number-like literal text on EVERY parameter of every ideal primitive, incl. those VLSIR names differently
    def numeric_literals_every_primitive():
        import dataclasses
        m = h.Module(name="PLitAll")
        texts = ["100", "1e-9", "0.5", "2*k", "-3", "1_000", " 7 ", "0x10", "1e", "inf"]
        k = 0
        for prim in (h.R, h.C, h.L, h.Vdc, h.Vpulse, h.Vsin, h.Idc, h.Vcvs, h.Vccs, h.Cccs, h.Ccvs):
            fields = [f.name for f in dataclasses.fields(prim.Params)]
            for rot in range(2):
                vals = {}
                for j, f in enumerate(fields):
                    vals[f] = h.Literal(texts[(j + k + rot * 3) % len(texts)])
                try:
                    call = prim(**vals)
                except Exception:
                    continue
                conns = {p_.name: m.add(h.Signal(name=f"s{k}_{p_.name}")) for p_ in prim.port_list}
                m.add(call(**conns), name=f"i{k}")
                k += 1
        assert k >= 10
        return m
    yield ("params/numeric-literals-on-every-primitive", numeric_literals_every_primitive)

    # every parameter that may be None given as None explicitly - also where its default is something else (Vdc.dc = 0)
    def explicit_none():
        import dataclasses, typing
        m = h.Module(name="PNone")
        k = 0
        prims = [getattr(h.primitives, n) for n in dir(h.primitives)]
        prims = [p_ for p_ in prims if isinstance(p_, h.Primitive)]
        seen = set()
        for prim in prims:
            if id(prim) in seen:
                continue
            seen.add(id(prim))
            optional = [n for n, p_ in prim.Params.__params__.items() if type(None) in typing.get_args(p_.dtype)]
            for chosen in [optional] + [[n] for n in optional]:
                if not chosen:
                    continue
                try:
                    call = prim(**{n: None for n in chosen})
                except Exception:
                    continue
                conns = {p_.name: m.add(h.Signal(name=f"s{k}_{p_.name}", width=p_.width)) for p_ in prim.port_list}
                m.add(call(**conns), name=f"i{k}")
                k += 1
        assert k >= 20, k
        return m
    yield ("params/explicit-none", explicit_none)

    # generated modules whose names carry parameter text with dots: relative paths, doubled / leading / trailing dots
    def dotted_generator_names():
        @h.paramclass
        class DutP:
            models = h.Param(dtype=str, desc="model file")
            corner = h.Param(dtype=str, desc="corner", default="tt")

        @h.generator
        def Dut(p: DutP) -> h.Module:
            m = h.Module()
            m.a = h.Port()
            m.r = h.R(r=1)(p=m.a, n=m.a)
            return m
        top = h.Module(name="DottedTop")
        top.s = h.Signal()
        for k, text in enumerate(("../models/nmos.lib", "a..b", ".hidden", "trailing.", "1.5", "...", "x/./y")):
            top.add(Dut(models=text)(a=top.s), name=f"d{k}")
        return top
    yield ("params/dotted-generator-names", dotted_generator_names)

    # parameters NAMED like the arguments of the library's own call machinery, or like Python / dict attributes
    def signature_like_param_names():
        m = h.Module(name="PSig")
        m.a, m.b = h.Signal(), h.Signal()
        E = h.ExternalModule(name="EXTSIG", port_list=[h.Inout(name="p"), h.Inout(name="n")], paramtype=dict, desc="", domain="dom")
        for k, names in enumerate((("arg",), ("self",), ("callee",), ("gain", "arg"), ("params", "kwargs", "name"), ("cls", "items", "keys"),
                                   ("module", "of", "conns"))):
            m.add(E({n: j + k for j, n in enumerate(names)})(p=m.a, n=m.b), name=f"e{k}")

        @h.paramclass
        class WithArg:
            arg = h.Param(dtype=int, desc="a field called arg", default=1)
            callee = h.Param(dtype=int, desc="callee", default=2)
        E2 = h.ExternalModule(name="EXTSIG2", port_list=[h.Inout(name="p"), h.Inout(name="n")], paramtype=WithArg, desc="", domain="dom")
        m.f = E2(WithArg(arg=5))(p=m.a, n=m.b)
        return m
    yield ("params/signature-like-parameter-names", signature_like_param_names)

    # module literals: repeated texts, empty text, order
    def repeated_literals():
        m = h.Module(name="PLits")
        m.a = h.Port()
        m.r = h.R(r=1)(p=m.a, n=m.a)
        for t in (".option a", ".option b", ".option a", "", ".option a", "* c", ""):
            m.literals.append(h.Literal(t))
        top = h.Module(name="PLitsTop")
        top.s = h.Signal()
        top.i = m(a=top.s)
        top.literals.extend([h.Literal("x"), h.Literal("x")])
        return top
    yield ("params/repeated-module-literals", repeated_literals)

    # modules NAMED with dots by hand: doubled, leading and trailing dots, a lone dot
    def dotted_module_names():
        top = h.Module(name="DottedNamesTop")
        top.s = h.Signal()
        for k, nm in enumerate(("cell..v2", ".hidden", "trailing.", "a.b.c", "x...", ".", "two..dots..")):
            c = h.Module(name=nm)
            c.a = h.Port()
            c.r = h.R(r=k + 1)(p=c.a, n=c.a)
            top.add(c(a=top.s), name=f"i{k}")
        return top
    yield ("params/dotted-module-names", dotted_module_names)

    # signals and ports called like attributes of the Module object itself (only add() can give such names)
    def attribute_like_names():
        c = h.Module(name="AttrNames")
        for nm in ("name", "bundle_ports", "_importpath", "_source_info"):
            c.add(h.Port(), name=nm)
        c.add(h.Signal(), name="roles")
        c.r1 = h.R(r=1)(p=c.get("name"), n=c.get("bundle_ports"))
        c.r2 = h.R(r=2)(p=c.get("_importpath"), n=c.get("roles"))
        c.r3 = h.R(r=3)(p=c.get("_source_info"), n=c.get("roles"))
        top = h.Module(name="AttrNamesTop")
        top.s = h.Signal()
        top.i = c(**{"_importpath": top.s, "_source_info": top.s})
        top.i.connect("name", top.s)
        top.i.connect("bundle_ports", top.s)
        return top
    yield ("params/attribute-like-signal-names", attribute_like_names)
    from vlsirtools import SpiceType
    for st in SpiceType:
        def b(st=st):
            E = h.ExternalModule(name=f"EST_{st.name}", port_list=[h.Inout(name="p"), h.Inout(name="n")], desc="with a spice type",
                                 domain="spt", spicetype=st)
            m = h.Module(name="PS")
            m.a, m.b = h.Signal(), h.Signal()
            m.e = E()(p=m.a, n=m.b)
            return m
        yield (f"params/spicetype/{st.name}", b)


def check_roundtrip(case):
    import hdl21 as h
    desc, build = case
    try:
        pkg = h.to_proto(build())
    except Exception:
        return None
    try:
        ns = h.from_proto(pkg)
    except Exception as e:
        return (f"from_proto.raises/{desc.split('/')[0]}", f"{desc}: from_proto rejected an exported package: "
                                                          f"{type(e).__name__}: {str(e)[:200]}", {"design": desc})
    # the imported top-level modules: every module of the package that no other module instantiates
    used = {i.module.local for m in pkg.modules for i in m.instances if i.module.WhichOneof("to") == "local"}
    tops = []
    for m in pkg.modules:
        if m.name in used:
            continue
        obj = ns
        for part in m.name.split("."):
            obj = getattr(obj, part, None) if obj is not None else None
            if obj is None:
                break
        if obj is None:
            return (f"from_proto.post.names/{desc.split('/')[0]}", f"{desc}: imported namespace lacks {m.name}",
                    {"design": desc})
        tops.append(obj)
    try:
        pkg2 = h.to_proto(tops)
    except Exception as e:
        return (f"reexport.raises/{desc.split('/')[0]}", f"{desc}: re-export of the imported modules failed: "
                                                         f"{type(e).__name__}: {str(e)[:200]}", {"design": desc})
    if pkg2 != pkg:
        a, b = str(pkg).splitlines(), str(pkg2).splitlines()
        k = next((i for i, (x, y) in enumerate(zip(a, b)) if x != y), min(len(a), len(b)))
        ctxa = " | ".join(a[max(0, k - 2):k + 2])
        ctxb = " | ".join(b[max(0, k - 2):k + 2])
        return (f"roundtrip.post.equal/{desc.split('/')[0]}", f"{desc}: packages differ near line {k}: exported "
                                                            f"[{ctxa}] re-exported [{ctxb}]", {"design": desc})
    return None


def check_tables(_):
    """export/import table pairs are mutually inverse and total (exhaustive over the finite domains, run on the
    real functions)"""
    import hdl21 as h
    from hdl21.proto import exporting as ex, importing as im
    from hdl21.prefix import Prefix
    from hdl21.signal import PortDir
    for p in Prefix:
        if im.import_prefix(ex.export_prefix(p)) is not p:
            return ("tables.prefix", f"prefix {p} does not round-trip", {"design": "tables"})
    for d in PortDir:
        s = h.Signal(name="p", vis=h.Visibility.PORT, direction=d)
        pp = ex.export_port(s)
        if im.import_port_dir(pp) is not d:
            return ("tables.portdir", f"direction {d} does not round-trip", {"design": "tables"})
    return None


def run(ctx):
    from props import c01_deductive
    c01_deductive.run(ctx)
    from contracts import c_import, c_qualname
    ctx.verify(c_qualname.engine(), c_qualname.VERIFY, min_obligations={c_qualname.KEY: 10})
    ctx.verify(c_import.engine(), c_import.VERIFY, min_obligations={c_import.KEY: 10})
    from contracts import c_importparams as cip
    ctx.verify(cip.engine(), cip.VERIFY, replay=cip.replay,
               min_obligations={cip.K_DIR: 5, cip.K_PRE: 22, cip.K_VAL: 6})
    ctx.verify(cip.prefixed_engine(), cip.VERIFY_PREFIXED, replay=cip.replay, min_obligations={cip.K_PFX: 8})
    ctx.assumptions.append("import_prefixed: the Prefixed constructor (pydantic validation into a Decimal) is trusted - a "
                           "call yields a new Prefixed or raises; proved is what it is handed")
    ctx.verify(cip.params_engine(), cip.VERIFY_PARAMS, replay=cip.replay, min_obligations={cip.K_PRM: 17})
    from contracts import c_params as _cp
    ctx.frame_audit("pulse-renaming: the export-side and import-side contracts state one table",
                    [] if _cp.PULSE_MAP == cip.PULSE_MAP else [("tables differ", 0)],
                    "the two contracts' renaming tables are not inverse of each other")
    for nm, asm, goal in cip.roundtrip_lemmas():
        ctx.lemma(nm + " (over the contracts of the export side and of the import side)", asm, goal)
    asm, goal = c_import.roundtrip_lemma()
    ctx.lemma("slice-roundtrip: import(export(slice)) selects the same bits (over the contracts of export_slice, "
              "import_connection_target and _slice_inner)", asm, goal)
    from contracts import c_conntarget as cc
    obs, info = cc.roundtrip_obligations()
    for u in info.get("unsupported", []):
        ctx.unsupported.append((cc.KEY + " ; " + c_import.KEY, u))
    if len(obs) < 1 and not info.get("unsupported"):
        ctx.checker_errors.append("no round-trip obligation generated for export/import_connection_target")
    ctx.discharge(obs, cc.KEY + " ; " + c_import.KEY + " [round trip, one symbolic run]", info)
    key, obs, info = c_import.import_concat_obligations(8 if ctx.tier == "thorough" else 4)
    for u in info.get("unsupported", []):
        ctx.unsupported.append((key, u))
    if len(obs) < 4 and not info.get("unsupported"):
        ctx.checker_errors.append(f"only {len(obs)} obligations for import_concat")
    ctx.discharge(obs, key + " [parts in reverse order; 1-4 parts]", info)
    key, obs, info = cc.export_concat_obligations(8 if ctx.tier == "thorough" else 4)
    ctx.discharge(obs, key + " [parts in reverse order; 1-4 parts]", info)
    ctx.assumptions.append("import_concat / export_concat: part order proved for 1-4 parts (arity unrolled); from_proto's "
                           "module and instance loops are not under contract (bounded part); "
                           "the protobuf oneof of a ConnectionTarget is modelled as ghost state of the record")
    ctx.run_bounded("tables", ["tables"], check_tables, rule="21 prefixes and 4 port directions, exhaustive",
                    bound="finite tables, complete", key_of=repr)
    cases = itertools.chain(design_family(ctx.tier, ctx.seed), param_programs())
    ctx.run_bounded("to_proto(from_proto(P))==P", cases, check_roundtrip,
                    rule=RULE + "; plus primitive/external-module instances over 10 parameter value kinds",
                    bound="depth<=3, widths<=4 (8 thorough)", key_of=lambda c: c[0],
                    nontrivial=lambda c: nontrivial(c[0]))
    return INFO


def replay(payload):
    want = (payload.get("input") or {}).get("design")
    if want == "tables":
        r = check_tables(0)
        print("replay:", r)
        return 1 if r else 0
    if want:
        for tier in ("quick", "thorough"):
            for desc, b in itertools.chain(design_family(tier, 0), param_programs()):
                if desc == want:
                    r = check_roundtrip((desc, b))
                    print("replay:", r)
                    return 1 if r else 0
    print("nothing to replay natively; obligation:", payload.get("obligation"))
    return 2
