"""C05 - names invented during elaboration never capture the designer's names."""
import itertools
from pyvc import *
from contracts.common import *

INFO = {
    "level": "other",
    "explanation": "hybrid: flatname proved (loop invariant name == base + '_'*k, result not in the avoid set, "
                   "termination measure) with z3+cvc5 on strings; the insertion sites create_source and replace_noconn "
                   "proved to meet the internal precondition 'inserted name is absent from the module namespace' and to "
                   "keep every designer name bound to its object; adversarially named designs for every naming rule "
                   "evaluated at run time against the reference interpreter (bounded)",
    "trusted_base": ["rtc/meaning.py", "pyvc string encoding (z3 seq / cvc5 strings)", "z3", "cvc5"],
}


def adversarial_designs():
    """(description, builder): the designer's own names equal what the elaborator would invent, in both orders."""
    import hdl21 as h

    def leaf():
        return h.ExternalModule(name="LF", port_list=[h.Inout(name="a"), h.Inout(name="b")], desc="", domain="adv")

    def bun():
        @h.bundle
        class B:
            x = h.Signal()
            y = h.Signal(width=2)
        return B

    def child_with_bundle(B, L):
        @h.module
        class CB:
            q = B(port=True)
            l = L()(a=q.x, b=q.x)
        return CB
    suffixes = ["", "_", "__"]
    def use(m, L, name, how):
        """the designer's signal `name`, used the way `how` says (the invented name must dodge it however it is used)"""
        sig = m.add(h.Signal(name=name))
        if how == "direct":
            m.add(L()(a=sig, b=m.v), name="keep")
        elif how == "slice":
            m.add(L()(a=sig[0], b=m.v), name="keep")
        elif how == "concat":
            m.add(L()(a=h.Concat(sig), b=m.v), name="keep")
        elif how == "both-ports-sliced":
            m.add(L()(a=sig[0], b=sig[-1]), name="keep")
        elif how == "reassigned":
            # connected, then assigned again under its own name (the `m.x = m.x(...)` idiom re-adds what is already there)
            m.add(L()(a=sig, b=m.v), name="keep")
            setattr(m, name, sig)
            setattr(m, "keep", m.get("keep")(b=m.v))
        # "unused": declared, connected to nothing
    USES = ("direct", "slice", "concat", "both-ports-sliced", "unused", "reassigned")
    # 1. implicit signal behind a port reference: i0_a
    for suf in suffixes:
        for first in (True, False):
            for how in USES:
                def b(suf=suf, first=first, how=how):
                    L = leaf()
                    m = h.Module(name="AdvPref")
                    m.v = h.Signal()
                    if first:
                        use(m, L, "i0_a" + suf, how)
                    m.i0 = L()(b=m.v)
                    m.i1 = L()(a=m.i0.a, b=m.v)
                    if not first:
                        use(m, L, "i0_a" + suf, how)
                    return m
                yield (f"adv/portref/i0_a{suf}/{'before' if first else 'after'}/{how}", b)
    # 2. no-connects, named and unnamed
    for suf in suffixes:
        for named in (None, "i0_a", "nc"):
            for how in USES:
                def b(suf=suf, named=named, how=how):
                    L = leaf()
                    m = h.Module(name="AdvNc")
                    m.v = h.Signal()
                    tgt = (named or "i0_a") + suf
                    use(m, L, tgt, how)
                    m.i0 = L()(a=h.NoConn(name=named) if named else h.NoConn(), b=m.v)
                    m.i2 = L()(a=h.NoConn(name=named) if named else h.NoConn(), b=m.v)
                    return m
                yield (f"adv/noconn/{named}/{suf or '-'}/{how}", b)
    # 3. flattened bundle members: b_x, and a bundle port of a child
    for suf in suffixes:
        for first in (True, False):
            def b(suf=suf, first=first):
                B = bun()
                L = leaf()
                CB = child_with_bundle(B, L)
                m = h.Module(name="AdvBun")
                m.v = h.Signal()
                def adv():
                    m.add(h.Signal(name="bb_x" + suf))
                    m.add(L()(a=m.get("bb_x" + suf), b=m.v), name="keep")
                if first:
                    adv()
                m.bb = B()
                m.c = CB(q=m.bb)
                m.l2 = L()(a=m.bb.x, b=m.v)
                if not first:
                    adv()
                return m
            yield (f"adv/bundle/bb_x{suf}/{'before' if first else 'after'}", b)
    # 4. array elements arr_0 and pair members pr_p (instances)
    for suf in suffixes:
        for first in (True, False):
            def b(suf=suf, first=first):
                L = leaf()
                m = h.Module(name="AdvArr")
                m.v = h.Signal()
                m.w = h.Signal(width=2)
                def adv():
                    m.add(L()(a=m.v, b=m.v), name="arr_0" + suf)
                    m.add(L()(a=m.v, b=m.v), name="pr_p" + suf)
                if first:
                    adv()
                m.arr = 2 * L()(a=m.w, b=m.v)
                m.d = h.Diff()
                m.pr = h.Pair(L())(a=m.d, b=m.v)
                if not first:
                    adv()
                return m
            yield (f"adv/array-pair/{suf or '-'}/{'before' if first else 'after'}", b)
    # 4a. TWO designer names at once, one per element / member, with different numbers of trailing underscores
    for s1 in suffixes:
        for s2 in suffixes:
            for first in (True, False):
                def b(s1=s1, s2=s2, first=first):
                    L = leaf()
                    m = h.Module(name="AdvTwo")
                    m.v = h.Signal()
                    m.w = h.Signal(width=2)

                    def adv():
                        m.add(L()(a=m.v, b=m.v), name="arr_0" + s1)
                        m.add(L()(a=m.v, b=m.v), name="arr_1" + s2)
                        m.add(L()(a=m.v, b=m.v), name="pr_p" + s2)
                        m.add(L()(a=m.v, b=m.v), name="pr_n" + s1)
                        m.add(h.Signal(), name="bb_x" + s1)
                        m.add(h.Signal(width=2), name="bb_y" + s2)
                        m.add(L()(a=m.get("bb_x" + s1), b=m.get("bb_y" + s2)[0]), name="usebb")
                    if first:
                        adv()
                    m.arr = 2 * L()(a=m.w, b=m.v)
                    m.d = h.Diff()
                    m.pr = h.Pair(L())(a=m.d, b=m.v)
                    m.bb = bun()()
                    m.lb = L()(a=m.bb.x, b=m.bb.y[1])
                    if not first:
                        adv()
                    return m
                yield (f"adv/two-names/{s1 or '-'}/{s2 or '-'}/{'before' if first else 'after'}", b)
    # 4b. the designer's own object under the invented name is itself a compound that elaboration takes apart (another pair,
    #     another array, a bundle instance): it is on its way out of the namespace when the invention is named
    for suf in ("", "_"):
        for first in (True, False):
            for kind in ("pair-vs-pair", "array-vs-array", "pair-vs-array", "array-vs-pair", "bundle-vs-portref"):
                def b(suf=suf, first=first, kind=kind):
                    L = leaf()
                    m = h.Module(name="AdvCompound")
                    m.v, m.u = h.Signal(), h.Signal()
                    m.w, m.w2 = h.Signal(width=2), h.Signal(width=2)
                    own, other = kind.split("-vs-")

                    def theirs():
                        if other == "pair":
                            m.add(h.Pair(L())(a=h.AnonymousBundle(p=m.v, n=m.u), b=m.v), name="pr")
                        elif other == "array":
                            m.add(2 * L()(a=m.w, b=m.v), name="arr")
                        else:
                            m.i0 = L()(b=m.v)
                            m.i1 = L()(a=m.i0.a, b=m.v)
                    name = {"pair": "pr_p", "array": "arr_0", "portref": "i0_a"}[other] + suf

                    def mine():
                        if own == "pair":
                            m.add(h.Pair(L())(a=h.AnonymousBundle(p=m.u, n=m.v), b=m.u), name=name)
                        elif own == "array":
                            m.add(2 * L()(a=m.w2, b=m.u), name=name)
                        else:
                            B = bun()
                            m.add(B(), name=name)
                            m.add(L()(a=m.get(name).x, b=m.u), name="keep")
                    for f in ((mine, theirs) if first else (theirs, mine)):
                        f()
                    return m
                yield (f"adv/compound/{kind}/{suf or '-'}/{'before' if first else 'after'}", b)
    # 5. a signal named like an array element, an instance named like an implicit signal
    def b5():
        L = leaf()
        m = h.Module(name="AdvMix")
        m.v = h.Signal()
        m.add(h.Signal(name="arr_1"))
        m.add(L()(a=m.get("arr_1"), b=m.v), name="i0_a")
        m.arr = 2 * L()(a=m.v, b=m.v)
        m.i0 = L()(b=m.v)
        m.i1 = L()(a=m.i0.a, b=m.v)
        return m
    yield ("adv/mixed-kinds", b5)
    # 6. invented names clashing with EACH OTHER (nothing declared by the designer): members of one bundle instance
    #    composing to the same flat name, and implicit port-reference signals of two instances doing so
    for order in (0, 1):
        def b6(order=order):
            L = leaf()
            Sub = h.Bundle(name="SubB")
            Sub.add(h.Signal(name="b"))
            Z = h.Bundle(name="ZB")
            parts = [lambda: Z.add(h.Signal(name="a_b")), lambda: Z.add(Sub(), name="a")]
            for f in (parts if order == 0 else parts[::-1]):
                f()
            m = h.Module(name="AdvSelf")
            m.v = h.Signal()
            m.z = Z()
            m.l1 = L()(a=m.z.a_b, b=m.v)
            m.l2 = L()(a=m.z.a.b, b=m.v)
            return m
        yield (f"adv/self-clash/bundle-members/{order}", b6)

        def b6p(order=order):
            # the same bundle on a child's port: the clash is inside the child's port list as well
            L = leaf()
            Sub = h.Bundle(name="SubBp")
            Sub.add(h.Signal(name="b"))
            Z = h.Bundle(name="ZBp")
            parts = [lambda: Z.add(h.Signal(name="a_b")), lambda: Z.add(Sub(), name="a")]
            for f in (parts if order == 0 else parts[::-1]):
                f()
            c = h.Module(name="AdvSelfChild")
            c.v = h.Signal()
            c.z = Z(port=True)
            c.k1 = L()(a=c.z.a_b, b=c.v)
            c.k2 = L()(a=c.z.a.b, b=c.v)
            m = h.Module(name="AdvSelfP")
            m.v = h.Signal()
            m.z = Z()
            m.l1 = L()(a=m.z.a_b, b=m.v)
            m.l2 = L()(a=m.z.a.b, b=m.v)
            m.c = c(z=m.z)
            return m
        yield (f"adv/self-clash/bundle-port-members/{order}", b6p)

        def b6w(order=order):
            # the same with members of different widths: a silent replacement also breaks the width of a connection
            L2 = h.ExternalModule(name="LF2", port_list=[h.Inout(name="a", width=2), h.Inout(name="b")], desc="", domain="adv")
            L = leaf()
            Sub = h.Bundle(name="SubBw")
            Sub.add(h.Signal(name="b", width=2))
            Z = h.Bundle(name="ZBw")
            parts = [lambda: Z.add(h.Signal(name="a_b")), lambda: Z.add(Sub(), name="a")]
            for f in (parts if order == 0 else parts[::-1]):
                f()
            m = h.Module(name="AdvSelfW")
            m.v = h.Signal()
            m.z = Z()
            m.l1 = L()(a=m.z.a_b, b=m.v)
            m.l2 = L2()(a=m.z.a.b, b=m.v)
            return m
        yield (f"adv/self-clash/bundle-members-widths/{order}", b6w)

        def b7(order=order):
            P1 = h.ExternalModule(name="P1", port_list=[h.Inout(name="a_b"), h.Inout(name="c")], desc="", domain="adv")
            P2 = h.ExternalModule(name="P2", port_list=[h.Inout(name="b"), h.Inout(name="c")], desc="", domain="adv")
            m = h.Module(name="AdvSelf2")
            m.v = h.Signal()
            m.i0 = P1()(c=m.v)
            m.i0_a = P2()(c=m.v)
            m.j0 = P1()(c=m.v)
            m.j1 = P2()(c=m.v)
            if order == 0:
                m.j0.a_b = m.i0.a_b
                m.j1.b = m.i0_a.b
            else:
                m.j1.b = m.i0_a.b
                m.j0.a_b = m.i0.a_b
            return m
        yield (f"adv/self-clash/portref-signals/{order}", b7)


def ladder_designs():
    """the designer holds the invented name AND the next candidates (`x`, `x_`, `x__`), declared in every order, as
    instances / unconnected signals / connected signals / ports - for each naming rule (the probe for a free name walks the
    ladder: every rung has to be looked up in the module as it stands)"""
    import hdl21 as h
    import itertools as it

    def mk(rule, order, what, rungs):
        def b():
            L = h.ExternalModule(name="LdL", port_list=[h.Inout(name="a"), h.Inout(name="b")], desc="", domain="adv")
            m = h.Module(name="Ladder")
            m.v = h.Signal()
            base = {"bundle": "bb_x", "port-bundle": "bb_x", "array": "arr_0", "array-of-one": "arr_0", "pair": "pr_p", "portref": "i0_a", "noconn": "i1_b"}[rule]
            for k in order:
                nm = base + "_" * k
                if k >= rungs:
                    continue
                if what == "instance":
                    m.add(L()(a=m.v, b=m.v), name=nm)
                elif what == "unused-signal":
                    m.add(h.Signal(), name=nm)
                elif what == "port":
                    m.add(h.Port(), name=nm)
                else:
                    sig = m.add(h.Signal(), name=nm)
                    m.add(L()(a=sig, b=m.v), name=f"use{k}")
            if rule == "bundle":
                B = h.Bundle(name="LdB")
                B.add(h.Signal(name="x"))
                m.bb = B()
                m.ub = L()(a=m.bb.x, b=m.v)
            elif rule == "port-bundle":
                B = h.Bundle(name="LdPB")
                B.add(h.Signal(name="x"))
                m.bb = B(port=True)
                m.ub = L()(a=m.bb.x, b=m.v)
            elif rule == "array":
                m.w2 = h.Signal(width=2)
                m.arr = 2 * L()(a=m.w2, b=m.v)
            elif rule == "array-of-one":
                m.w1 = h.Signal()
                m.arr = 1 * L()(a=m.w1, b=m.v)
            elif rule == "pair":
                m.d = h.Diff()
                m.pr = h.Pair(L())(a=m.d, b=m.v)
            elif rule == "portref":
                m.i0 = L()(b=m.v)
                m.i9 = L()(a=m.i0.a, b=m.v)
            else:
                m.i1 = L()(a=m.v, b=h.NoConn())
            return m
        return b
    for rule in ("bundle", "port-bundle", "array", "array-of-one", "pair", "portref", "noconn"):
        for what in ("instance", "unused-signal", "used-signal", "port"):
            if rule == "port-bundle" and what == "port":
                continue      # (two top-level ports wanting one name: the reference has no unique reading of that interface)
            for rungs in (1, 2, 3) if rule == "array-of-one" else (2, 3):
                for order in it.permutations(range(rungs)):
                    yield (f"adv/ladder/{rule}/{what}/{'-'.join(map(str, order))}", mk(rule, order, what, rungs))


def cross_module_designs():
    """the same bundle type under the same instance name in two modules of one design (and of successive elaborations in
    one process): one module has no clash, the other has a designer's object named like a flattened member"""
    import hdl21 as h

    def mk(clash_in, what, earlier, suf):
        def b():
            L = h.ExternalModule(name="XL", port_list=[h.Inout(name="a"), h.Inout(name="b")], desc="", domain="adv")

            @h.bundle
            class XB:
                x = h.Signal()
                y = h.Signal(width=2)

            def fill(m, clash):
                m.v = h.Signal()
                if clash:
                    if what == "instance":
                        m.add(L()(a=m.v, b=m.v), name="b_x" + suf)
                    elif what == "unused-signal":
                        m.add(h.Signal(name="b_x" + suf))
                    else:
                        s = m.add(h.Signal(name="b_x" + suf))
                        m.add(L()(a=s, b=m.v), name="keep")
                m.b = XB()
                m.use = L()(a=m.b.x, b=m.v)
            inner = h.Module(name="XInner")
            fill(inner, clash_in == "child")
            if earlier:
                h.elaborate(inner)
            outer = h.Module(name="XOuter")
            fill(outer, clash_in == "parent")
            outer.inner = inner()
            if clash_in == "sibling":
                sib = h.Module(name="XSib")
                fill(sib, True)
                outer.sib = sib()
            return outer
        return b
    for clash_in in ("parent", "child", "sibling"):
        for what in ("instance", "unused-signal", "used-signal"):
            for earlier in (False, True):
                for suf in ("", "_"):
                    yield (f"adv/cross-module/{clash_in}/{what}/{'inner-elaborated-before' if earlier else 'one-call'}/b_x{suf}",
                           mk(clash_in, what, earlier, suf))


def check_adv(case):
    import hdl21 as h
    from rtc.meaning import meaning, package_meaning, compare, InvalidPackage
    desc, build = case
    top = build()
    want = meaning(top)
    mods, todo = [], [top]
    while todo:
        m = todo.pop()
        if isinstance(m, h.Module) and not any(m is x for x in mods):
            mods.append(m)
            todo.extend(getattr(i, "of", None) for i in m.instances.values())
    designer = {(k, n): o for k, m in enumerate(mods) for n, o in m.namespace.items()
                if isinstance(o, h.Signal) or (isinstance(o, h.Instance))}
    try:
        pkg = h.to_proto(top)
    except RuntimeError as e:
        return None     # resolving a clash by raising is allowed
    except Exception as e:
        return (f"adv.raises.{type(e).__name__}", f"{desc}: {type(e).__name__}: {str(e)[:160]}", {"design": desc})
    for (k, n), o in designer.items():
        if mods[k].namespace.get(n) is not o:
            return ("adv.shadowed", f"{desc}: designer object `{n}` was replaced or shadowed", {"design": desc})
    try:
        got = package_meaning(pkg, top.name)
    except InvalidPackage as e:
        return ("adv.captured", f"{desc}: the exported package is not a circuit: {str(e)[:220]}", {"design": desc})
    diff = compare(want, got)
    if "/port-bundle/" in desc:
        # (the flattened PORT may legitimately get a fresh name when the designer holds the documented one: the reference,
        #  which names ports and port terminals by the documented rule, cannot follow it there: for this family the
        #  identity of the designer's objects and the well-formedness of the package decide)
        diff = []
    if diff:
        return ("adv.captured", f"{desc}: {diff[0][:260]}", {"design": desc})
    return None


def run(ctx):
    from contracts import c_names as cn
    eng = mk_engine(contracts=cn.CONTRACTS, loops=cn.LOOPS)
    ctx.verify(eng, cn.VERIFY, min_obligations={cn.VERIFY[0].key: 12})
    eng2 = mk_engine(contracts=cn.SITE_CONTRACTS, field_classes=cn.SITE_FIELD_CLASSES)
    ctx.verify(eng2, cn.SITES, min_obligations={s.key: 20 for s in cn.SITES})
    ctx.verify(cn.copy_port_engine(), cn.VERIFY_COPY_PORT, min_obligations={cn.VERIFY_COPY_PORT[0].key: 10})
    for key, obs, info in cn.loop_site_obligations():
        for u in info.get("unsupported", []):
            ctx.unsupported.append((key, u))
        if len(obs) < 3 and not info.get("unsupported"):
            ctx.checker_errors.append(f"only {len(obs)} insertion-site obligations for {key}")
        ctx.discharge(obs, key + " [insertion loop body]", info)
    ctx.assumptions += ["callee contracts used at the insertion sites (io_for_resolving, copy_port, "
                        "which_portref_to_name, _Instance.connect) are frame-only abstractions: they do not touch "
                        "module namespaces (connect: proved under C04; copy_port: proved here; io_for_resolving: proved under C07; "
                        "which_portref_to_name: assumed)",
                        "loop insertion sites (arrays.py, flatten_bundles.py, inst_bundles.py): one arbitrary iteration "
                        "from an arbitrary state is proved; Path.to_name and the Instance constructor are abstracted "
                        "(a string / a new named Instance)"]
    ctx.run_bounded("adversarial-names", __import__("itertools").chain(adversarial_designs(), cross_module_designs(), ladder_designs()), check_adv,
                    rule="designer signals/instances named exactly as the elaborator's inventions (inst_port, "
                         "noconn names, bundle_member, array_k, pair_member) with 0-2 trailing underscores, declared "
                         "before or after the construct; invented names that clash with each other (bundle members a_b vs a.b, "
                         "implicit signals i0.a_b vs i0_a.b); oracle: reference meaning + identity of designer objects; "
                         "all distinct and non-trivial",
                    bound="5 naming rules x 3 suffixes x 2 orders (port references and no-connects: x 5 ways the designer's signal is used) + 8 self-clash designs + 36 designs with one bundle type under one instance name in two modules (clash in the parent, the child or a sibling; child elaborated in the same or an earlier call) + 160 ladders: the invented name and the next one or two candidates all held by the designer, declared in every order, for each of the five naming rules", key_of=lambda c: c[0])
    return INFO


def replay(payload):
    want = (payload.get("input") or {}).get("design")
    for desc, b in __import__("itertools").chain(adversarial_designs(), cross_module_designs(), ladder_designs()):
        if desc == want:
            r = check_adv((desc, b))
            print("replay:", r)
            return 1 if r else 0
    print("nothing to replay natively; obligation:", payload.get("obligation"))
    return 2
