"""C19 - built-in generators build the documented topologies."""
import itertools
from pyvc import *
from contracts.common import *

INFO = {
    "level": "other",
    "explanation": "hybrid: the chain lemma proved for all n by z3 over the array-rule and concat contracts (unit k "
                   "receives bit k of Concat(P0, i) on its first series port and bit k of Concat(i, P1) on its second: "
                   "consecutive units share exactly i[k], the ends are the module ports); _seriesconn proved by pyvc; "
                   "the structure and the exported leaf-level partition of Series / MosStack / Wrapper evaluated at run "
                   "time for n in 1..8 (16), several unit cells and every ordered pair of series ports (bounded)",
    "trusted_base": ["the array rule and Concat bit order as specified under C01/C03 (proved/bounded there)",
                     "rtc/meaning.py package reader", "pyvc", "z3"],
}


def chain_lemma(ctx):
    """For all n >= 2 and 0 <= k < n: with c0 = Concat(P0, i) and c1 = Concat(i, P1), i of width n-1, element k of an
    n-array over 1-bit ports gets bits(c0)[k] and bits(c1)[k] (array rule, per-element wiring since both concats have
    width n).  bits(Concat(a, b))[j] = a[j] if j < width(a) else b[j - width(a)]  (C03)."""
    import z3
    n, k = z3.Ints("n k")
    # encode a net as an integer: P0 -> -1, P1 -> -2, i[j] -> j
    c0 = lambda j: z3.If(j < 1, z3.IntVal(-1), j - 1)            # Concat(P0 (width 1), i)
    c1 = lambda j: z3.If(j < n - 1, j, z3.IntVal(-2))            # Concat(i (width n-1), P1)
    pre = [n >= 2, k >= 0, k < n]
    ctx.lemma("series/first-unit-c0-is-port0", pre, z3.Implies(k == 0, c0(k) == -1))
    ctx.lemma("series/last-unit-c1-is-port1", pre, z3.Implies(k == n - 1, c1(k) == -2))
    ctx.lemma("series/consecutive-units-share-i[k]", pre + [k < n - 1], z3.And(c1(k) == c0(k + 1), c1(k) == k, k >= 0, k < n - 1))
    j = z3.Int("j")
    # i[k] touches nothing else: it is c1 of unit k and c0 of unit k+1 only
    ctx.lemma("series/internal-net-private", pre + [j >= 0, j < n, k < n - 1],
              z3.And(z3.Implies(c0(j) == k, j == k + 1), z3.Implies(c1(j) == k, j == k)))
    ctx.lemma("series/ports-only-at-the-ends", pre + [j >= 0, j < n],
              z3.And(z3.Implies(c0(j) == -1, j == 0), z3.Implies(c1(j) == -2, j == n - 1), c0(j) != -2, c1(j) != -1))
    ctx.lemma("series/widths-match-per-element-rule", [n >= 2], z3.And(1 + (n - 1) == n * 1, (n - 1) + 1 == n * 1))


def units():
    import hdl21 as h
    E3 = h.ExternalModule(name="U3", port_list=[h.Inout(name="a"), h.Inout(name="b"), h.Inout(name="c")], desc="", domain="u")
    Mod = h.Module(name="UnitMod")
    Mod.x = h.Port()
    Mod.y = h.Port()
    Mod.bus = h.Port(width=2)
    Mod.r = h.R(r=1)(p=Mod.x, n=Mod.y)
    Mod.e = h.ExternalModule(name="U2b", port_list=[h.Inout(name="a", width=2), h.Inout(name="z")], desc="", domain="u")()(a=Mod.bus, z=Mod.x)
    # substrate / well pins are commonly written with a leading underscore; `name` is an Instance keyword
    EU = h.ExternalModule(name="UU", port_list=[h.Inout(name="a"), h.Inout(name="z"), h.Inout(name="_sub"),
                                                h.Inout(name="name")], desc="", domain="u")
    # ports called like the objects Series itself creates (its internal net `i`, its instance array `units`)
    EI = h.ExternalModule(name="UI", port_list=[h.Inout(name="i"), h.Inout(name="o"), h.Inout(name="units")], desc="",
                          domain="u")
    # ports called like the flat instances elaboration makes of the array (`units_0`, `units_1`, ...)
    EF = h.ExternalModule(name="UF", port_list=[h.Inout(name="a"), h.Inout(name="units_0"), h.Inout(name="units_1"),
                                                h.Inout(name="i_0")], desc="", domain="u")
    # a unit with a bundle-valued port next to its signal ports - as written, and already elaborated (bundle flattened)
    def bmod(pre, namesake=None, directed=None):
        def mk():
            UB = h.Bundle(name="UnitB")
            if directed == "one-leaf":
                UB.add(h.Signal(name="x"))          # flattens into exactly as many signals as there were bundles
            elif directed is None:
                UB.add(h.Signal(name="x"))
                UB.add(h.Signal(name="y", width=2))
            else:
                UB.add(h.Input(name="x"))
                UB.add(h.Output(name="y", width=2))
            m = h.Module(name="BUnit")
            m.a, m.z = h.Port(), h.Port()
            m.bb = UB(port=True) if directed != "flipped" else UB(port=True, flipped=True)
            if directed == "flipped-by-function":
                m.bb = h.flipped(UB(port=True))
            if directed == "one-leaf":
                m.e = h.ExternalModule(name="U3b", port_list=[h.Inout(name="p"), h.Inout(name="q"), h.Inout(name="s")], desc="",
                                       domain="u")()(p=m.a, q=m.bb.x, s=m.z)
            else:
                m.e = h.ExternalModule(name="U4b", port_list=[h.Inout(name="p"), h.Inout(name="q"), h.Inout(name="r", width=2),
                                                            h.Inout(name="s")], desc="", domain="u")()(p=m.a, q=m.bb.x, r=m.bb.y, s=m.z)
            if namesake == "port":
                # a scalar port called like a flattened member of the bundle port: the member is exported as `bb_x_`
                m.bb_x = h.Port()
                m.e2 = h.R(r=1)(p=m.bb_x, n=m.a)
            elif namesake == "signal":
                m.bb_x = h.Signal()
                m.e2 = h.R(r=1)(p=m.bb_x, n=m.a)
            if pre == "failed-parent":
                # the unit left half-way by the FAILED elaboration of another design that contains it (its bundle port
                # flattened, the unit never marked elaborated)
                bad = h.Module(name="BUnitBadParent")
                bad.ub = UB()
                bad.s, bad.w3 = h.Signal(), h.Signal(width=3)
                bad.u = m(a=bad.s, z=bad.s, bb=bad.ub)
                bad.arr = 2 * h.R(r=1)(p=bad.w3, n=bad.s)
                try:
                    h.elaborate(bad)
                except Exception:
                    pass
                else:
                    raise AssertionError("the bad parent was accepted")
            elif pre:
                h.elaborate(m)
            return m
        return mk
    # units with DIRECTED ports: any two ports may be the series pair, whatever their directions
    def dmod():
        m = h.Module(name="DirUnit")
        m.i1, m.i2 = h.Input(), h.Input()
        m.o1, m.o2 = h.Output(), h.Output()
        m.io = h.Inout()
        m.e = h.ExternalModule(name="U5d", port_list=[h.Inout(name=n_) for n_ in "abcde"], desc="", domain="u")()(
            a=m.i1, b=m.i2, c=m.o1, d=m.o2, e=m.io)
        return m
    ED = h.ExternalModule(name="UDir", port_list=[h.Input(name="i1"), h.Input(name="i2"), h.Output(name="o1"), h.Output(name="o2")],
                          desc="", domain="u")
    return [("BMod", bmod(False), ["a", "z"]), ("BModE", bmod(True), ["a", "z"]),
            ("BModNP", bmod(False, "port"), ["a", "z"]), ("BModNS", bmod(False, "signal"), ["a", "z"]),
            ("BModNPE", bmod(True, "port"), ["a", "z"]),
            ("BModD", bmod(False, None, "plain"), ["a", "z"]), ("BModF", bmod(False, None, "flipped"), ["a", "z"]),
            ("BModFE", bmod(True, None, "flipped"), ["a", "z"]), ("BModFF", bmod(False, None, "flipped-by-function"), ["a", "z"]),
            ("BMod1", bmod(False, None, "one-leaf"), ["a", "z"]), ("BMod1E", bmod(True, None, "one-leaf"), ["a", "z"]),
            ("BMod1H", bmod("failed-parent", None, "one-leaf"), ["a", "z"]),
            ("BModH", bmod("failed-parent"), ["a", "z"]), ("BModHF", bmod("failed-parent", None, "flipped"), ["a", "z"]),
            ("DirMod", dmod, ["i1", "i2", "o1", "o2", "io"]), ("DirExt", lambda: ED(), ["i1", "i2", "o1", "o2"]),
            ("EI", lambda: EI(), ["i", "o", "units"]), ("EF", lambda: EF(), ["a", "units_0", "units_1", "i_0"]),
            ("R", lambda: h.R(r=1), ["p", "n"]), ("Nmos", lambda: h.Nmos(), ["d", "g", "s", "b"]),
            ("E3", lambda: E3(), ["a", "b", "c"]), ("Mod", lambda: Mod, ["x", "y"]),
            ("EU", lambda: EU(), ["a", "z", "_sub"])]


def cases(tier):
    N = 16 if tier == "thorough" else 8
    for uname, mk, ports in units():
        for c0, c1 in itertools.permutations(ports, 2):
            sizes = list([1, 2, 3, N] if tier != "thorough" else range(1, N + 1))
            if uname in ("R", "Nmos", "BMod", "Mod"):
                sizes += [11, 12, 23]         # (element names of two digits: units_9 < units_10 only as numbers)
            for n in sizes:
                for by in ("name", "signal", "signal-name", "name-signal"):
                    if by in ("signal-name", "name-signal") and n not in (1, 3):
                        continue
                    yield (uname, c0, c1, n, by)


def check_series(case):
    import hdl21 as h
    from hdl21.generators import Series
    from rtc.meaning import package_meaning
    uname, c0, c1, n, by = case
    w = {"case": repr(case)}
    mk = {u[0]: u[1] for u in units()}[uname]
    unit = mk()
    uports = unit.ports
    # the two series ports are given by name, as the unit's port objects, or one of each
    conns = {"name": (c0, c1), "signal": (uports[c0], uports[c1]), "signal-name": (uports[c0], c1),
             "name-signal": (c0, uports[c1])}[by]
    try:
        m = Series(unit=unit, conns=conns, nser=n)
    except Exception as e:
        return (f"series.raises.{type(e).__name__}", f"{case!r}: {type(e).__name__}: {str(e)[:140]}", w)
    # the unit's ports as it defines them (signal and bundle valued), and as they are exported (bundles flattened)
    defined = getattr(unit, "_pre_flattening_io", None)
    defined = dict(defined) if defined is not None else dict(list(unit.ports.items()) + list(getattr(unit, "bundle_ports", {}).items()))
    names = list(m.ports) + list(m.bundle_ports)
    if sorted(names) != sorted(defined):
        return ("post.ports", f"{case!r}: ports {names} != unit ports {list(defined)}", w)
    for pn, p in m.ports.items():
        if p.width != defined[pn].width:
            return ("post.port-width", f"{case!r}: port {pn} width {p.width} != {defined[pn].width}", w)
    if isinstance(unit, h.Module) and (getattr(unit, "bundle_ports", None) or getattr(unit, "_pre_flattening_io", None)):
        twin = h.to_proto(mk())
        tm = twin.modules[-1]
        tw = {s_.name: s_.width for s_ in tm.signals}

        class _P:
            def __init__(self, width):
                self.width = width
        uports = {p_.signal: _P(tw[p_.signal]) for p_ in tm.ports}
        udirs = {p_.signal: p_.direction for p_ in tm.ports}
    # the generated module's name for each unit port: the same name - except that a flattened bundle member which had to
    # step around a PRIVATE object of the unit (`bb_x_` next to an internal signal `bb_x`) has no reason to in the
    # generated module, whose namespace holds the unit's ports and Series' own objects only
    scalar = {k for k, v in defined.items() if isinstance(v, h.Signal)}
    sigof = {}
    for pn in uports:
        name = pn
        if pn not in scalar:
            name = pn.rstrip("_")
            while name in scalar or name in sigof.values():
                name += "_"
        sigof[pn] = name
    try:
        pkg = h.to_proto(m)
    except Exception as e:
        return (f"export.raises.{type(e).__name__}", f"{case!r}: {type(e).__name__}: {str(e)[-160:]}", w)
    from rtc.meaning import InvalidPackage
    try:
        pm = package_meaning(pkg, m.name)
    except InvalidPackage as e:
        return ("export.not-a-circuit", f"{case!r}: the exported package is not a circuit: {str(e)[:200]}", w)
    # leaf-level view: find which net each unit's series/parallel port sits on.  For Module units look one level down
    # through the unit's own ports (the unit's port nets appear in the partition through its leaves).
    top = [mm for mm in pkg.modules if mm.name.endswith(m.name) or mm.name == m.name][-1]
    exported_ports = [p_.signal for p_ in top.ports]
    if sorted(exported_ports) != sorted(sigof.values()) or sorted(s_.name for s_ in top.signals if s_.name in sigof.values()) != sorted(sigof.values()):
        return ("post.ports", f"{case!r}: the exported module has ports {exported_ports}, the unit has {list(uports)}", w)
    # ... with the unit's directions (a flipped bundle port stays flipped)
    if "udirs" in locals():
        tdirs = {p_.signal: p_.direction for p_ in top.ports}
        wrong = [(pn, tdirs.get(sigof[pn]), udirs[pn]) for pn in uports if tdirs.get(sigof[pn]) != udirs[pn]]
        if wrong:
            return ("post.port-direction", f"{case!r}: port directions (port, generated module, unit): {wrong}", w)
    insts = list(top.instances)
    if len(insts) != n:
        return ("post.count", f"{case!r}: {len(insts)} unit instances, expected {n}", w)
    # connection of unit k port p as (signal, bit) from the proto directly (scalar ports / whole buses)
    def conn_of(inst, port):
        for c in inst.connections:
            if c.portname == port:
                t = c.target
                kind = t.WhichOneof("stype")
                if kind == "sig":
                    return (t.sig, None)
                if kind == "slice":
                    return (t.slice.signal, (t.slice.bot, t.slice.top))
                return ("concat", str(t))
        return None
    order = sorted(insts, key=lambda i: int(i.name.rstrip("_").split("_")[-1]) if n > 1 and i.name.rstrip("_").split("_")[-1].isdigit() else 0)
    if n == 1:
        i = insts[0]
        for pn in uports:
            if conn_of(i, pn) != (sigof[pn], None):
                return ("post.wrapper", f"{case!r}: nser=1 port {pn} wired to {conn_of(i, pn)}", w)
        return None
    widths = {s.name: s.width for s in top.signals}
    internal = [s for s in widths if s not in sigof.values()]
    if len(internal) != 1 or widths[internal[0]] != n - 1:
        return ("post.internal-net", f"{case!r}: internal signals {[(s, widths[s]) for s in internal]}, expected one of width {n - 1}", w)
    iname = internal[0]

    def bit(sig, k):
        return (sig, None) if widths[sig] == 1 else (sig, (k, k))
    for k, inst in enumerate(order):
        want0 = (c0, None) if k == 0 else bit(iname, k - 1)
        want1 = (c1, None) if k == n - 1 else bit(iname, k)
        g0, g1 = conn_of(inst, c0), conn_of(inst, c1)
        if g0 != want0 or g1 != want1:
            return ("post.chain", f"{case!r}: unit {k} has {c0}->{g0}, {c1}->{g1}; expected {want0}, {want1}", w)
        for pn in uports:
            if pn in (c0, c1):
                continue
            if conn_of(inst, pn) != (sigof[pn], None):
                return ("post.parallel", f"{case!r}: unit {k} port {pn} wired to {conn_of(inst, pn)}, expected module "
                                         f"port {sigof[pn]}", w)
    return None


def check_misc(case):
    import hdl21 as h
    from hdl21.generators import Series, MosStack, Wrapper
    kind = case[1]
    w = {"case": repr(case)}
    if kind == "nser<1":
        for n in (0, -1):
            try:
                Series(unit=h.R(r=1), conns=("p", "n"), nser=n)
                return ("rejects.nser", f"nser={n} accepted", w)
            except Exception:
                pass
    if kind == "bad-port":
        for conns in (("p", "nope"), ("nope", "n"), (5, "n")):
            try:
                Series(unit=h.R(r=1), conns=conns, nser=2)
                return ("rejects.series-port", f"series ports {conns} accepted", w)
            except Exception:
                pass
    if kind == "mosstack":
        # MosStack IS Series over drain and source, for whatever unit has those two ports
        def mk_units():
            E2 = h.ExternalModule(name="Sw2", port_list=[h.Inout(name="d"), h.Inout(name="s")], desc="", domain="u")
            E3 = h.ExternalModule(name="Fet3", port_list=[h.Inout(name="d"), h.Inout(name="g"), h.Inout(name="s")], desc="", domain="u")
            E5 = h.ExternalModule(name="Fet5", port_list=[h.Inout(name=n_) for n_ in ("d", "g", "s", "b", "sub")], desc="", domain="u")
            PG = h.Module(name="PassGate")
            PG.d, PG.s, PG.en, PG.enb = h.Ports(4)
            PG.n = h.Nmos()(d=PG.d, g=PG.en, s=PG.s, b=PG.s)
            PG.p = h.Pmos()(d=PG.d, g=PG.enb, s=PG.s, b=PG.d)
            return [("Nmos", h.Nmos()), ("Pmos", h.Pmos(w=2 * h.prefix.µ)), ("Sw2", E2()), ("Fet3", E3()), ("Fet5", E5()), ("PassGate", PG)]
        for uname, unit in mk_units():
            for n in (1, 2, 4):
                try:
                    a = MosStack(unit=unit, nser=n)
                except Exception as e:
                    return ("mosstack", f"MosStack over {uname} (ports {list(unit.ports)}), nser={n}: {type(e).__name__}: {str(e)[:100]} "
                                        f"- Series over d and s builds it", w)
                b = Series(unit=unit, conns=("d", "s"), nser=n)
                if a is not b:
                    pa, pb = h.to_proto(a), h.to_proto(b)
                    if [i.SerializeToString(deterministic=True) for i in pa.modules[-1].instances] != \
                            [i.SerializeToString(deterministic=True) for i in pb.modules[-1].instances] or \
                            [p_.signal for p_ in pa.modules[-1].ports] != [p_.signal for p_ in pb.modules[-1].ports]:
                        return ("mosstack", f"MosStack over {uname}, nser={n} differs from Series over drain and source", w)
        for n in ():
            a = MosStack(unit=h.Nmos(), nser=n)
            b = Series(unit=h.Nmos(), conns=("d", "s"), nser=n)
            if a is not b:
                pa, pb = h.to_proto(a), h.to_proto(b)
                if [i.SerializeToString(deterministic=True) for i in pa.modules[-1].instances] != \
                        [i.SerializeToString(deterministic=True) for i in pb.modules[-1].instances]:
                    return ("mosstack", f"MosStack(nser={n}) differs from Series over drain and source", w)
    if kind == "build-many-then-export":
        # several generated modules over the same primitives / external module exist before any is exported: each must
        # still export, and own its ports
        E = h.ExternalModule(name="UH", port_list=[h.Inout(name="a"), h.Inout(name="z"), h.Inout(name="_sub")], desc="",
                             domain="u")
        made = []
        for n in (1, 2, 3):
            made.append(Series(unit=h.R(r=1), conns=("p", "n"), nser=n))
            made.append(MosStack(unit=h.Nmos(), nser=n))
            made.append(Series(unit=E(), conns=("a", "z"), nser=n))
        made += [Wrapper(h.R(r=1)), Wrapper(h.Nmos()), Wrapper(E()), Wrapper(h.R(r=1))]
        for m in made:
            for pn, p in m.ports.items():
                if p._parent_module is not m:
                    return ("ports-not-owned", f"{m.name}: port {pn} is owned by {getattr(p._parent_module, 'name', None)}", w)
            try:
                h.to_proto(m)
            except Exception as e:
                return (f"export.raises.{type(e).__name__}", f"{m.name} (built before later generator calls over the "
                                                             f"same unit): {type(e).__name__}: {str(e)[-140:]}", w)
        return None
    if kind == "same-named-units":
        # unit modules made by one factory share a qualified name but are different modules (different ports, different
        # contents): each stack / wrapper is built over the unit it was given
        def factory(k):
            u = h.Module(name="FUnit")
            u.add(h.Port(), name="p")
            u.add(h.Port(), name="q")
            u.add(h.Port(width=k + 1), name=f"side{k}")     # the units differ in a parallel port, not in the series pair
            u.r = h.R(r=k + 1)(p=u.p, n=u.q)
            return u
        for n in (1, 2, 3):
            for k in (0, 1, 2):
                u = factory(k)
                for what, m in (("Series", Series(unit=u, conns=("p", "q"), nser=n)), ("Wrapper", Wrapper(u))):
                    if sorted(m.ports) != sorted(u.ports):
                        return ("post.ports", f"{what} over the {k + 1}. unit named FUnit (nser={n}) has ports "
                                              f"{sorted(m.ports)}, its unit has {sorted(u.ports)}", w)
                    targets = [i.of for i in list(m.instances.values()) + list(m.instarrays.values())]
                    if not targets or any(t is not u for t in targets):
                        return ("post.unit", f"{what} over the {k + 1}. unit named FUnit (nser={n}) instantiates another "
                                             f"module than the one it was given", w)
                    try:
                        h.to_proto(m)
                    except Exception as e:
                        return (f"export.raises.{type(e).__name__}", f"{what} over the {k + 1}. FUnit: {str(e)[-140:]}", w)
        return None
    if kind == "wrapper":
        @h.bundle
        class WB:
            x = h.Signal()
            y = h.Signal(width=2)
        inner = h.Module(name="Winner")
        inner.a = h.Input(width=3)
        inner.o = h.Output()
        inner.b = WB(port=True)
        inner.e = h.ExternalModule(name="W5", port_list=[h.Inout(name="p", width=3), h.Inout(name="q"), h.Inout(name="r"), h.Inout(name="s", width=2)], desc="", domain="w")()(p=inner.a, q=inner.o, r=inner.b.x, s=inner.b.y)
        EU = h.ExternalModule(name="WU", port_list=[h.Inout(name="a"), h.Inout(name="_sub"), h.Inout(name="name")], desc="",
                              domain="w")
        EIn = h.ExternalModule(name="WIn", port_list=[h.Inout(name="inner"), h.Inout(name="z")], desc="", domain="w")
        for target in (inner, h.R(r=1), h.Nmos(), EU(), EIn()):
            wr = Wrapper(target)
            from hdl21.instantiable import io
            tio = io(target)
            got = dict(list(wr.ports.items()) + list(wr.bundle_ports.items()))
            if sorted(got) != sorted(tio):
                return ("wrapper.ports", f"Wrapper({target}) exposes {sorted(got)}, target has {sorted(tio)}", w)
            insts = list(wr.instances.values())
            # (the instance is called `inner`; with a unit port of that name, `inner` followed by underscores)
            if len(insts) != 1 or insts[0].name.rstrip("_") != "inner" or insts[0].of is not target or \
                    (insts[0].name != "inner" and "inner" not in tio):
                return ("wrapper.instance", f"Wrapper({target}) has instances {[i.name for i in insts]}", w)
            for pn in tio:
                if insts[0].conns.get(pn) is not got[pn]:
                    return ("wrapper.wiring", f"Wrapper({target}): inner.{pn} is not wired to the wrapper's {pn}", w)
            h.to_proto(wr)
        # nser == 1 is "a plain wrapper of the unit": all of its ports, bundle-valued ones included
        inner2 = h.Module(name="Winner2")          # a fresh (not yet elaborated) unit with a bundle-valued port
        inner2.a = h.Input(width=3)
        inner2.o = h.Output()
        inner2.b = WB(port=True)
        inner2.e = h.ExternalModule(name="W5b", port_list=[h.Inout(name="p", width=3), h.Inout(name="q"), h.Inout(name="r"),
                                                          h.Inout(name="s", width=2)], desc="", domain="w")()(
            p=inner2.a, q=inner2.o, r=inner2.b.x, s=inner2.b.y)
        from hdl21.instantiable import io as _io
        want1 = sorted(_io(inner2))
        one = Series(unit=inner2, conns=("a", "o"), nser=1)
        got1 = dict(list(one.ports.items()) + list(one.bundle_ports.items()))
        if sorted(got1) != want1:
            return ("series.nser1-ports", f"Series(nser=1) over a unit with a bundle port exposes {sorted(got1)}, the unit "
                                          f"has {want1}", w)
        try:
            h.to_proto(one)
        except Exception as e:
            return (f"export.raises.{type(e).__name__}", f"Series(nser=1) over a unit with a bundle port: {str(e)[-140:]}", w)
    return None


def run(ctx):
    chain_lemma(ctx)
    from contracts import c_series as cs
    ctx.verify(cs.engine(), cs.VERIFY)
    ctx.run_bounded("series-structure", cases(ctx.tier), check_series,
                    rule="Series over R, Nmos, a 3-port external module and a Module unit, every ordered pair of distinct "
                         "unit ports as the series pair, given by name and by Signal, n in {1,2,3,N}; exported package: "
                         "n units, one internal net of width n-1, unit k's ports on the nets the chain lemma names, "
                         "all other ports (a `_sub` pin among them) on the same-named module port; distinct = distinct case; non-trivial = n>=2",
                    bound="n<=8 (16 thorough)", key_of=repr, nontrivial=lambda c: c[3] >= 2)
    ctx.run_bounded("series-misc", [("misc", k) for k in ("nser<1", "bad-port", "mosstack", "wrapper", "build-many-then-export", "same-named-units")],
                    check_misc,
                    rule="rejections, MosStack == Series over (d, s), Wrapper over module with bus and bundle ports / "
                         "primitives / an external module with `_sub` and `name` ports; 13 generated modules over the "
                         "same units built first and exported afterwards", bound="5 programs", key_of=repr)
    ctx.verify(cs.unused_engine(), cs.VERIFY_UNUSED, min_obligations={cs.VERIFY_UNUSED[0].key: 3})
    n_sites, offenders = cs.series_site_audit()
    ctx.frame_audit("hdl21.generators:Series/internal-names", offenders or ([("naming sites", n_sites)] if n_sites < 3 else []),
                    "Series / Wrapper name an internal object without _unused_name")
    from contracts import c_instance as ci
    key, obs, info = ci.call_obligations()
    for u in info.get("unsupported", []):
        ctx.unsupported.append((key, u))
    if len(obs) < 5 and not info.get("unsupported"):
        ctx.checker_errors.append(f"only {len(obs)} connect-by-call obligations")
    ctx.discharge(obs, key + " [keyword loop body]", info)
    return INFO


def replay(payload):
    c = (payload.get("input") or {}).get("case")
    if not c:
        return 2
    case = eval(c)
    r = check_misc(case) if case[0] == "misc" else check_series(case)
    print("replay:", r)
    return 1 if r else 0
