"""Deductive part shared by C01 / C06 / C11: leaf functions of the export/import path."""
from pyvc import *
from contracts.common import *


def run(ctx):
    from contracts import c_export
    eng = c_export.engine()
    ctx.verify(eng, c_export.VERIFY, min_obligations=c_export.MIN_OBLIGATIONS)
    ctx.assumptions.extend(c_export.ASSUMPTIONS)
    from contracts import c_conntarget as cc
    ctx.verify(cc.engine(), cc.VERIFY, min_obligations={cc.KEY: 10})
    key, obs, info = cc.export_instance_conn_obligations()
    for u in info.get("unsupported", []):
        ctx.unsupported.append((key, u))
    if len(obs) < 1 and not info.get("unsupported"):
        ctx.checker_errors.append("no obligation for the connection loop of export_instance")
    ctx.discharge(obs, key + " [connection loop body]", info)
