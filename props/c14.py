"""C14 - prefixed numbers are exact, totally ordered and hash-consistent."""
import os
import itertools
import random
from decimal import Decimal
from fractions import Fraction

from pyvc import *
from contracts.common import *

INFO = {
    "level": "other",
    "explanation": "deductive: the six comparison operators, __hash__, __int__ and __float__ of Prefixed (with "
                   "_rounded_to_smaller, to_prefixed and exact inlined from source) are executed symbolically over "
                   "exact rationals for every ordered pair of the 21 prefixes with ARBITRARY real mantissas; "
                   "never-raises, agreement beyond the tolerance, same-value equality and hash, trichotomy and the "
                   "relations between the operators, operand-swap symmetry, int truncation and float nearest are "
                   "discharged by cvc5/z3 (linear real/integer arithmetic with floor). Arithmetic (+ - * / scale) runs "
                   "in decimal's 28-digit context, outside the theories: decided only by bounded evaluation against "
                   "fractions.Fraction over all 441 prefix pairs x a mantissa set; prefix tables exhaustively.",
    "trusted_base": ["fractions.Fraction and decimal as reference arithmetic", "CPython float() of a Fraction is "
                     "correctly rounded"],
}


def exact(x):
    return Fraction(x.number) * Fraction(10) ** x.prefix.value


def mantissas(tier, rnd):
    base = ["0", "1", "-1", "2", "5", "10", "999.5", "1000", "1000.5", "0.001", "0.0009995", "1500", "-1500", "3",
            "0.5", "12345678901234567890", "1.000000000000000000001", "123456789.123456789", "-0.000123",
            "9999999999999999999999999", "1E+3", "1.50", "7E-7",
            # float() corner cases: integers just above 2**53, 16-17 digit mantissas, ties between adjacent doubles
            "9007199254740993", "-9007199254740995", "9.999999999999999", "-9.999999999999999", "1.0000000000000002",
            "4503599627370497.5", "0.1000000000000000055511151231257827", "123456789012345678",
            # signed zeros and zeros with exponents: they are all the value 0
            "-0", "-0.0", "0E+3", "-0E-7", "0.000",
            # values a hair (far less than the comparison tolerance) inside the next whole number: the integer part is the
            # whole number BELOW
            "0.99999999999999999999999", "2999.9999999999999999999999", "-41999999.999999999999999999999",
            "-0.9999999999999999999999999", "6.9999999999999999999999", "1.0000000000000000000000001",
            "0.3333333333333333333333333333",
            # whole mantissas of 29-31 digits (beyond the decimal context's precision), also written with an exponent
            "1E+30", "123456789012345678901234567890", "-1E+28", "5E+29",
            # negative values far smaller than the comparison tolerance: still negative, their absolute value positive
            "-1E-21", "-4.2E-24", "-0.000000000000000000000001"]
    n = 60 if tier == "thorough" else 8
    for _ in range(n):
        digits = rnd.randint(1, 25)
        s = "".join(rnd.choice("0123456789") for _ in range(digits)).lstrip("0") or "0"
        pt = rnd.randint(0, len(s))
        s = (s[:pt] or "0") + ("." + s[pt:] if pt < len(s) else "")
        base.append(("-" if rnd.random() < 0.4 else "") + s)
    return base


def cases(tier, seed):
    from hdl21.prefix import Prefix
    rnd = random.Random(seed)
    ms = mantissas(tier, rnd)
    prefixes = list(Prefix)
    for pa in prefixes:
        for pb in prefixes:
            k = 10 if tier == "thorough" else 3
            picks = [(ms[i % len(ms)], ms[(i * 7 + 3) % len(ms)]) for i in
                     (rnd.randrange(len(ms) * 13) for _ in range(k))]
            # always include the boundary pair 1000*m vs 1*UNIT style: equal values written differently
            picks.append(("1000", "1"))
            picks.append(("1", "1"))
            # values closer than the comparison tolerance (in either order): the six operators must stay consistent
            picks.append(("1", "1.0000000000000000000001"))
            picks.append(("-2.00000000000000000000004", "-2"))
            picks.append(("1", "1.00000000000000000002"))
            # values that agree in their first 16-19 significant digits and differ far above the tolerance (they are the same
            # double): different values must not compare equal
            picks.append(("1.00000000000000001", "1"))
            picks.append(("123.456789012345679", "123.456789012345678"))
            picks.append(("-7.0000000000000000001", "-7"))
            if pa is pb:
                picks.append(("999999999999999999.5", "999999999999999999.25"))
            picks.append(("-0", "0"))
            picks.append(("0", "-0.0"))
            picks.append(("-0E+2", "1E-30"))
            for a, b in picks:
                yield (a, pa.name, b, pb.name)


TOL = Fraction(1, 10 ** 20)


def check_pair(case):
    from hdl21.prefix import Prefix, Prefixed
    a, pa, b, pb = case
    x = Prefixed(number=Decimal(a), prefix=Prefix[pa])
    y = Prefixed(number=Decimal(b), prefix=Prefix[pb])
    ex, ey = exact(x), exact(y)
    w = {"case": repr(case)}
    # frame: the thread's decimal context belongs to the caller. No operation - succeeding or failing - leaves it changed
    # (every later result would silently depend on which operations came before)
    import decimal as _dec

    def dctx():
        c = _dec.getcontext()
        return (c.prec, c.rounding, c.Emin, c.Emax, c.capitals, c.clamp, tuple(sorted(str(t) for t, on in c.traps.items() if on)))
    ctx0 = dctx()

    def worse(now):
        # (more working precision than before is no loss; less, or another rounding rule, makes later results depend on history)
        return now[0] < ctx0[0] or now[1:] != ctx0[1:]
    zero = Prefixed(number=Decimal(0), prefix=Prefix[pb])
    for name, f in (("div-by-prefixed-zero", lambda: x / zero), ("rdiv-by-prefixed-zero", lambda: Decimal(a) / zero if False else zero.__rtruediv__(x)),
                    ("div", lambda: x / y), ("div-by-zero-scalar", lambda: x / 0), ("pow", lambda: x ** 2), ("pow-bad", lambda: x ** "k"),
                    ("add-bad", lambda: x + "k"), ("compare-bad", lambda: x < "k")):
        try:
            f()
        except Exception:
            pass
        if worse(dctx()):
            got = dctx()
            _dec.getcontext().prec = ctx0[0]
            return ("frame.decimal-context", f"{name} on {x!r}, {y!r} left the decimal context changed: {got} (was {ctx0})", w)
    # comparisons: total (never raise), consistent, agree with exact values beyond the tolerance
    try:
        lt, le, eq, ne, gt, ge = x < y, x <= y, x == y, x != y, x > y, x >= y
    except Exception as e:
        return ("compare.raises." + type(e).__name__, f"comparing {x!r} with {y!r} raises {type(e).__name__}", w)
    if sum([lt, eq, gt]) != 1 or le != (lt or eq) or ge != (gt or eq) or ne != (not eq):
        return ("compare.trichotomy", f"{x!r} vs {y!r}: lt={lt} le={le} eq={eq} ne={ne} gt={gt} ge={ge}", w)
    # documented tolerance: "20 decimal places in their SI unit" - read leniently as the larger of the two units
    unit = max(Prefix[pa].value, Prefix[pb].value)
    if abs(ex - ey) > TOL * Fraction(10) ** unit * 2 or ex == ey:
        if lt != (ex < ey) or gt != (ex > ey) or eq != (ex == ey):
            return ("compare.exact", f"{x!r} vs {y!r}: lt={lt} eq={eq} gt={gt} but exact values are {ex} and {ey}", w)
    if ex == ey:
        if not eq:
            return ("eq.same-value", f"{x!r} and {y!r} denote the same value but compare unequal", w)
        try:
            if hash(x) != hash(y):
                return ("hash.same-value", f"{x!r} == {y!r} but their hashes differ", w)
        except Exception as e:
            return ("hash.raises", f"hash raises {type(e).__name__}", w)
    # int / float
    try:
        ix = int(x)
        if ix != int(ex) or not isinstance(ix, int):
            return ("int.value", f"int({x!r}) == {ix!r}, integer part of the value is {int(ex)}", w)
    except Exception as e:
        return ("int.raises." + type(e).__name__, f"int({x!r}) raises {type(e).__name__}: {e}", w)
    try:
        fx = float(x)
        if fx != float(ex):
            return ("float.nearest", f"float({x!r}) == {fx!r}, nearest float of the value is {float(ex)!r}", w)
    except OverflowError:
        pass
    except Exception as e:
        return ("float.raises." + type(e).__name__, f"float({x!r}) raises {type(e).__name__}", w)
    # arithmetic
    ops = [("add", lambda: x + y, ex + ey), ("sub", lambda: x - y, ex - ey), ("mul", lambda: x * y, ex * ey),
           ("neg", lambda: -x, -ex), ("abs", lambda: abs(x), abs(ex)),
           ("scale", lambda: x.scale(Prefix[pb]), ex)]
    for name, f, want in ops:
        try:
            r = f()
        except Exception as e:
            if name in ("add", "sub", "mul") and (ex == 0 or ey == 0 or want == 0):
                # scale() of a zero result takes log10(0)
                return (f"{name}.raises-on-zero", f"{name} of {x!r}, {y!r} raises {type(e).__name__}", w)
            return (f"{name}.raises." + type(e).__name__, f"{name} of {x!r}, {y!r} raises {type(e).__name__}: {e}", w)
        if not isinstance(r, Prefixed):
            return (f"{name}.type", f"{name} returned {type(r).__name__}", w)
        if exact(r) != want:
            def sig_digits(fr):
                n, d = fr.numerator, fr.denominator
                k = 0
                while d % 10 == 0:
                    d //= 10
                while d != 1:           # d divides a power of ten: scale up to an integer
                    if d % 2 == 0:
                        n, d = n * 5, d // 2
                    elif d % 5 == 0:
                        n, d = n * 2, d // 5
                    else:
                        return 99
                return len(str(abs(n)).rstrip("0")) or 1
            small = Fraction(10) ** min(Prefix[pa].value, Prefix[pb].value)
            need = max(sig_digits(want), sig_digits(ex / small) if name in ("add", "sub") else 0,
                       sig_digits(ey / small) if name in ("add", "sub") else 0)
            cls = "needs-more-than-28-digits" if need > 28 else "inexact"
            return (f"{name}.{cls}", f"{name} of {x!r}, {y!r} gives {r!r} = {exact(r)}, exact result is {want}", w)
    if worse(dctx()):
        got = dctx()
        _dec.getcontext().prec = ctx0[0]
        return ("frame.decimal-context", f"operations on {x!r}, {y!r} left the decimal context changed: {got} (was {ctx0})", w)
    return None


def check_routes(case):
    """the same number reached by different construction routes (fresh, copy of a USED number with fields updated,
    copy / deepcopy / pickle) behaves identically: equality, hash, int, float, ordering against the original"""
    import copy
    import pickle
    from hdl21.prefix import Prefix, Prefixed
    a, pa, b, pb = case
    w = {"case": repr(case), "routes": True}
    x = Prefixed(number=Decimal(a), prefix=Prefix[pa])
    fresh = Prefixed(number=Decimal(b), prefix=Prefix[pb])
    try:
        hash(x), float(x), x == x, x < fresh, int(x)          # use it: any memo is now filled
    except OverflowError:
        pass
    upd = dict(number=Decimal(b), prefix=Prefix[pb])
    routes = {}
    if hasattr(x, "model_copy"):
        routes["model_copy(update)"] = lambda: x.model_copy(update=upd)
    elif hasattr(x, "copy"):
        routes["copy(update)"] = lambda: x.copy(update=upd)
    routes["copy.copy"] = lambda: copy.copy(fresh)
    routes["copy.deepcopy"] = lambda: copy.deepcopy(fresh)
    routes["pickle"] = lambda: pickle.loads(pickle.dumps(fresh))
    import dataclasses
    for name, mk in routes.items():
        try:
            y = mk()
        except Exception as e:
            return (f"routes.raises.{type(e).__name__}", f"{name} of {x!r} raises {type(e).__name__}: {e}", w)
        try:
            obs = (exact(y), y == fresh, hash(y) == hash(fresh), int(y), y < x, y > x, y == x)
            want = (exact(fresh), True, True, int(fresh), fresh < x, fresh > x, fresh == x)
            try:
                obs += (float(y),)
                want += (float(fresh),)
            except OverflowError:
                pass
        except Exception as e:
            return (f"routes.use-raises.{type(e).__name__}", f"{name}: {type(e).__name__}: {e}", w)
        if obs != want:
            return ("routes.differs", f"{y!r} obtained by {name} from a used {x!r} behaves unlike a fresh {fresh!r}: "
                                      f"(exact, ==fresh, hash, int, <x, >x, ==x, float) = {obs} vs {want}", w)
    return None


def check_tables(_):
    from hdl21.prefix import Prefix, e
    for p in Prefix:
        if Prefix.from_exp(p.value) is not p:
            return ("tables.from_exp", f"from_exp({p.value}) is not {p}", {"case": "tables"})
        if Prefix.closest(p.value) is not p:
            return ("tables.closest", f"closest({p.value}) is not {p}", {"case": "tables"})
    for exp in range(-30, 31):
        c = Prefix.closest(exp)
        best = min(abs(q.value - exp) for q in Prefix)
        if abs(c.value - exp) != best:
            return ("tables.closest-argmin", f"closest({exp}) = {c}", {"case": "tables"})
        if (Prefix.from_exp(exp) is None) != (exp not in [q.value for q in Prefix]):
            return ("tables.from_exp-partial", f"from_exp({exp})", {"case": "tables"})
        ee = e(exp)
        if ee.symbol.value + ee.residual != exp:
            return ("tables.exponent", f"e({exp}) = {ee!r}", {"case": "tables"})
    return None


def run(ctx):
    ctx.run_bounded("prefix-tables", ["tables"], check_tables,
                    rule="21 prefixes and exponents -30..30, exhaustive", bound="finite, complete", key_of=repr)
    ctx.run_bounded("prefixed-vs-fraction", cases(ctx.tier, ctx.seed), check_pair,
                    rule="all 441 ordered prefix pairs x mantissa pairs (0, +-1, boundary values 999.5/1000/1000.5, "
                         "1-25 significant digits, both signs, trailing-zero and exponent forms, equal values written "
                         "with different prefixes); every comparison operator, hash, int, float, + - * neg abs scale "
                         "against fractions.Fraction; distinct = distinct (mantissa, prefix) pair; all non-trivial",
                    bound="441 prefix pairs x %d mantissa pairs" % (12 if ctx.tier == "thorough" else 5), key_of=repr)
    ctx.run_bounded("construction-routes", cases("quick", ctx.seed), check_routes,
                    rule="every quick-tier (mantissa, prefix) pair: the second number obtained from a USED first one by "
                         "copy-with-update, and by copy / deepcopy / pickle of a fresh one; equality, hash, int, float "
                         "and ordering must equal the fresh number's", bound="441 prefix pairs x 8 mantissa pairs",
                    key_of=repr)
    deductive(ctx)
    return INFO


# ------------------------------------------------------------------------------------------------ deductive part
def _prove_pairs(idxs):
    """worker: build and discharge the obligations of some prefix pairs -> light-weight results"""
    from contracts import c_prefix as cp
    from pyvc import solve
    pairs = cp.all_pairs()
    out = []
    for i in idxs:
        obs, covers, info = cp.obligations([pairs[i]])
        res = []
        for o in obs:
            solve.solve_one(o, 5000)
            res.append((o.name, o.status, o.solver, o.time_s))
        for c in covers:        # vacuity guard: the assumptions of this pair are satisfiable
            solve.solve_one(c, 5000)
            res.append((c.name, "cover-" + c.status, c.solver, c.time_s))
        out.append((i, res, {k: info.get(k) for k in ("paths", "scenarios", "unsupported", "sha", "lines", "path")}))
    return out


def replay_prefix(con, ob):
    """replay a failed comparison obligation on the real Prefixed class with decimal mantissas"""
    from decimal import Decimal, localcontext
    from fractions import Fraction
    from contracts import c_prefix as cp
    import hdl21 as h
    got = cp.decimal_model(ob)
    if got is None:
        return None
    p1, p2 = (h.prefix.Prefix[n] for n in ob.meta["prefixes"])

    def dec(q):
        with localcontext() as lc:
            lc.prec = 200
            return Decimal(q.numerator) / Decimal(q.denominator)
    a, b = h.Prefixed(number=dec(got[0]), prefix=p1), h.Prefixed(number=dec(got[1]), prefix=p2)
    inp = {"case": repr((str(a.number), p1.name, str(b.number), p2.name)), "witness_class": "comparison",
           "native": "clauses"}
    bad = native_clauses(a, b)
    if bad:
        return (True, f"{a!r} vs {b!r}: " + "; ".join(bad), inp)
    clause = ob.name.rsplit("/", 1)[-1]
    if clause in ("float-nearest", "same-value.hash"):
        # float() / hash() are uninterpreted in the encoding: the model's mantissas say nothing about where the real
        # functions disagree. The obligation held on the unchanged tree and fails now: reported without an input.
        return None
    if clause == "never-raises":
        return ("undecided", "a raising path is feasible in the encoding; the decimal model does not raise natively", inp)
    return (False, "the decimal model does not fail natively", inp)


replay_prefix.finds_own_model = True


def native_clauses(a, b):
    """the clauses of contracts/c_prefix.py evaluated on the real objects -> list of failing clause descriptions"""
    from fractions import Fraction
    import operator as op
    L = Fraction(a.number) * Fraction(10) ** a.prefix.value
    R = Fraction(b.number) * Fraction(10) ** b.prefix.value
    T = Fraction(10) ** (max(a.prefix.value, b.prefix.value) - 20)
    ops = {"lt": op.lt, "le": op.le, "eq": op.eq, "ne": op.ne, "gt": op.gt, "ge": op.ge}
    mirror = {"lt": "gt", "le": "ge", "eq": "eq", "ne": "ne", "gt": "lt", "ge": "le"}
    bad = []
    try:
        r = {k: f(a, b) for k, f in ops.items()}
        q = {k: f(b, a) for k, f in ops.items()}
    except Exception as e:
        return [f"comparison raises {type(e).__name__}"]
    for k, f in ops.items():
        if abs(L - R) > T and r[k] != f(L, R):
            bad.append(f"agreement: {k} is {r[k]}, exact values give {f(L, R)}")
        if L == R and r[k] != (k in ("eq", "le", "ge")):
            bad.append(f"same-value: {k} is {r[k]}")
        if r[k] != q[mirror[k]]:
            bad.append(f"swap: a {k} b is {r[k]} but b {mirror[k]} a is {q[mirror[k]]}")
    if sum([r["lt"], r["eq"], r["gt"]]) != 1 or r["le"] != (r["lt"] or r["eq"]) or r["ge"] != (r["gt"] or r["eq"]) \
            or r["ne"] != (not r["eq"]):
        bad.append(f"relations: {r}")
    try:
        if L == R and hash(a) != hash(b):
            bad.append("same value, different hashes")
        if int(a) != int(L):
            bad.append(f"int() is {int(a)}, integer part is {int(L)}")
        if float(a) != float(L):
            bad.append(f"float() is {float(a)!r}, nearest float is {float(L)!r}")
    except Exception as e:
        bad.append(f"hash/int/float raises {type(e).__name__}")
    return bad


def deductive(ctx):
    from multiprocessing import Pool
    from contracts import c_prefix as cp
    n = len(cp.all_pairs())
    chunks = [list(range(i, min(i + 3, n))) for i in range(0, n, 3)]
    parts, failing = [], 0
    with Pool(min(16, os.cpu_count() or 1)) as pool:
        for part in pool.imap_unordered(_prove_pairs, chunks):
            parts.append(part)
            failing += sum(1 for i, res, info in part
                           if any(st not in ("proved", "cover-failed") for _, st, _, _ in res))
            if failing >= 6:
                # enough evidence of a violation: the remaining pairs are not needed to report it (and sat / hard
                # queries are slow); coverage of this run is partial and says so below
                pool.terminate()
                break
    partial = len(parts) < len(chunks)
    fr = {"function": cp.KEY + ".__lt__/__le__/__eq__/__ne__/__gt__/__ge__/__hash__/__int__/__float__ "
                      "(+ _rounded_to_smaller, to_prefixed, exact inlined)", "scenarios": 0, "paths": 0,
          "obligations": 0, "discharged": 0, "status": "proved", "kind": "relational"}
    redo = []
    for part in parts:
        for i, res, info in part:
            fr["scenarios"] += info["scenarios"] or 0
            fr["paths"] += info["paths"] or 0
            fr["sha"], fr["lines"], fr["file"] = info.get("sha"), info.get("lines"), info.get("path")
            for u in info["unsupported"] or []:
                ctx.unsupported.append((cp.KEY, u))
            bad = False
            for name, status, solver, ts in res:
                if status.startswith("cover-"):
                    if status != "cover-failed":      # `False` must be refutable, i.e. the assumptions satisfiable
                        ctx.checker_errors.append(f"vacuous assumptions for {name}: {status}")
                    continue
                if status == "proved":
                    ctx.obligations += 1
                    ctx.solver_s += ts
                    ctx.discharged += 1
                    fr["obligations"] += 1
                    fr["discharged"] += 1
                    ctx.by_backend[solver] = ctx.by_backend.get(solver, 0) + 1
                else:
                    bad = True
            if bad:
                redo.append(i)
    if fr["scenarios"] < n and not ctx.unsupported and not partial:
        ctx.checker_errors.append(f"only {fr['scenarios']} of {n} prefix pairs produced obligations")
    if fr["obligations"] < 20 * fr["scenarios"]:
        ctx.checker_errors.append(f"too few obligations for {fr['scenarios']} prefix pairs: {fr['obligations']}")
    ctx.functions.append(fr)
    # pairs with an obligation that did not verify: redone in this process so that the failure is reported with its
    # model and replayed natively (at most 6 pairs are reported in full)
    pairs = cp.all_pairs()
    for i in redo[:6]:
        obs, covers, info = cp.obligations([pairs[i]])
        ctx.discharge(obs, cp.KEY, info, replay=replay_prefix, timeout_ms=5000)
    ctx.assumptions += ["Fraction(Decimal) is exact for finite Decimals; NaN/infinite mantissas are outside the property",
                        "hash(Fraction) and float(Fraction) are functions of the rational value alone (CPython numeric "
                        "tower); float(Fraction) is correctly rounded",
                        "arithmetic (+ - * / scale) is NOT under contract: decimal's 28-digit context is outside the "
                        "theories; it is decided on the bounded family only"]


def replay(payload):
    inp = payload.get("input") or {}
    c = inp.get("case")
    if c and inp.get("routes"):
        r = check_routes(eval(c))
    elif c and inp.get("native") == "clauses":
        from hdl21.prefix import Prefix, Prefixed
        x, px, y, py = eval(c)
        r = native_clauses(Prefixed(number=Decimal(x), prefix=Prefix[px]), Prefixed(number=Decimal(y), prefix=Prefix[py]))
    elif c == "tables":
        r = check_tables(0)
    elif c:
        r = check_pair(eval(c))
    else:
        return 2
    print("replay:", r)
    return 1 if r else 0
