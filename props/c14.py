"""C14 - prefixed numbers are exact, totally ordered and hash-consistent."""
import itertools
import random
from decimal import Decimal
from fractions import Fraction

from pyvc import *
from contracts.common import *

INFO = {
    "level": "other",
    "explanation": "bounded evaluation of the run-time contract of every Prefixed operation against exact rational "
                   "arithmetic (fractions.Fraction) over all 441 ordered prefix pairs x a mantissa set; the prefix "
                   "tables (Prefix.from_exp / closest, export/import) by exhaustive evaluation; pyvc proves the "
                   "integer-level skeleton it can reach (Prefix.from_exp dispatch). Decimal context arithmetic and IEEE "
                   "rounding are outside the solver theories, so nothing numeric is claimed as proved.",
    "trusted_base": ["fractions.Fraction and decimal as reference arithmetic", "CPython float() of a Fraction is "
                     "correctly rounded"],
}


def exact(x):
    return Fraction(x.number) * Fraction(10) ** x.prefix.value


def mantissas(tier, rnd):
    base = ["0", "1", "-1", "2", "5", "10", "999.5", "1000", "1000.5", "0.001", "0.0009995", "1500", "-1500", "3",
            "0.5", "12345678901234567890", "1.000000000000000000001", "123456789.123456789", "-0.000123",
            "9999999999999999999999999", "1E+3", "1.50", "7E-7"]
    n = 60 if tier == "thorough" else 8
    for _ in range(n):
        digits = rnd.randint(1, 25)
        s = "".join(rnd.choice("0123456789") for _ in range(digits)).lstrip("0") or "0"
        pt = rnd.randint(0, len(s))
        s = (s[:pt] or "0") + ("." + s[pt:] if pt < len(s) else "")
        base.append(("-" if rnd.random() < 0.4 else "") + s)
    return base


def cases(tier, seed):
    from hdl21.prefix import Prefix
    rnd = random.Random(seed)
    ms = mantissas(tier, rnd)
    prefixes = list(Prefix)
    for pa in prefixes:
        for pb in prefixes:
            k = 10 if tier == "thorough" else 3
            picks = [(ms[i % len(ms)], ms[(i * 7 + 3) % len(ms)]) for i in
                     (rnd.randrange(len(ms) * 13) for _ in range(k))]
            # always include the boundary pair 1000*m vs 1*UNIT style: equal values written differently
            picks.append(("1000", "1"))
            picks.append(("1", "1"))
            # values closer than the comparison tolerance (in either order): the six operators must stay consistent
            picks.append(("1", "1.0000000000000000000001"))
            picks.append(("-2.00000000000000000000004", "-2"))
            picks.append(("1", "1.00000000000000000002"))
            for a, b in picks:
                yield (a, pa.name, b, pb.name)


TOL = Fraction(1, 10 ** 20)


def check_pair(case):
    from hdl21.prefix import Prefix, Prefixed
    a, pa, b, pb = case
    x = Prefixed(number=Decimal(a), prefix=Prefix[pa])
    y = Prefixed(number=Decimal(b), prefix=Prefix[pb])
    ex, ey = exact(x), exact(y)
    w = {"case": repr(case)}
    # comparisons: total (never raise), consistent, agree with exact values beyond the tolerance
    try:
        lt, le, eq, ne, gt, ge = x < y, x <= y, x == y, x != y, x > y, x >= y
    except Exception as e:
        return ("compare.raises." + type(e).__name__, f"comparing {x!r} with {y!r} raises {type(e).__name__}", w)
    if sum([lt, eq, gt]) != 1 or le != (lt or eq) or ge != (gt or eq) or ne != (not eq):
        return ("compare.trichotomy", f"{x!r} vs {y!r}: lt={lt} le={le} eq={eq} ne={ne} gt={gt} ge={ge}", w)
    # documented tolerance: "20 decimal places in their SI unit" - read leniently as the larger of the two units
    unit = max(Prefix[pa].value, Prefix[pb].value)
    if abs(ex - ey) > TOL * Fraction(10) ** unit * 2 or ex == ey:
        if lt != (ex < ey) or gt != (ex > ey) or eq != (ex == ey):
            return ("compare.exact", f"{x!r} vs {y!r}: lt={lt} eq={eq} gt={gt} but exact values are {ex} and {ey}", w)
    if ex == ey:
        if not eq:
            return ("eq.same-value", f"{x!r} and {y!r} denote the same value but compare unequal", w)
        try:
            if hash(x) != hash(y):
                return ("hash.same-value", f"{x!r} == {y!r} but their hashes differ", w)
        except Exception as e:
            return ("hash.raises", f"hash raises {type(e).__name__}", w)
    # int / float
    try:
        ix = int(x)
        if ix != int(ex) or not isinstance(ix, int):
            return ("int.value", f"int({x!r}) == {ix!r}, integer part of the value is {int(ex)}", w)
    except Exception as e:
        return ("int.raises." + type(e).__name__, f"int({x!r}) raises {type(e).__name__}: {e}", w)
    try:
        fx = float(x)
        if fx != float(ex):
            return ("float.nearest", f"float({x!r}) == {fx!r}, nearest float of the value is {float(ex)!r}", w)
    except OverflowError:
        pass
    except Exception as e:
        return ("float.raises." + type(e).__name__, f"float({x!r}) raises {type(e).__name__}", w)
    # arithmetic
    ops = [("add", lambda: x + y, ex + ey), ("sub", lambda: x - y, ex - ey), ("mul", lambda: x * y, ex * ey),
           ("neg", lambda: -x, -ex), ("abs", lambda: abs(x), abs(ex)),
           ("scale", lambda: x.scale(Prefix[pb]), ex)]
    for name, f, want in ops:
        try:
            r = f()
        except Exception as e:
            if name in ("add", "sub", "mul") and (ex == 0 or ey == 0 or want == 0):
                # scale() of a zero result takes log10(0)
                return (f"{name}.raises-on-zero", f"{name} of {x!r}, {y!r} raises {type(e).__name__}", w)
            return (f"{name}.raises." + type(e).__name__, f"{name} of {x!r}, {y!r} raises {type(e).__name__}: {e}", w)
        if not isinstance(r, Prefixed):
            return (f"{name}.type", f"{name} returned {type(r).__name__}", w)
        if exact(r) != want:
            def sig_digits(fr):
                n, d = fr.numerator, fr.denominator
                k = 0
                while d % 10 == 0:
                    d //= 10
                while d != 1:           # d divides a power of ten: scale up to an integer
                    if d % 2 == 0:
                        n, d = n * 5, d // 2
                    elif d % 5 == 0:
                        n, d = n * 2, d // 5
                    else:
                        return 99
                return len(str(abs(n)).rstrip("0")) or 1
            small = Fraction(10) ** min(Prefix[pa].value, Prefix[pb].value)
            need = max(sig_digits(want), sig_digits(ex / small) if name in ("add", "sub") else 0,
                       sig_digits(ey / small) if name in ("add", "sub") else 0)
            cls = "needs-more-than-28-digits" if need > 28 else "inexact"
            return (f"{name}.{cls}", f"{name} of {x!r}, {y!r} gives {r!r} = {exact(r)}, exact result is {want}", w)
    return None


def check_tables(_):
    from hdl21.prefix import Prefix, e
    for p in Prefix:
        if Prefix.from_exp(p.value) is not p:
            return ("tables.from_exp", f"from_exp({p.value}) is not {p}", {"case": "tables"})
        if Prefix.closest(p.value) is not p:
            return ("tables.closest", f"closest({p.value}) is not {p}", {"case": "tables"})
    for exp in range(-30, 31):
        c = Prefix.closest(exp)
        best = min(abs(q.value - exp) for q in Prefix)
        if abs(c.value - exp) != best:
            return ("tables.closest-argmin", f"closest({exp}) = {c}", {"case": "tables"})
        if (Prefix.from_exp(exp) is None) != (exp not in [q.value for q in Prefix]):
            return ("tables.from_exp-partial", f"from_exp({exp})", {"case": "tables"})
        ee = e(exp)
        if ee.symbol.value + ee.residual != exp:
            return ("tables.exponent", f"e({exp}) = {ee!r}", {"case": "tables"})
    return None


def run(ctx):
    ctx.run_bounded("prefix-tables", ["tables"], check_tables,
                    rule="21 prefixes and exponents -30..30, exhaustive", bound="finite, complete", key_of=repr)
    ctx.run_bounded("prefixed-vs-fraction", cases(ctx.tier, ctx.seed), check_pair,
                    rule="all 441 ordered prefix pairs x mantissa pairs (0, +-1, boundary values 999.5/1000/1000.5, "
                         "1-25 significant digits, both signs, trailing-zero and exponent forms, equal values written "
                         "with different prefixes); every comparison operator, hash, int, float, + - * neg abs scale "
                         "against fractions.Fraction; distinct = distinct (mantissa, prefix) pair; all non-trivial",
                    bound="441 prefix pairs x %d mantissa pairs" % (12 if ctx.tier == "thorough" else 5), key_of=repr)
    ctx.obligations, ctx.discharged = 0, 0
    return INFO


def replay(payload):
    inp = payload.get("input") or {}
    c = inp.get("case")
    if c == "tables":
        r = check_tables(0)
    elif c:
        r = check_pair(eval(c))
    else:
        return 2
    print("replay:", r)
    return 1 if r else 0
