"""C12 - output is reproducible across processes."""
import ast
import hashlib
import json
import os
import subprocess
import sys

from pyvc import *
from contracts.common import *

INFO = {
    "level": "other",
    "explanation": "static determinism obligations (re-derived from the AST each run): no hash-ordered iteration over "
                   "a set-typed field reaches an order-sensitive sink in hdl21/elab, hdl21/proto, hdl21/params.py; no "
                   "id()/hash() flows into generated names; plus a bounded multi-process run: every design of the "
                   "family exported and netlisted (spice, spectre, verilog) under several PYTHONHASHSEED values with "
                   "randomised unrelated work first, all digests compared",
    "trusted_base": ["CPython: dict order is insertion order, set order is unspecified", "protobuf deterministic "
                     "serialisation"],
}
ROOT = os.path.dirname(os.path.dirname(os.path.abspath(__file__)))
SET_ATTRS = {"_connected_ports", "_slices", "_concats", "_related_clk_of", "_related_pwr_of", "_related_gnd_of",
             "pending", "done"}
ORDERING = {"sorted", "ordered_ports"}


def _set_valued(e):
    """the expression is syntactically a set: a set display / comprehension, `set(..)` / `frozenset(..)`, or set algebra
    (`-`, `|`, `&`, `^`) with a `.keys()` / `.items()` view or one of the above on either side -> a short label, or None"""
    if isinstance(e, (ast.Set, ast.SetComp)):
        return "set-display"
    if isinstance(e, ast.Call) and isinstance(e.func, ast.Name) and e.func.id in ("set", "frozenset"):
        return e.func.id + "()"
    if isinstance(e, ast.BinOp) and isinstance(e.op, (ast.Sub, ast.BitOr, ast.BitAnd, ast.BitXor)):
        for side in (e.left, e.right):
            view = isinstance(side, ast.Call) and isinstance(side.func, ast.Attribute) and side.func.attr in ("keys", "items")
            if view or _set_valued(side):
                return "set-algebra"
    return None


def det_audit():
    """-> (obligations, failures): one obligation per loop/comprehension over a set-typed field."""
    from pyvc import loader
    obligations, failures = [], []
    files = []
    for sub in ("elab", "proto"):
        for dp, _, fs in os.walk(os.path.join(loader.REPO, "hdl21", sub)):
            files += [os.path.join(dp, f) for f in fs if f.endswith(".py")]
    files += [os.path.join(loader.REPO, "hdl21", f) for f in ("params.py", "flatten.py", "generator.py", "qualname.py")]
    for path in files:
        tree = ast.parse(open(path).read())
        for n in ast.walk(tree):
            iters = []
            if isinstance(n, ast.For):
                iters.append((n.iter, n))
            elif isinstance(n, (ast.ListComp, ast.SetComp, ast.DictComp, ast.GeneratorExp)):
                iters += [(g.iter, n) for g in n.generators]
            for it, node in iters:
                core = it
                wrapped = False
                while isinstance(core, ast.Call) and isinstance(core.func, ast.Name) and core.args:
                    if core.func.id in ORDERING:
                        wrapped = True
                    core = core.args[0]
                setexpr = _set_valued(core)
                if not (isinstance(core, ast.Attribute) and core.attr in SET_ATTRS) and not setexpr:
                    continue
                name = f"det/{os.path.relpath(path, loader.REPO)}:{node.lineno}/{setexpr or core.attr}"
                obligations.append(name)
                if wrapped:
                    continue
                # unordered iteration: the body may only write into the loop element itself or into locals
                ok = isinstance(node, ast.For) and isinstance(node.target, ast.Name)
                if ok:
                    var = node.target.id
                    for st in node.body:
                        for sub in ast.walk(st):
                            if isinstance(sub, ast.Call):
                                f = sub.func
                                pure = isinstance(f, ast.Name) and f.id in ("list", "tuple", "len", "isinstance", "hasattr")
                                # adding to a set commutes: whatever order the elements come in, the set ends up the same
                                commutes = isinstance(f, ast.Attribute) and f.attr in ("add", "discard") and \
                                    isinstance(f.value, ast.Attribute) and f.value.attr in SET_ATTRS
                                if not (pure or commutes):
                                    ok = False
                            if isinstance(sub, ast.Attribute) and isinstance(sub.ctx, ast.Store):
                                if not (isinstance(sub.value, ast.Name) and sub.value.id == var):
                                    ok = False
                if not ok:
                    failures.append(name)
        # taint: no id()/hash() inside name generation
        if path.endswith("params.py") or path.endswith("qualname.py"):
            for fn in ast.walk(tree):
                if isinstance(fn, ast.FunctionDef) and fn.name in ("_unique_name", "hdl21_naming_encoder", "qualname",
                                                                  "qualpath"):
                    name = f"det/{os.path.relpath(path, loader.REPO)}:{fn.name}/no-id-or-hash"
                    obligations.append(name)
                    for sub in ast.walk(fn):
                        if isinstance(sub, ast.Call) and isinstance(sub.func, ast.Name) and sub.func.id in ("id", "hash"):
                            failures.append(name)
    return obligations, failures


_LIB = {}


def lib():
    """a small cell library made of generators (results cached by the library, one object per process): used BOTH by the
    earlier unrelated work and by the designs under test, as shared IP would be"""
    if _LIB:
        return _LIB
    import hdl21 as h

    @h.paramclass
    class LP:
        k = h.Param(dtype=int, desc="k", default=1)

    @h.bundle
    class Pair2:
        a = h.Signal()
        b = h.Signal(width=2)

    @h.generator
    def LibInv(p: LP) -> h.Module:
        m = h.Module()
        m.i, m.o, m.vdd, m.vss = h.Input(), h.Output(), h.Inout(), h.Inout()
        m.n = h.Nmos(w=p.k * h.prefix.µ, l=1 * h.prefix.µ)(d=m.o, g=m.i, s=m.vss, b=m.vss)
        m.p = h.Pmos(w=2 * p.k * h.prefix.µ, l=1 * h.prefix.µ)(d=m.o, g=m.i, s=m.vdd, b=m.vdd)
        return m

    @h.generator
    def LibStage(p: LP) -> h.Module:
        m = h.Module()
        m.inp = Pair2(port=True)
        m.out = Pair2(port=True)
        m.r = h.R(r=p.k)(p=m.inp.a, n=m.out.a)
        E = h.ExternalModule(name="LibW2", port_list=[h.Inout(name="x", width=2), h.Inout(name="y", width=2)], desc="", domain="lib")
        m.e = E()(x=m.inp.b, y=m.out.b)
        return m
    from typing import Optional

    @h.paramclass
    class LT:
        k = h.Param(dtype=int, desc="k", default=1)
        tag = h.Param(dtype=Optional[str], desc="free-text revision tag", default=None)
        note = h.Param(dtype=Optional[str], desc="another", default=None)

    @h.generator
    def LibTagged(p: LT) -> h.Module:
        m = h.Module()
        m.a, m.b = h.Port(), h.Port()
        m.r = h.R(r=p.k)(p=m.a, n=m.b)
        return m
    _LIB.update(LibInv=LibInv, LibStage=LibStage, Pair2=Pair2, LibTagged=LibTagged)
    return _LIB


def extra_designs():
    """order-sensitive shapes: one connectable feeding several ports of one instance"""
    import hdl21 as h

    def shared_inv_compiled():
        # a library cell that earlier work in the process may have elaborated / exported already, compiled to a PDK here
        import hdl21.pdk.sample_pdk as sp
        Inv = lib()["LibInv"](k=1)
        T = h.Module(name="SharedInvTop")
        T.a, T.b, T.vdd, T.vss = h.Signals(4)
        T.x = Inv(i=T.a, o=T.b, vdd=T.vdd, vss=T.vss)
        T.y = lib()["LibInv"](k=2)(i=T.b, o=T.a, vdd=T.vdd, vss=T.vss)
        sp.compile(T)
        return T
    yield ("det/history/shared-cell/compiled-here", shared_inv_compiled)

    def shared_stage_by_portref():
        # a library cell with bundle-valued ports, wired to its twin through port references by a NEW parent
        Stage = lib()["LibStage"](k=1)
        T = h.Module(name="SharedStageTop")
        T.first = lib()["Pair2"]()
        T.s1 = Stage(inp=T.first)
        T.s2 = Stage(inp=T.s1.out)
        T.s3 = lib()["LibStage"](k=2)(inp=T.s2.out)
        T.last = lib()["Pair2"]()
        T.s3.out = T.last
        return T
    yield ("det/history/shared-cell/bundle-ports-by-portref", shared_stage_by_portref)

    def tagged_cells():
        # a library cell with optional free-text parameters: earlier work in the process used it with the text unset
        T = h.Module(name="TaggedTop")
        T.a, T.b = h.Signals(2)
        for k, (tag, note) in enumerate((("rev b", None), (None, "a=b"), ("None", None), ("plain", None), (None, None),
                                         ("x", "two words"), ("", "="))):
            T.add(lib()["LibTagged"](k=3, tag=tag, note=note)(a=T.a, b=T.b), name=f"t{k}")
        return T
    yield ("det/history/shared-cell/optional-text-params", tagged_cells)

    def stacks():
        # built-in generators over units with several parallel ports (gate and bulk; five in the custom unit)
        from hdl21.generators import Series, MosStack
        U5 = h.Module(name="Unit5")
        U5.i, U5.o = h.Input(), h.Output()
        U5.p1, U5.p2, U5.p3, U5.p4, U5.p5 = h.Port(), h.Port(), h.Port(width=2), h.Port(), h.Port()
        U5.r = h.R(r=1)(p=U5.i, n=U5.o)
        T = h.Module(name="StackTop")
        T.a, T.b, T.c, T.d = h.Signals(4)
        T.w2 = h.Signal(width=2)
        T.m3 = MosStack(unit=h.Nmos(), nser=3)(d=T.a, g=T.b, s=T.c, b=T.d)
        T.m2 = MosStack(unit=h.Pmos(w=2 * h.prefix.µ), nser=2)(d=T.a, g=T.b, s=T.c, b=T.d)
        T.s4 = Series(unit=U5, conns=("i", "o"), nser=4)(i=T.a, o=T.b, p1=T.c, p2=T.d, p3=T.w2, p4=T.c, p5=T.d)
        return T
    yield ("det/history/stacks-with-parallel-ports", stacks)

    def shared_stage_noconn():
        # the library's bundle-ported cell with one bundle port left open, the other reached through a port reference
        T = h.Module(name="SharedStageNc")
        T.first = lib()["Pair2"]()
        T.s1 = lib()["LibStage"](k=1)(inp=T.first, out=h.NoConn())
        T.s2 = lib()["LibStage"](k=2)(inp=h.NoConn(name="open_in"))
        T.s3 = lib()["LibStage"](k=2)(inp=T.s2.out, out=h.NoConn())
        return T
    yield ("det/history/shared-cell/bundle-ports-no-connect", shared_stage_noconn)

    def opaque_params():
        # parameter values of types the library knows nothing about (a plain object, a function, a class): refused or
        # named - the same way in every process
        from typing import Any

        @h.paramclass
        class OP:
            tech = h.Param(dtype=Any, desc="anything", default=None)
            n = h.Param(dtype=int, desc="n", default=1)

        @h.generator
        def Amp(p: OP) -> h.Module:
            m = h.Module()
            m.a = h.Port()
            m.r = h.R(r=p.n)(p=m.a, n=m.a)
            return m

        class Tech:
            pass

        def corner():
            return 1
        T = h.Module(name="OpaqueTop")
        T.s = h.Signal()
        outcomes = []
        for k, v in enumerate((Tech(), corner, Tech, slice(1, 2), range(3), object())):
            try:
                T.add(Amp(tech=v, n=k + 1)(a=T.s), name=f"a{k}")
                outcomes.append("ok")
            except Exception as e:
                import re
                outcomes.append(type(e).__name__ + ":" + re.sub(r"0x[0-9a-fA-F]+", "ADDR", str(e))[:60])
        T.add(h.R(r=len(outcomes))(p=T.s, n=T.s), name="marker_" + "_".join(o.split(":")[0] for o in outcomes))
        return T
    yield ("det/history/opaque-parameter-values", opaque_params)

    def flattened():
        # hdl21.flatten over a hierarchy that leaves several internal nets at several levels
        from hdl21.flatten import flatten
        leaf = h.Module(name="FlLeaf")
        leaf.a, leaf.b = h.Port(), h.Port()
        for k in range(5):
            leaf.add(h.Signal(), name=f"n{k}")
        prev = leaf.a
        for k in range(5):
            leaf.add(h.R(r=k + 1)(p=prev, n=leaf.get(f"n{k}")), name=f"r{k}")
            prev = leaf.get(f"n{k}")
        leaf.rl = h.R(r=9)(p=prev, n=leaf.b)
        mid = h.Module(name="FlMid")
        mid.a, mid.b = h.Port(), h.Port()
        mid.x, mid.y, mid.z = h.Signals(3)
        mid.l1, mid.l2, mid.l3, mid.l4 = leaf(a=mid.a, b=mid.x), leaf(a=mid.x, b=mid.y), leaf(a=mid.y, b=mid.z), leaf(a=mid.z, b=mid.b)
        top = h.Module(name="FlTop")
        top.p, top.q = h.Port(), h.Port()
        top.w = h.Signal()
        top.m1, top.m2 = mid(a=top.p, b=top.w), mid(a=top.w, b=top.q)
        return flatten(top)
    yield ("det/history/flattened-hierarchy", flattened)

    def targetless_compile():
        # several PDKs registered, none set as default: a compile without a target is refused - the same way in every process
        import hdl21.pdk as hp
        import hdl21.pdk.sample_pdk as _sp  # noqa: F401
        from pyvc import loader
        for d_ in ("Sky130", "Gf180", "Asap7"):
            p_ = os.path.join(loader.REPO, "pdks", d_)
            if p_ not in sys.path:
                sys.path.append(p_)
        import sky130_hdl21, gf180_hdl21, asap7_hdl21  # noqa: F401,E401
        old = hp.pdk._mgr.default
        hp.pdk._mgr.default = None
        m = h.Module(name="Targetless")
        m.d, m.g, m.s, m.b = h.Signals(4)
        m.n = h.Nmos()(d=m.d, g=m.g, s=m.s, b=m.b)
        try:
            hp.compile(m)
            outcome = "compiled"
        except Exception as e:
            outcome = type(e).__name__
        finally:
            hp.pdk._mgr.default = old
        top = h.Module(name="TargetlessTop")
        top.add(h.Signal(), name=f"outcome_{outcome}")
        top.add(h.Signal(), name="device_" + "".join(c_ if c_.isalnum() else "_" for c_ in str(getattr(getattr(m.n.of, "module", None), "name", "generic"))))
        if outcome == "compiled":
            top.i = m()
        return top
    yield ("det/history/targetless-compile-with-several-pdks", targetless_compile)

    def imported_cells():
        # "load a package, use what it declares": the design under test is what from_proto makes of a package declaring a cell
        # that packages imported earlier in the process may have declared differently
        E = h.ExternalModule(name="ImpCell", port_list=[h.Inout(name="a"), h.Inout(name="x"), h.Inout(name="vss")], desc="", domain="c12imp")
        m = h.Module(name="ImpUser")
        m.p, m.q, m.g = h.Signal(), h.Signal(), h.Signal()
        m.u1 = E()(a=m.p, x=m.q, vss=m.g)
        m.u2 = E()(a=m.q, x=m.p, vss=m.g)
        pkg = h.to_proto(m)
        ns = h.from_proto(pkg)
        import types

        def find(n_):
            for v in vars(n_).values():
                if isinstance(v, h.Module) and v.name == "ImpUser":
                    return v
                if isinstance(v, types.SimpleNamespace):
                    r = find(v)
                    if r is not None:
                        return r
        return find(ns)
    yield ("det/history/imported-cells", imported_cells)

    def set_valued_params():
        # generator parameters holding sets (no order of their own): the generated names must not follow iteration order
        from typing import FrozenSet

        @h.paramclass
        class TagP:
            tags = h.Param(dtype=FrozenSet[str], desc="tags", default=frozenset())
            nums = h.Param(dtype=FrozenSet[int], desc="nums", default=frozenset())
            nested = h.Param(dtype=FrozenSet[FrozenSet[str]], desc="nested", default=frozenset())

        @h.generator
        def Tagged(p: TagP) -> h.Module:
            m = h.Module()
            m.a = h.Port()
            m.r = h.R(r=len(p.tags) + 1)(p=m.a, n=m.a)
            return m
        T = h.Module(name="TaggedTop")
        T.s = h.Signal()
        T.x = Tagged(tags=frozenset({"alpha", "beta", "gamma", "delta", "epsilon"}))(a=T.s)
        T.y = Tagged(tags=frozenset({"vdd", "vss"}), nums=frozenset({3, 1, 2 ** 40, -7}))(a=T.s)
        T.z = Tagged(nested=frozenset({frozenset({"a", "b"}), frozenset({"c"}), frozenset({"d", "e", "f"}), frozenset({"g"}),
                                       frozenset({"h", "i"}), frozenset()}))(a=T.s)
        return T
    yield ("det/history/set-valued-generator-params", set_valued_params)

    def multi_bundle(n):
        def b():
            @h.bundle
            class B:
                x = h.Signal()
                y = h.Signal()
            C = h.Module(name="MC")
            for k in range(n):
                C.add(B(port=True), name=f"b{k}")
            for k in range(n):
                C.add(h.R(r=1)(p=getattr(C, f"b{k}").x, n=getattr(C, f"b{(k + 1) % n}").y), name=f"r{k}")
            T = h.Module(name="MT")
            T.b = B()
            T.c = C(**{f"b{k}": T.b for k in range(n)})
            T.s = h.Signal()
            T.c2 = C(**{f"b{k}": h.AnonymousBundle(x=T.b.x, y=T.s) for k in range(n)})
            return T
        return b

    def multi_ref(n):
        def b():
            E = h.ExternalModule(name="EN", port_list=[h.Inout(name=f"p{k}") for k in range(n)], desc="", domain="d")
            T = h.Module(name="RT")
            T.i0 = E()
            T.i1 = E()(**{f"p{k}": T.i0.p0 for k in range(n)})
            T.i0(**{f"p{k}": T.i1.p1 for k in range(1, n)})
            return T
        return b
    for n in (2, 3, 4, 5):
        yield (f"det/multi_bundle/{n}", multi_bundle(n))
        yield (f"det/multi_ref/{n}", multi_ref(n))

    # designs whose output must not depend on what ELSE the process did before: numeric parameters that have equal
    # values written differently elsewhere, and a PDK compile (walkers, device caches)
    def numeric_params():
        T = h.Module(name="NumT")
        T.a, T.b = h.Signal(), h.Signal()
        T.r = h.R(r=1 * h.prefix.K)(p=T.a, n=T.b)
        T.c = h.C(c=1 * h.prefix.µ)(p=T.a, n=T.b)
        T.v = h.Vdc(dc=2, ac=0)(p=T.a, n=T.b)
        T.l = h.L(l=h.Prefixed(number=__import__("decimal").Decimal("2.50"), prefix=h.Prefix.NANO))(p=T.a, n=T.b)
        E = h.ExternalModule(name="ENum", port_list=[h.Inout(name="p")], paramtype=dict, desc="", domain="d")
        T.e = E(x=1000, y=2.0, z=3)(p=T.a)
        return T
    yield ("det/history/numeric-params", numeric_params)

    def sample_compiled():
        import hdl21.pdk.sample_pdk as sp
        Inv = h.Module(name="PInv")
        Inv.i, Inv.o, Inv.vdd, Inv.vss = h.Input(), h.Output(), h.Inout(), h.Inout()
        Inv.n = h.Nmos(w=1 * h.prefix.µ, l=1 * h.prefix.µ)(d=Inv.o, g=Inv.i, s=Inv.vss, b=Inv.vss)
        Inv.p = h.Pmos(w=2 * h.prefix.µ, l=1 * h.prefix.µ)(d=Inv.o, g=Inv.i, s=Inv.vdd, b=Inv.vdd)
        T = h.Module(name="PTop")
        T.a, T.b, T.vdd, T.vss = h.Signals(4)
        T.x = Inv(i=T.a, o=T.b, vdd=T.vdd, vss=T.vss)
        T.y = Inv(i=T.b, o=T.a, vdd=T.vdd, vss=T.vss)
        sp.compile(T)
        return T
    yield ("det/history/sample-pdk-compiled", sample_compiled)

    def sample_compiled_many(n):
        def b():
            import hdl21.pdk.sample_pdk as sp
            cells = []
            for k in range(n):
                C = h.Module(name=f"PCell{k}")
                C.i, C.o, C.vdd, C.vss = h.Input(), h.Output(), h.Inout(), h.Inout()
                C.mid = h.Signal()
                C.p = h.Pmos(w=(2 + k) * h.prefix.µ)(d=C.mid, g=C.i, s=C.vdd, b=C.vdd)
                C.n = h.Nmos(w=(1 + k) * h.prefix.µ)(d=C.mid, g=C.i, s=C.vss, b=C.vss)
                C.pd = h.Nmos(w=4 * h.prefix.µ, l=(2 + k) * h.prefix.µ)(d=C.o, g=C.mid, s=C.vss, b=C.vss)
                cells.append(C)
            T = h.Module(name=f"PTopMany{n}")
            T.a, T.b, T.vdd, T.vss = h.Signals(4)
            for k, C in enumerate(cells):
                T.add(C(i=T.a if k % 2 else T.b, o=T.b if k % 2 else T.a, vdd=T.vdd, vss=T.vss), name=f"u{k}")
            sp.compile(T)
            return T
        return b
    for n in (1, 2, 3, 5, 8):
        yield (f"det/history/sample-pdk-compiled-many/{n}", sample_compiled_many(n))

    def inexact_arith():
        # parameter values computed by inexact prefixed arithmetic (depends on the decimal context in force)
        T = h.Module(name="ArithT")
        T.a, T.b = h.Signal(), h.Signal()
        w = (1 * h.prefix.µ) / 3
        T.r = h.R(r=(10 * h.prefix.K) / 7)(p=T.a, n=T.b)
        T.c = h.C(c=w * 3)(p=T.a, n=T.b)
        T.l = h.L(l=(1 * h.prefix.n) / 3 + 1 * h.prefix.p)(p=T.a, n=T.b)
        return T
    yield ("det/history/inexact-arithmetic", inexact_arith)

    def wrapped():
        from hdl21.generators import Wrapper, Series, MosStack
        Inv = h.Module(name="Inv")
        Inv.i, Inv.o = h.Input(), h.Output()
        Inv.r = h.R(r=1)(p=Inv.i, n=Inv.o)
        T = h.Module(name="WrapT")
        T.a, T.b, T.c = h.Signals(3)
        T.w = Wrapper(Inv)(i=T.a, o=T.b)
        T.s = Series(unit=Inv, conns=("i", "o"), nser=1)(i=T.b, o=T.c)
        T.s3 = Series(unit=Inv, conns=("i", "o"), nser=3)(i=T.a, o=T.c)
        T.m = MosStack(unit=h.Nmos(), nser=1)(d=T.a, g=T.b, s=T.c, b=T.c)
        return T
    yield ("det/history/wrappers", wrapped)

    def generator_reuse(window):
        # one generated cell asked for twice in a design, with `window` other generator calls in between: whether both
        # requests are the same module must not depend on how many generator calls the process made before
        def b():
            @h.paramclass
            class RP:
                k = h.Param(dtype=int, desc="k", default=0)

            @h.generator
            def ReCell(p: RP) -> h.Module:
                m = h.Module()
                m.a = h.Port()
                m.r = h.R(r=1 + p.k)(p=m.a, n=m.a)
                return m
            T = h.Module(name=f"ReuseT{window}")
            T.s = h.Signal()
            T.u0 = ReCell(k=0)(a=T.s)
            for k in range(window):
                c = ReCell(k=k + 1)
                if k % 50 == 0:
                    T.add(c(a=T.s), name=f"f{k}")
            T.u1 = ReCell(k=0)(a=T.s)
            return T
        return b
    for window in (40, 150, 400):
        yield (f"det/history/generator-reuse/{window}", generator_reuse(window))


def unrelated_work(rnd, rounds):
    """earlier, unrelated use of the library in this process: exports and netlists of throw-away designs carrying
    numbers EQUAL to the family's but written differently, PDK compiles of throw-away designs (freed afterwards, so that
    later objects may reuse their addresses), elaborations"""
    import gc
    import io
    import hdl21 as h
    from decimal import Decimal as D
    import hdl21.pdk.sample_pdk as sp
    alts = [[1000, 1 * h.prefix.K, 1000 * h.prefix.UNIT, 1e3, D("1000"), D("1E+3")],
            [1 * h.prefix.µ, 1000 * h.prefix.n, D("0.000001"), 1e-6],
            [2, 2.0, D("2"), D("2.0"), 2 * h.prefix.UNIT], [D("2.5") * 1, h.Prefixed(number=D("2.5"), prefix=h.Prefix.NANO),
                                                          h.Prefixed(number=D("2500"), prefix=h.Prefix.PICO)],
            [3, 3.0, D("3.00")], [0, 0.0, D("0")]]
    @h.paramclass
    class JunkP:
        k = h.Param(dtype=int, desc="k", default=0)

    @h.generator
    def JunkGen(p: JunkP) -> h.Module:
        m = h.Module()
        m.a = h.Port()
        return m
    # earlier work that IMPORTS packages declaring cells of the same (domain, name) as the design's, with the same port names
    # in another order / other directions and widths
    try:
        import vlsir.circuit_pb2 as vckt
        for variant in range(min(rounds, 2)):
            jp = vckt.Package(domain="junkimport")
            em = jp.ext_modules.add()
            em.name.domain, em.name.name = "c12imp", "ImpCell"
            order = ["vss", "x", "a"] if variant == 0 else ["x", "a", "vss"]
            for n_ in order:
                em.signals.add(name=n_, width=1)
                em.ports.add(signal=n_, direction=vckt.Port.Direction.INPUT if variant else vckt.Port.Direction.NONE)
            jm = jp.modules.add(name="junkimport.User")
            for n_ in order:
                jm.signals.add(name=n_, width=1)
            ji = jm.instances.add(name="u")
            ji.module.external.domain, ji.module.external.name = "c12imp", "ImpCell"
            for n_ in order:
                c_ = ji.connections.add(portname=n_)
                c_.target.sig = n_
            ns_ = h.from_proto(jp)
            h.to_proto(ns_.junkimport.User)
    except Exception:
        pass
    # the library's bundle-ported cells are first touched by an attempt that FAILS; in every second process that is all the
    # earlier work they see (in the others a successful export follows)
    for rd in range(min(rounds, 2)):
        L = lib()
        # an attempt that FAILS late (array widths, found after bundles were flattened) on a design using the library's
        # bundle-ported cell: the cell is left partly processed, and stays usable
        try:
            Bad = h.Module(name=f"LibBad{rd}")
            Bad.p, Bad.q = L["Pair2"](), L["Pair2"]()
            Bad.st = L["LibStage"](k=1)(inp=Bad.p, out=Bad.q)
            Bad.st2 = L["LibStage"](k=2)(inp=Bad.q, out=h.NoConn())
            Bad.w3 = h.Signal(width=3)
            Bad.arr = 2 * h.R(r=1)(p=Bad.w3, n=Bad.w3)
            h.elaborate(Bad) if rd else h.to_proto(Bad)
        except Exception:
            pass
    # shared library cells used by earlier designs: elaborated, exported, netlisted (never compiled) there
    for rd in range(min(rounds, 2) if rounds % 2 == 0 else 0):
        try:
            L = lib()
            U = h.Module(name=f"LibUser{rd}")
            U.a, U.b, U.vdd, U.vss = h.Signals(4)
            U.p = L["Pair2"]()
            U.q = L["Pair2"]()
            for k in (1, 2):
                U.add(L["LibInv"](k=k)(i=U.a, o=U.b, vdd=U.vdd, vss=U.vss), name=f"inv{k}")
                U.add(L["LibStage"](k=k)(inp=U.p, out=U.q), name=f"st{k}")
            U.add(L["LibTagged"](k=rd + 1)(a=U.a, b=U.b), name="tg")           # the optional text fields left unset
            h.netlist(U, io.StringIO(), fmt="spice") if rd else h.to_proto(U)
        except Exception:
            pass
    for rd in range(rounds):
        # a session's worth of generator calls (parameter sweeps): a different number in every process
        for k in range(rnd.randint(0, 900)):
            JunkGen(k=rd * 1000 + k)
        J = h.Module(name="Junk")
        J.a, J.b = h.Signal(), h.Signal()
        E = h.ExternalModule(name="EJ", port_list=[h.Inout(name="p")], paramtype=dict, desc="", domain="d")
        for k in range(rnd.randint(1, 5)):
            vs = [rnd.choice(rnd.choice(alts)) for _ in range(4)]
            try:
                J.add(h.R(r=vs[0])(p=J.a, n=J.b), name=f"r{k}")
                J.add(h.C(c=vs[1])(p=J.a, n=J.b), name=f"c{k}")
                J.add(h.Vdc(dc=vs[2], ac=vs[3])(p=J.a, n=J.b), name=f"v{k}")
                J.add(E(x=vs[0], y=vs[2], z=vs[3])(p=J.a), name=f"e{k}")
            except Exception:
                pass
        try:
            pkg = h.to_proto(J)
            import vlsirtools
            vlsirtools.netlist(pkg=pkg, dest=io.StringIO(), fmt="spice")
        except Exception:
            pass
        # numbers with more digits than the decimal context holds, rescaled and added (anything that touches the context)
        try:
            big = h.Prefixed(number=D(0.1), prefix=h.Prefix.KILO) + 50 * h.prefix.UNIT
            (big.scale(h.Prefix.MILLI), big * 3, (7 * h.prefix.n) / 3, h.Prefixed(number=D("1." + "3" * 40), prefix=h.Prefix.MICRO).scale(h.Prefix.NANO))
        except Exception:
            pass
        # generated wrappers over throw-away cells that are NAMED like the design's
        try:
            from hdl21.generators import Wrapper, Series, MosStack
            for nm in ("Inv", "PCell0", "UnitMod"):
                Jc = h.Module(name=nm)
                Jc.i, Jc.o = h.Input(), h.Output()
                Jc.r = h.R(r=rnd.randint(1, 9))(p=Jc.i, n=Jc.o)
                h.to_proto(Wrapper(Jc))
                h.to_proto(Series(unit=Jc, conns=("i", "o"), nser=rnd.choice([1, 2])))
            h.to_proto(MosStack(unit=h.Nmos(), nser=1))
        except Exception:
            pass
        # PDK compiles of designs that are dropped afterwards (many distinct devices: each compile replaces and frees
        # that many PrimitiveCalls, whose addresses later objects may reuse)
        for k in range(rnd.randint(1, 3)):
            P = h.Module(name=f"JunkP{k}")
            P.i, P.o, P.vdd, P.vss = h.Signals(4)
            for j in range(rnd.randint(4, 14)):
                P.add(h.Pmos(w=(3 + j) * h.prefix.µ)(d=P.o, g=P.i, s=P.vdd, b=P.vdd), name=f"p{j}")
                P.add(h.Nmos(w=(30 + j) * h.prefix.µ)(d=P.o, g=P.i, s=P.vss, b=P.vss), name=f"n{j}")
            try:
                sp.compile(P)
                h.netlist(P, io.StringIO(), fmt="spice")
            except Exception:
                pass
            del P
        del J
        gc.collect()


def worker_main():
    """One process: digests of every design's package and netlists, after seeded unrelated work."""
    import io
    import random
    import hdl21 as h
    from rtc.family import design_family
    tier, seed = sys.argv[sys.argv.index("--worker") + 1], int(sys.argv[sys.argv.index("--worker") + 2])
    rnd = random.Random(int(os.environ.get("PYTHONHASHSEED", "0") or 0) * 7919 + 13)
    fam = list(design_family(tier, seed))
    if tier != "thorough":
        fam = [d for k, d in enumerate(fam) if k % 2 == 0 or not d[0].startswith("random")]
    fam = list(extra_designs()) + fam
    out = {}
    junk = []
    # the first process of a run is "fresh" (no earlier work); the others have done 1..6 rounds of unrelated work
    hs = int(os.environ.get("PYTHONHASHSEED", "0") or 0)
    unrelated_work(rnd, 0 if hs <= 1 else 2 + hs % 6)
    for k, (desc, b) in enumerate(fam):
        # unrelated allocation and elaboration, different in every process
        junk.append([object() for _ in range(rnd.randint(0, 200))])
        if rnd.random() < 0.2:
            junk.pop(rnd.randrange(len(junk)))
        if rnd.random() < 0.1:
            try:
                h.elaborate(fam[rnd.randrange(len(fam))][1]())
            except Exception:
                pass
        if hs > 1 and desc.startswith("det/history"):
            unrelated_work(rnd, 1)
        try:
            pkg = h.to_proto(b())
            dig = hashlib.sha1(pkg.SerializeToString(deterministic=True)).hexdigest()[:12]
            physical = any(i.module.external.domain == "hdl21.primitives" for m in pkg.modules for i in m.instances)
            if not physical:
                import vlsirtools
                for fmt in ("spice", "spectre", "verilog"):
                    buf = io.StringIO()
                    try:
                        vlsirtools.netlist(pkg=pkg, dest=buf, fmt=fmt)
                        dig += ":" + hashlib.sha1(buf.getvalue().encode()).hexdigest()[:8]
                    except Exception as e:
                        dig += f":{fmt}-{type(e).__name__}"
        except Exception as e:
            dig = f"raises {type(e).__name__}: {str(e)[-60:]}"
        out[desc] = dig
    print("DIG" + json.dumps(out))


def run_seeds(tier, seed, hashseeds):
    procs = []
    for hs in hashseeds:
        env = dict(os.environ, PYTHONHASHSEED=str(hs), PYTHONPATH=ROOT)
        procs.append((hs, subprocess.Popen([sys.executable, "-m", "props.c12", "--worker", tier, str(seed)], cwd=ROOT,
                                           stdout=subprocess.PIPE, stderr=subprocess.PIPE, text=True, env=env)))
    res = {}
    for hs, p in procs:
        o, e = p.communicate(timeout=3000)
        line = [l for l in o.splitlines() if l.startswith("DIG")]
        if not line:
            raise RuntimeError(f"worker with PYTHONHASHSEED={hs} failed: {e[-400:]}")
        res[hs] = json.loads(line[0][3:])
    return res


def run(ctx):
    obligations, failures = det_audit()
    from vcheck.core import Violation
    ctx.obligations += len(obligations)
    ctx.discharged += len(obligations) - len(failures)
    ctx.by_backend["ast-audit"] = ctx.by_backend.get("ast-audit", 0) + len(obligations) - len(failures)
    ctx.samples += [{"obligation": o, "kind": "det", "status": "failed" if o in failures else "proved"} for o in obligations[:4]]
    if len(obligations) < 5:
        ctx.checker_errors.append(f"determinism audit found only {len(obligations)} set iterations")
    for f in failures:
        # (a static suspicion, not an observed difference: the multi-process digests below decide)
        ctx.undecided.append({"obligation": f, "reason": "hash-ordered iteration whose body looks order-sensitive"})
    hashseeds = list(range(1, 13)) if ctx.tier == "thorough" else [1, 2, 3, 4, 5, 6]
    res = run_seeds(ctx.tier, ctx.seed, hashseeds)
    base = res[hashseeds[0]]

    def cases():
        for desc in base:
            yield desc

    def check(desc):
        vals = {hs: res[hs].get(desc) for hs in hashseeds}
        if len(set(vals.values())) > 1:
            hs2 = next(h2 for h2 in hashseeds if vals[h2] != vals[hashseeds[0]])
            return (f"reproducible/{desc.split('/')[0]}", f"{desc}: PYTHONHASHSEED={hashseeds[0]} gives "
                    f"{vals[hashseeds[0]]}, PYTHONHASHSEED={hs2} gives {vals[hs2]}",
                    {"design": desc, "hashseeds": [hashseeds[0], hs2]})
        return None
    ctx.run_bounded("multi-process-digests", cases(), check,
                    rule="each design exported and netlisted (spice, spectre, verilog) in %d processes with different "
                         "PYTHONHASHSEED; the first process fresh, the others after 1-6 rounds of unrelated earlier work (exports and netlists of throw-away designs with equal numbers written differently, sample-PDK compiles of designs freed afterwards, 0-900 throw-away generator calls per round, allocation, elaboration); digests must coincide; "
                         "distinct = distinct design; non-trivial = all but scalar-only designs" % len(hashseeds),
                    bound=f"{len(hashseeds)} hash seeds", key_of=lambda d: d,
                    nontrivial=lambda d: not d.startswith("sig/scalar"))
    ctx.bounded[-1]["evaluations"] *= len(hashseeds)
    return INFO


def replay(payload):
    inp = payload.get("input") or {}
    if "design" in inp:
        res = run_seeds("quick", 0, inp.get("hashseeds", [1, 2]))
        vals = {hs: r.get(inp["design"]) for hs, r in res.items()}
        print("replay:", vals)
        return 1 if len(set(vals.values())) > 1 else 0
    print("static obligation:", payload.get("obligation"))
    return 2


if __name__ == "__main__" and "--worker" in sys.argv:
    sys.path.insert(0, ROOT)
    worker_main()
