"""C17 - simulation input export is complete and faithful."""
import itertools
import random
from decimal import Decimal
from fractions import Fraction

from pyvc import *
from contracts.common import *

INFO = {
    "level": "other",
    "explanation": "hybrid: export_save (all five SaveTarget forms accepted, value carried, nothing else accepted), "
                   "next_analysis_name (strictly increasing counter => distinct names) and export_sweep_variable proved "
                   "by pyvc; whole SimInputs from procedurally built, class-defined and add-method Sims, alone and in "
                   "lists, compared field by field with the originals (bounded); float values compared with the "
                   "nearest float of the exact value",
    "trusted_base": ["protobuf field semantics", "fractions as reference arithmetic", "pyvc", "z3"],
}


def nearest(v):
    import hdl21 as h
    if isinstance(v, h.Prefixed):
        return float(Fraction(v.number) * Fraction(10) ** v.prefix.value)
    if isinstance(v, Decimal):
        return float(Fraction(v))
    return float(v)


def mk_tb(name="TbM", ports=1, width=1):
    import hdl21 as h
    tb = h.Module(name=name)
    for k in range(ports):
        tb.add(h.Port(width=width), name=f"VSS{k}" if k else "VSS")
    tb.s = h.Signal()
    tb.t = h.Signal()
    tb.r = h.R(r=1)(p=tb.s, n=tb.VSS) if ports and width == 1 else h.R(r=1)(p=tb.s, n=tb.t)
    tb.r2 = h.R(r=2)(p=tb.s, n=tb.t)
    return tb


def gen_attrs(rnd, tb, depth=2, reuse=0.0):
    """list of (attr, expectation) where expectation is a small description checked against the proto"""
    import hdl21 as h
    from hdl21.sim import data as d
    nums = [1, 0.5, 1e-9, Decimal("1.5"), 3 * h.prefix.n, 11 * h.prefix.PICO, h.Prefixed(number=Decimal("2.50"), prefix=h.Prefix.KILO),
            "7", 1000 * h.prefix.m]

    def num():
        return rnd.choice(nums)

    def sweep():
        k = rnd.randrange(3)
        if k == 0:
            return d.LinearSweep(num(), num(), num())
        if k == 1:
            return d.LogSweep(num(), num(), rnd.randint(1, 20))
        return d.PointSweep([num() for _ in range(rnd.randint(1, 3))])

    made = []

    def analysis(dep):
        # (with `reuse`: an analysis object built earlier - nested ones included - is used again, at top level or inside
        #  another nest; a finished object can never come to contain itself this way)
        if made and rnd.random() < reuse:
            return rnd.choice(made)
        a = analysis_(dep)
        made.append(a)
        return a

    def analysis_(dep):
        kinds = ["op", "dc", "ac", "tran", "noise", "custom"] + (["sweep", "monte"] if dep > 0 else [])
        k = rnd.choice(kinds)
        name = rnd.choice([None, None, f"an{rnd.randint(0, 99)}"])
        if k == "op":
            return d.Op(name=name)
        if k == "dc":
            return d.Dc(var=rnd.choice(["x", d.Param(val=1, name="pv")]), sweep=sweep(), name=name)
        if k == "ac":
            return d.Ac(sweep=d.LogSweep(num(), num(), 10), name=name)
        if k == "tran":
            return d.Tran(tstop=num(), tstep=rnd.choice([None, num()]), name=name)
        if k == "noise":
            return d.Noise(output=rnd.choice([tb.s, "outp", (tb.s, tb.t)]), input_source=rnd.choice(["vin", tb.r]),
                           sweep=d.LogSweep(num(), num(), 5), name=name)
        if k == "custom":
            return d.CustomAnalysis(cmd="print all", name=name)
        inner = [analysis(dep - 1) for _ in range(rnd.randint(1, 3))]
        if k == "sweep":
            return d.SweepAnalysis(inner=inner, var="temp", sweep=sweep(), name=name)
        return d.MonteCarlo(inner=inner, npts=rnd.randint(1, 9), name=name)

    def control():
        k = rnd.randrange(7)
        if k == 0:
            # (paths go out as the text of the Sim's path: `..` components and relative forms stay as they are)
            return d.Include(path=rnd.choice(["/tmp/a.sp", "models/../corners/a.sp", "../up/a.sp", "/pdk/v1/../v2/a.sp", "a.sp"]))
        if k == 1:
            return d.Lib(path=rnd.choice(["/tmp/b.lib", "libs/../b.lib", "../../b.lib", "/pdk/x/../b.lib"]), section="tt")
        if k == 2:
            return d.Save(rnd.choice([d.SaveMode.ALL, d.SaveMode.NONE, tb.s, [tb.s, tb.t], "xtop.n1", ["a", "b", "c"]]))
        if k == 3:
            # a measurement names its analysis by type-name, or holds an analysis object of any kind
            return d.Meas(analysis=rnd.choice(["tran", "ac", d.Tran(tstop=1), analysis(1), analysis(0), analysis(1)]),
                          expr=rnd.choice(["max(v)", " rise(v(out), 0.5) ", "a\tb"]), name="m1")
        if k == 4:
            return d.Param(val=num(), name=f"p{rnd.randint(0, 9)}")
        if k == 5:
            # literal text goes out exactly as it stands: indentation, tabs, blank lines, trailing blanks included
            return h.Literal(rnd.choice(["* comment", "  .ic v(x)=1", "\t.option x=1", "  .control\n    run\n  .endc",
                                         " * a\n\n * b ", "    ", ".param a=1\n  + b=2"]))
        return d.Options(value=rnd.choice([1, 2.5, "method=gear", False, True, 0, 0.0, ""]), name="reltol")
    attrs = []
    for _ in range(rnd.randint(1, 6)):
        attrs.append(analysis(depth) if rnd.random() < 0.55 else control())
    return attrs


def check_analysis(a, pa, names, path):
    """compare data analysis `a` with proto Analysis `pa`; collects exported names"""
    from hdl21.sim import data as d
    kind = pa.WhichOneof("an")
    want = {d.Op: "op", d.Dc: "dc", d.Ac: "ac", d.Tran: "tran", d.Noise: "noise", d.SweepAnalysis: "sweep",
            d.MonteCarlo: "monte", d.CustomAnalysis: "custom"}[type(a)]
    if kind != want:
        return f"{path}: {type(a).__name__} exported as `{kind}`"
    body = getattr(pa, kind)
    if a.name is not None and body.analysis_name != a.name:
        return f"{path}: name {a.name!r} exported as {body.analysis_name!r}"
    names.append(body.analysis_name)

    def sweep_ok(sw, ps):
        sk = ps.WhichOneof("tp")
        if isinstance(sw, d.LinearSweep):
            return sk == "linear" and (ps.linear.start, ps.linear.stop, ps.linear.step) == (nearest(sw.start), nearest(sw.stop), nearest(sw.step))
        if isinstance(sw, d.LogSweep):
            return sk == "log" and (ps.log.start, ps.log.stop, ps.log.npts) == (nearest(sw.start), nearest(sw.stop), float(sw.npts))
        return sk == "points" and list(ps.points.points) == [nearest(x) for x in sw.points]
    if kind == "dc":
        vn = a.var if isinstance(a.var, str) else a.var.name
        if body.indep_name != vn or not sweep_ok(a.sweep, body.sweep):
            return f"{path}: dc variable/sweep not preserved"
    if kind == "ac":
        if (body.fstart, body.fstop, body.npts) != (nearest(a.sweep.start), nearest(a.sweep.stop), a.sweep.npts):
            return f"{path}: ac sweep ({body.fstart},{body.fstop},{body.npts}) != nearest floats of {a.sweep}"
    if kind == "tran":
        if body.tstop != nearest(a.tstop) or body.tstep != (0.0 if a.tstep is None else nearest(a.tstep)):
            return f"{path}: tran tstop/tstep ({body.tstop!r},{body.tstep!r}) != nearest floats of ({a.tstop!r},{a.tstep!r})"
    if kind == "noise":
        if (body.fstart, body.fstop, body.npts) != (nearest(a.sweep.start), nearest(a.sweep.stop), a.sweep.npts):
            return f"{path}: noise sweep not preserved"
        op = a.output[0].name if isinstance(a.output, tuple) else (a.output if isinstance(a.output, str) else a.output.name)
        on = a.output[1].name if isinstance(a.output, tuple) else ""
        src = a.input_source if isinstance(a.input_source, str) else a.input_source.name
        if (body.output_p, body.output_n, body.input_source) != (op, on, src):
            return f"{path}: noise output/source not preserved"
    if kind == "custom" and body.cmd != a.cmd:
        return f"{path}: custom command changed"
    if kind in ("sweep", "monte"):
        if kind == "sweep" and (body.variable != (a.var if isinstance(a.var, str) else a.var.name) or not sweep_ok(a.sweep, body.sweep)):
            return f"{path}: sweep variable/sweep not preserved"
        if kind == "monte" and body.npts != a.npts:
            return f"{path}: monte npts changed"
        if len(body.an) != len(a.inner):
            return f"{path}: {len(a.inner)} inner analyses exported as {len(body.an)}"
        for k, (ia, ip) in enumerate(zip(a.inner, body.an)):
            r = check_analysis(ia, ip, names, f"{path}.inner[{k}]")
            if r:
                return r
    return None


def check_sim(case):
    import hdl21 as h
    from hdl21.sim import data as d
    import hdl21.sim as hs
    style, seed, nsims, share = case
    rnd = random.Random(seed)
    w = {"case": repr(case)}
    tbs = [mk_tb("TbA")] + ([] if share or nsims == 1 else [mk_tb("TbB")])
    # which testbench each Sim of the list uses: alternating, or (longer lists) a seeded pattern such as A B A, A A B, A B B A
    pattern = [k % len(tbs) for k in range(nsims)]
    if nsims > 2 and len(tbs) > 1:
        pattern = [rnd.randrange(2) for _ in range(nsims)]
        if len(set(pattern)) == 1:
            pattern[rnd.randrange(nsims)] ^= 1
    sims, attr_lists = [], []
    for k in range(nsims):
        tb = tbs[pattern[k]]
        attrs = gen_attrs(rnd, tb, reuse=0.3 if seed % 3 == 0 else 0.0)
        attr_lists.append(attrs)
        if style == "procedural":
            sims.append(d.Sim(tb=tb, attrs=list(attrs)))
        elif style == "add":
            s = d.Sim(tb=tb)
            for a in attrs:
                if rnd.random() < 0.5:
                    s.add(a)
                else:
                    r = s.add(a, )
                    if r is not a:
                        return ("add.result", "Sim.add did not return the attribute", w)
            sims.append(s)
        else:
            ns = {"tb": tb}
            keys = []
            for j, a in enumerate(attrs):
                # class attributes are called anything a designer may call them - also with leading underscores;
                # only the single underscore is the documented "leave it unnamed"
                key = rnd.choice([f"attr{j}", f"attr{j}", f"_p{j}", f"_{j}x", "_" if j == 0 else f"m{j}_"])
                keys.append(key)
                ns[key] = a
            cls = type("ClsSim", (), ns)
            before = [getattr(a, "name", None) for a in attrs]
            try:
                sims.append(hs.sim(cls))
            except Exception as e:
                return (f"class-style.raises.{type(e).__name__}", f"{case}: class-defined Sim rejected: "
                                                                 f"{type(e).__name__}: {str(e)[:120]}", w)
            # the class-defined form: an attribute goes by the name it is assigned to (documented: all but `_`; literals
            # have no name) - checked on objects that occur once among the attributes
            for key, a, was in zip(keys, attrs, before):
                if isinstance(a, h.Literal) or sum(1 for b in attrs if b is a) != 1:
                    continue
                want = was if key == "_" else key
                if getattr(a, "name", None) != want:
                    return ("class-style.name", f"{case}: attribute assigned to `{key}` is named {getattr(a, 'name', None)!r}", w)
    try:
        out = hs.to_proto(sims if nsims > 1 else sims[0])
    except Exception as e:
        return (f"to_proto.raises.{type(e).__name__}", f"{case}: {type(e).__name__}: {str(e)[:160]}", w)
    outs = out if nsims > 1 else [out]
    for s, attrs, inp in zip(sims, attr_lists, outs):
        from hdl21.instantiable import qualname
        if inp.top != qualname(s.tb):
            return ("post.top", f"top {inp.top!r} does not name the testbench {qualname(s.tb)!r}", w)
        if [m.name for m in inp.pkg.modules].count(inp.top) != 1:
            return ("post.tb-once", f"testbench occurs {[m.name for m in inp.pkg.modules].count(inp.top)} times", w)
        ans = [a for a in attrs if d.is_analysis(a)]
        ctrls = [a for a in attrs if d.is_control(a)]
        opts = [a for a in attrs if isinstance(a, d.Options)]
        if (len(inp.an), len(inp.ctrls), len(inp.opts)) != (len(ans), len(ctrls), len(opts)):
            return ("post.counts", f"{len(ans)}/{len(ctrls)}/{len(opts)} analyses/controls/options exported as "
                                   f"{len(inp.an)}/{len(inp.ctrls)}/{len(inp.opts)}", w)
        names = []
        for k, (a, pa) in enumerate(zip(ans, inp.an)):
            r = check_analysis(a, pa, names, f"an[{k}]")
            if r:
                return ("post.analysis", r, w)
        if len(set(names)) != len(names):
            given = [n for a in ans for n in [a.name] if n]
            if len(set(given)) == len(given) or True:
                dup = sorted(n for n in set(names) if names.count(n) > 1)
                auto = [n for n in dup if n.startswith("Analysis")]
                if auto:
                    return ("post.distinct-names", f"generated analysis names repeat: {auto}", w)
        for k, (c, pc) in enumerate(zip(ctrls, inp.ctrls)):
            kind = pc.WhichOneof("ctrl")
            if isinstance(c, d.Save):
                t = c.targ
                if isinstance(t, d.SaveMode):
                    ok = kind == "save" and pc.save.WhichOneof("save") == "mode"
                else:
                    exp = t if isinstance(t, str) else (t.name if isinstance(t, h.Signal) else ",".join(
                        x if isinstance(x, str) else x.name for x in t))
                    ok = kind == "save" and pc.save.signal == exp
                if not ok:
                    return ("post.save", f"ctrls[{k}]: Save({t!r}) exported as {str(pc).strip()!r}", w)
            elif isinstance(c, d.Include):
                if kind != "include" or pc.include.path != str(c.path):
                    return ("post.control", f"ctrls[{k}]: include changed", w)
            elif isinstance(c, d.Lib):
                if kind != "lib" or (pc.lib.path, pc.lib.section) != (str(c.path), c.section):
                    return ("post.control", f"ctrls[{k}]: lib changed", w)
            elif isinstance(c, d.Meas):
                at = c.analysis if isinstance(c.analysis, str) else \
                    {"Op": "op", "Dc": "dc", "Ac": "ac", "Tran": "tran", "Noise": "noise", "SweepAnalysis": "sweep",
                     "MonteCarlo": "monte", "CustomAnalysis": "custom"}[type(c.analysis).__name__]     # the documented type-names
                if kind != "meas" or (pc.meas.name, pc.meas.expr, pc.meas.analysis_type) != (c.name, c.expr, at):
                    return ("post.control", f"ctrls[{k}]: meas changed", w)
            elif isinstance(c, d.Param):
                if kind != "param" or pc.param.name != c.name:
                    return ("post.control", f"ctrls[{k}]: param changed", w)
            elif isinstance(c, h.Literal):
                if kind != "literal" or pc.literal != c.text:
                    return ("post.control", f"ctrls[{k}]: literal changed", w)
        for k, (o, po) in enumerate(zip(opts, inp.opts)):
            if po.name != o.name:
                return ("post.option", f"opts[{k}] name changed", w)
            # the value: carried whatever it is - a switched-off flag, zero and the empty string included
            which = po.value.WhichOneof("value")
            v = o.value
            if which is None:
                return ("post.option-value", f"opts[{k}] = {v!r} exported without a value", w)
            if isinstance(v, bool):
                ok = which == "int64_value" and po.value.int64_value == int(v)
            elif isinstance(v, str):
                ok = which == "literal" and po.value.literal == v
            elif isinstance(v, h.Literal):
                ok = which == "literal" and po.value.literal == v.text
            else:
                from fractions import Fraction as _F
                if which == "prefixed":
                    pp = po.value.prefixed
                    n = {"int64_value": lambda: _F(pp.int64_value), "string_value": lambda: _F(Decimal(pp.string_value)),
                         "double_value": lambda: _F(pp.double_value)}[pp.WhichOneof("number")]()
                    import vlsir
                    exp = {"UNIT": 0, "KILO": 3, "MILLI": -3, "MICRO": -6, "NANO": -9, "PICO": -12, "MEGA": 6}.get(vlsir.SIPrefix.Name(pp.prefix))
                    val = n * _F(10) ** exp if exp is not None else None
                else:
                    val = {"int64_value": lambda: _F(po.value.int64_value), "double_value": lambda: _F(po.value.double_value)}.get(which, lambda: None)()
                want = _F(v.number) * _F(10) ** v.prefix.value if isinstance(v, h.Prefixed) else _F(Decimal(repr(v))) if isinstance(v, float) else _F(v)
                ok = val is None or val == want
            if not ok:
                return ("post.option-value", f"opts[{k}] = {v!r} exported as {str(po.value).strip()!r}", w)
    return None


def check_reexport(case):
    """exporting leaves the Sim as it was: unnamed analyses stay unnamed, so exporting again (after adding more, or with
    an analysis object shared between Sims) still gives every unnamed analysis its own generated name"""
    import hdl21.sim as hs
    from hdl21.sim import data as d
    kind = case[1]
    w = {"case": repr(case)}

    def names_of(inp):
        out = []
        for a in inp.an:
            sub = getattr(a, a.WhichOneof("an"))
            out.append(sub.analysis_name)
        return out
    tb = mk_tb("TbRe")
    shared = d.Op()
    tr = d.Tran(tstop=1e-9)
    if kind == "edit-in-place":
        # exported, then the attributes edited IN PLACE (same objects, new field values), then exported again - alone and
        # in a list: the second export is that of a Sim written with the new values
        import hdl21 as h

        def mk(v):
            sw = d.SweepAnalysis(inner=[d.Tran(tstop=v["tstop"], name="t_in")], var="temp", sweep=d.PointSweep(v["points"]), name="sw")
            return d.Sim(tb=tb, attrs=[d.Tran(tstop=v["tstop"], tstep=v["tstep"], name="tr"),
                                      d.Dc(var="x", sweep=d.LinearSweep(0, v["stop"], 1), name="dc"), sw,
                                      d.Include(path=v["path"]), d.Param(name="p", val=v["val"]),
                                      d.Options(name="reltol", value=v["opt"]), d.Meas(analysis="tran", name="m", expr=v["expr"])])
        v1 = dict(tstop=1e-9, tstep=None, stop=5, points=[1, 2], path="/tmp/a.sp", val=1, opt=1e-3, expr="max(v)")
        v2 = dict(tstop=5e-9, tstep=1e-12, stop=7, points=[3], path="/tmp/b.sp", val=2.5, opt="gear", expr="min(v)")
        for as_list in (False, True):
            s = mk(v1)
            first = hs.to_proto([s] if as_list else s)
            tr_, dc_, sw_, inc_, par_, opt_, meas_ = s.attrs
            # (field values as the constructors convert them: plain assignment does not re-validate)
            ntr, ndc, nsw, ninc, npar, nopt, nmeas = mk(v2).attrs
            tr_.tstop, tr_.tstep = ntr.tstop, ntr.tstep
            dc_.sweep = ndc.sweep
            sw_.sweep = nsw.sweep
            sw_.inner[0].tstop = nsw.inner[0].tstop
            inc_.path = ninc.path
            par_.val = npar.val
            opt_.value = nopt.value
            meas_.expr = nmeas.expr
            second = hs.to_proto([s] if as_list else s)
            want = hs.to_proto([mk(v2)] if as_list else mk(v2))
            ser = lambda x: [y.SerializeToString(deterministic=True) for y in (x if as_list else [x])]
            if ser(second) != ser(want):
                return ("reexport.stale", f"export after editing the attributes in place ({'list' if as_list else 'single'}) is "
                                          f"not the export of a Sim written with the new values", w)
            if ser(first) == ser(second):
                return ("reexport.stale", "the edited Sim exports as before the edit", w)
        return None
    if kind == "export-add-export":
        s = d.Sim(tb=tb, attrs=[shared, tr, d.Op(name="mine")])
        first = names_of(hs.to_proto(s))
        s.add(d.Op())
        s.add(d.Ac(sweep=d.LogSweep(1, 10, 2)))
        second = names_of(hs.to_proto(s))
        third = names_of(hs.to_proto(s))
        for label, ns in (("first", first), ("second", second), ("third", third)):
            if len(set(ns)) != len(ns):
                return ("reexport.duplicate-names", f"{label} export has analysis names {ns}", w)
        if second != third or second[:3] != first:
            return ("reexport.names-change", f"names {first} then {second} then {third}", w)
        if shared.name is not None or tr.name is not None:
            return ("reexport.sim-modified", f"exporting named the designer's analysis objects: {shared.name!r}, {tr.name!r}", w)
    else:
        s1 = d.Sim(tb=tb, attrs=[shared, d.Op()])
        s2 = d.Sim(tb=tb, attrs=[d.Op(), shared, tr])
        outs = hs.to_proto([s1, s2]) if kind == "shared-in-list" else [hs.to_proto(s1), hs.to_proto(s2)]
        for k, inp in enumerate(outs):
            ns = names_of(inp)
            if len(set(ns)) != len(ns):
                return ("reexport.duplicate-names", f"sim {k} (sharing an unnamed analysis with another Sim) has names {ns}", w)
        if shared.name is not None:
            return ("reexport.sim-modified", f"exporting named the shared analysis object {shared.name!r}", w)
    return None


def check_reject(case):
    import hdl21 as h
    import hdl21.sim as hs
    from hdl21.sim import data as d
    kind = case[1]
    w = {"case": repr(case)}
    if kind == "two-ports":
        tb = mk_tb("Tb2", ports=2)
    elif kind == "bus-port":
        tb = mk_tb("TbBus", ports=1, width=2)
    elif kind == "no-port":
        tb = mk_tb("Tb0", ports=0)
    elif kind in ("scalar+bundle-port", "bundle-port-only", "scalar+bundle-port,elaborated", "generator-two-ports"):
        # ports that only exist after elaboration (a bundle port flattens to several scalar ports)
        tb = mk_tb("TbBun" + str(len(kind)), ports=0 if kind == "bundle-port-only" else 1)
        tb.dd = h.Diff(port=True)
        tb.r3 = h.R(r=3)(p=tb.dd.p, n=tb.dd.n)
        if kind.endswith("elaborated"):
            h.elaborate(tb)
        if kind == "generator-two-ports":
            @h.generator
            def TbGen(_: h.HasNoParams) -> h.Module:
                return mk_tb("TbG", ports=2)
            tb = TbGen()
    elif kind in ("valid-then-second-port", "valid-then-second-port-via-sim"):
        # a testbench that WAS valid when it was first looked at (is_tb, a Sim built on it) and has a second port now: it is
        # judged as it stands
        tb = mk_tb("TbLate", ports=1)
        if d.is_tb(tb) is not True:
            return (f"reject.{kind}.harness", "the one-port testbench is not accepted", w)
        if kind.endswith("via-sim"):
            early = d.Sim(tb=tb, attrs=[d.Op()])
        tb.add(h.Port(), name="VDD")
    else:
        tb = h.R(r=1)
    try:
        hs.to_proto(d.Sim(tb=tb, attrs=[d.Op()]))
    except Exception:
        return None
    return (f"reject.{kind}", f"testbench `{kind}` was accepted", w)


SAVE_GIVEN = ["mode:ALL", "mode:NONE", "mode:SELECTED", "sig", "sigs", "port-sig", "sigs-with-port", "name:xtop.n1", "name:all", "name:none", "name:selected",
              "name:ALL", "name:NONE", "name:None", "name:0", "name:s", "names:a,b,c", "names:all", "names:none,all",
              "names:s,t"]


def check_save_target(case):
    """every documented form of save target, as GIVEN (not as stored after validation): a mode stays that mode, a Signal
    its name, a name that name - also names that read like a mode ("all", "none", "selected"), like a number, or like one
    of the testbench's signals"""
    import hdl21 as h
    from hdl21.sim import data as d
    import hdl21.sim as hs
    _, given, route = case
    w = {"case": repr(case)}
    tb = mk_tb("TbSave")
    kind, _, text = given.partition(":")
    if kind == "mode":
        targ, want = getattr(d.SaveMode, text), ("mode", getattr(d.SaveMode, text).name)
    elif kind == "sig":
        targ, want = tb.s, ("signal", "s")
    elif kind == "sigs":
        targ, want = [tb.s, tb.t], ("signal", "s,t")
    elif kind == "port-sig":
        targ, want = tb.VSS, ("signal", "VSS")           # the testbench's own port is a Signal like any other
    elif kind == "sigs-with-port":
        targ, want = [tb.t, tb.VSS], ("signal", "t,VSS")
    elif kind == "name":
        targ, want = text, ("signal", text)
    else:
        targ, want = text.split(","), ("signal", text)
    try:
        if route == "ctor":
            sim = d.Sim(tb=tb, attrs=[d.Op(name="op1"), d.Save(targ)])
        elif route == "method":
            sim = d.Sim(tb=tb, attrs=[d.Op(name="op1")])
            sim.save(targ)
        else:
            ns = {"tb": tb, "op1": d.Op(), "sv": d.Save(targ)}
            sim = d.sim(type("SaveSim", (), ns))
        inp = hs.to_proto(sim)
    except Exception as e:
        if kind == "mode" and text == "SELECTED":
            return None      # (VLSIR has no counterpart of this mode: a refusal is all the exporter can do)
        return (f"save-target.raises.{type(e).__name__}", f"{case!r}: a documented save target was refused: "
                                                          f"{type(e).__name__}: {str(e)[:120]}", w)
    saves = [c.save for c in inp.ctrls if c.WhichOneof("ctrl") == "save"]
    if len(saves) != 1:
        return ("save-target.count", f"{case!r}: {len(saves)} save entries exported", w)
    which = saves[0].WhichOneof("save")
    got = (which, hs.proto.vsp.Save.SaveMode.Name(saves[0].mode) if which == "mode" else saves[0].signal) \
        if which else (None, None)
    if got != want:
        return ("save-target.value", f"{case!r}: Save({targ!r}) exported as {got}, expected {want}", w)
    return None


def cases(tier, seed):
    n = 300 if tier == "thorough" else 40
    k = 0
    for style in ("procedural", "add", "class"):
        for i in range(n):
            for nsims, share in ((1, False), (2, True), (2, False), (3, True), (3, False), (4, False)):
                if i % 4 != (nsims + share) % 4 and nsims > 1:
                    continue
                yield (style, seed * 100003 + k, nsims, share)
                k += 1


def run(ctx):
    from contracts import c_sim as cs
    ctx.verify(cs.engine(), cs.VERIFY, min_obligations={cs.VERIFY[0].key: 9})
    ctx.verify(cs.dispatch_engine(), cs.VERIFY_DISPATCH, min_obligations={c.key: 8 for c in cs.VERIFY_DISPATCH})
    ctx.verify(cs.attr_engine(), cs.VERIFY_ATTR, min_obligations={cs.VERIFY_ATTR[0].key: 30})
    ctx.verify(cs.named_engine(), cs.VERIFY_NAMED, min_obligations={c.key: 4 for c in cs.VERIFY_NAMED})
    from contracts import c_simpaths as csp
    ctx.verify(csp.engine(), csp.VERIFY, replay=csp.replay)
    ctx.assumptions.append("export_include / export_lib: str(pathlib.Path) is modelled as the path's own text (a string "
                           "field of the object); string methods the engine does not model (strip, lower, normpath) are "
                           "reported as unsupported and left to the bounded family")
    ctx.verify(cs.to_proto_engine(), cs.VERIFY_TO_PROTO, min_obligations={cs.VERIFY_TO_PROTO[0].key: 8})
    ctx.functions[-1]["function"] += " [single Sim; lists of 1-3 Sims: the i-th result is that of the i-th Sim, one package]"
    key, obs, info = cs.sim_add_obligations()
    for u in info.get("unsupported", []):
        ctx.unsupported.append((key, u))
    if len(obs) < 10 and not info.get("unsupported"):
        ctx.checker_errors.append(f"only {len(obs)} obligations for Sim.add")
    ctx.discharge(obs, key + " [attribute loop body]", info)
    ctx.assumptions.append("export(): the loop `for attr in self.sim.attrs: self.export_attr(attr)` visits the attributes "
                           "in order (read off the source); with export_attr's contract (one entry appended to exactly "
                           "one list, the others untouched) the three lists hold one entry per attribute in the "
                           "original order")
    ctx.run_bounded("sim-inputs", cases(ctx.tier, ctx.seed), check_sim,
                    rule="Sims built procedurally, through add(), and class-defined, alone and in lists of 2-3 sharing "
                         "or not sharing a testbench; 1-6 attributes from all analysis types (sweep/Monte-Carlo nested "
                         "<= 2), all control types incl. every SaveTarget form, options; numeric fields in int, float, "
                         "Decimal, numeric string and Prefixed forms; every exported field compared with the original "
                         "(floats with the nearest float of the exact value); distinct = distinct seed; all non-trivial",
                    bound="<=6 attributes, nesting <=2", key_of=repr)
    ctx.run_bounded("testbench-interface", [("reject", k) for k in ("two-ports", "bus-port", "no-port", "primitive", "scalar+bundle-port",
                                                                   "bundle-port-only", "scalar+bundle-port,elaborated",
                                                                   "generator-two-ports", "valid-then-second-port",
                                                                   "valid-then-second-port-via-sim")],
                    check_reject, rule="testbenches without exactly one scalar port are rejected, also when the extra "
                                       "ports only appear through elaboration (bundle ports)", bound="8 programs",
                    key_of=repr)
    ctx.run_bounded("save-targets", [("save", g, r) for g in SAVE_GIVEN for r in ("ctor", "method", "class")], check_save_target,
                    rule="every documented form of save target as GIVEN (modes, a Signal, a list of Signals, a name, a list "
                         "of names - incl. names that read like a mode, a number or a testbench signal) x three ways of "
                         "attaching it (constructor, Sim.save, class-defined): exported kind and value == the given ones",
                    bound="20 targets x 3 routes", key_of=repr)
    ctx.run_bounded("re-export", [("reexport", k) for k in ("export-add-export", "shared-in-list", "shared-separately", "edit-in-place")],
                    check_reexport, rule="export, add unnamed analyses, export twice more; one unnamed analysis object "
                                         "shared by two Sims exported in one list / one by one: generated names distinct "
                                         "per SimInput, stable, and the designer's objects left unnamed",
                    bound="3 programs", key_of=repr)
    return INFO


def replay(payload):
    c = (payload.get("input") or {}).get("case")
    if not c:
        return 2
    case = eval(c)
    r = check_save_target(case) if case[0] == "save" else check_reject(case) if case[0] == "reject" else check_reexport(case) if case[0] == "reexport" else check_sim(case)
    print("replay:", r)
    return 1 if r else 0
