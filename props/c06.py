"""C06 - every exported package is closed and self-consistent."""
import itertools
from pyvc import *
from contracts.common import *
from rtc.family import design_family, nontrivial, RULE

INFO = {
    "level": "other",
    "explanation": "hybrid: wf_package(result) as postcondition of to_proto, evaluated at run time over the design "
                   "family, the repository examples and the built-in generators (bounded); the slice-bounds clause "
                   "(no exported slice outside its signal, width == selected bits) is proved by pyvc on export_slice / "
                   "_slice_inner for all widths",
    "trusted_base": ["rtc/wf.py (trusted specification of well-formedness)", "vlsirtools netlisters", "pyvc", "z3"],
}


def extra_programs():
    """built-in generators over small parameter ranges and a few library modules"""
    import hdl21 as h
    from hdl21.generators import Series, MosStack, Wrapper
    for n in (1, 2, 3, 5):
        yield (f"builtin/Series/R/n{n}", lambda n=n: Series(unit=h.R(r=1), conns=("p", "n"), nser=n))
        yield (f"builtin/MosStack/n{n}", lambda n=n: MosStack(unit=h.Nmos(), nser=n))
    yield ("builtin/Wrapper/R", lambda: Wrapper(h.R(r=1)))


def compiled_programs():
    """PDK-compiled (sample PDK, which maps the transistors and leaves the rest) and walked designs in which generic
    primitives of different kinds carry EQUAL parameters: the two- and three-terminal resistor / capacitor / the diode and
    the bipolar over one model name, next to transistors"""
    import hdl21 as h
    import hdl21.pdk.sample_pdk as sp
    P = h.primitives

    def mk(passive, order, how):
        def b():
            two, three, params = {"res": (P.PhysicalResistor, P.ThreeTerminalResistor, P.PhysicalResistorParams),
                                  "cap": (P.PhysicalCapacitor, P.ThreeTerminalCapacitor, P.PhysicalCapacitorParams)}[passive]
            rp = params(model="shared_model")
            m = h.Module(name="Compiled")
            m.a, m.b, m.c, m.vss = h.Signals(4)
            parts = [lambda: m.add(two(rp)(p=m.a, n=m.b), name="x2"), lambda: m.add(three(rp)(p=m.b, n=m.c, b=m.vss), name="x3"),
                     lambda: m.add(h.Mos(tp=h.MosType.NMOS)(d=m.c, g=m.b, s=m.vss, b=m.vss), name="mn"),
                     lambda: m.add(h.Mos(tp=h.MosType.PMOS)(d=m.c, g=m.b, s=m.a, b=m.a), name="mp")]
            for k in order:
                parts[k]()
            top = m
            if how.endswith("deep"):
                top = h.Module(name="CompiledTop")
                top.i1 = m()
                top.i2 = m()
            if how.startswith("sample"):
                sp.compile(top)
            else:
                h.HierarchyWalker().visit_elaboratables(top)
            return top
        return b
    for passive in ("res", "cap"):
        for order in ((0, 1, 2, 3), (1, 0, 3, 2), (2, 3, 1, 0)):
            for how in ("sample", "sample-deep", "walker", "walker-deep"):
                yield (f"compiled/{passive}/{order}/{how}", mk(passive, order, how))


def edited_programs():
    """modules whose names were re-used for objects of another kind before export"""
    import hdl21 as h

    E6 = h.ExternalModule(name="E6", port_list=[h.Inout(name="a"), h.Inout(name="b")], desc="", domain="c6")

    def leaf():
        return E6()
    kinds = {"signal": lambda: h.Signal(), "port": lambda: h.Port(), "input": lambda: h.Input(),
             "instance": None}
    for k1 in ("signal", "port", "input", "instance"):
        for k2 in ("signal", "port", "input", "instance"):
            def b(k1=k1, k2=k2):
                m = h.Module(name="Edited")
                m.v = h.Signal()
                m.w = h.Signal()
                for k in (k1, k2):
                    if k == "instance":
                        m.x = leaf()(a=m.v, b=m.w)
                    else:
                        m.x = kinds[k]()
                if k2 != "instance":
                    m.u = leaf()(a=m.x, b=m.v)
                m.u2 = leaf()(a=m.v, b=m.w)
                return m
            yield (f"edited/x:{k1}->{k2}", b)
    # an object the module already holds assigned under a second name (`m.b = m.a`), for every kind; a module and one of
    # its descendants under one name; two ExternalModule objects of one domain and name (identical / contradictory)
    for kind in ("signal", "port", "instance", "array"):
        def ba(kind=kind):
            m = h.Module(name="Aliased")
            m.v, m.w = h.Signal(), h.Signal()
            if kind in ("signal", "port"):
                obj = h.Signal() if kind == "signal" else h.Port()
                m.a = obj
                m.b = obj
                m.u = leaf()(a=obj, b=m.v)
                m.u3 = leaf()(a=m.b, b=m.w)
            elif kind == "instance":
                m.i = leaf()(a=m.v, b=m.w)
                m.j = m.i
            else:
                m.bus = h.Signal(width=2)
                m.i = 2 * leaf()(a=m.bus, b=m.w)
                m.j = m.i
            return m
        yield (f"edited/aliased-{kind}", ba)

    def same_named_descendant(depth):
        def b():
            c = h.Module(name="SameName")
            c.p = h.Port()
            c.u = leaf()(a=c.p, b=c.p)
            mid = c
            for k in range(depth - 1):
                nxt = h.Module(name=f"Between{k}")
                nxt.p = h.Port()
                nxt.i = mid(p=nxt.p)
                mid = nxt
            p = h.Module(name="SameName")
            p.s = h.Signal()
            p.i = mid(p=p.s)
            return p
        return b
    for d in (1, 2, 3):
        yield (f"edited/same-named-descendant/d{d}", same_named_descendant(d))
    # the same domain-less external cell declared once with domain=None and once with domain="" (as from_proto leaves it):
    # one identity, one declaration
    for pair in ((None, ""), ("", None), (None, None), ("", "")):
        def bd(pair=pair):
            Ea = h.ExternalModule(name="NoDomain", port_list=[h.Inout(name="a")], desc="", domain=pair[0])
            Eb = h.ExternalModule(name="NoDomain", port_list=[h.Inout(name="a")], desc="", domain=pair[1])
            m = h.Module(name="TwoNoDomain")
            m.v = h.Signal()
            m.x = Ea()(a=m.v)
            m.y = Eb()(a=m.v)
            return m
        yield (f"edited/external-module-twice/domains-{pair[0]!r}-{pair[1]!r}", bd)
    # an already NAMED object that the module does not hold yet, assigned under another attribute name, while the module
    # holds a connected signal / port under the object's old name (e.g. a copy of a child's port turned into a local net)
    for kind in ("signal", "port"):
        for what in ("copy", "fresh-named"):
            def bn(kind=kind, what=what):
                import copy as _copy
                m = h.Module(name="Renamed")
                m.v = h.Signal()
                held = m.add(h.Signal(name="data") if kind == "signal" else h.Port(name="data"))
                m.u = leaf()(a=held, b=m.v)
                newcomer = _copy.copy(held) if what == "copy" else h.Signal(name="data")
                m.local = newcomer                  # entered as `local`; `data` stays what it was
                m.u3 = leaf()(a=m.local, b=held)
                return m
            yield (f"edited/named-newcomer/{kind}/{what}", bn)
    for same in (True, False):
        def be(same=same):
            E1 = h.ExternalModule(name="Twice", port_list=[h.Inout(name="a")], desc="", domain="c6")
            E2 = h.ExternalModule(name="Twice", port_list=[h.Inout(name="a")] + ([] if same else [h.Inout(name="z")]), desc="",
                                  domain="c6")
            m = h.Module(name="TwoExt")
            m.v = h.Signal()
            m.x = E1()(a=m.v)
            m.y = E2()(a=m.v) if same else E2()(a=m.v, z=m.v)
            return m
        yield (f"edited/external-module-twice/{'identical' if same else 'contradictory'}", be)


def edited_after_export_programs():
    """a module edited AFTER it has been exported once (by assignment, add(), connection changes): the edit is either
    refused, or the next package is still closed and self-consistent"""
    import hdl21 as h
    E6 = h.ExternalModule(name="E6b", port_list=[h.Inout(name="a"), h.Inout(name="b")], desc="", domain="c6")
    edits = {
        "setattr-instance-missing-port": lambda m: setattr(m, "late", E6()(a=m.v)),
        "add-instance-missing-port": lambda m: m.add(E6()(a=m.v), name="late"),
        "setattr-signal-other-width": lambda m: setattr(m, "v", h.Signal(width=3)),
        "add-signal-other-width": lambda m: m.add(h.Signal(width=3), name="v"),
        "setattr-port": lambda m: setattr(m, "w", h.Port(width=2)),
        "reconnect": lambda m: m.u2.connect("a", h.Signal(name="nowhere")),
        "disconnect": lambda m: m.u2.disconnect("a"),
        # an object the module already holds, assigned / added under another name (a move)
        "move-signal-onto-used-name": lambda m: setattr(m, "w", m.v),
        "move-signal-onto-new-name": lambda m: setattr(m, "x", m.v),
        "move-instance": lambda m: setattr(m, "u3", m.u2),
        "instance-onto-signal-name": lambda m: setattr(m, "v", m.u2),
        "add-held-signal": lambda m: m.add(m.v),
    }
    for name, edit in edits.items():
        for depth in (0, 1):
            def b(edit=edit, depth=depth):
                m = h.Module(name="EditedLate")
                m.v = h.Signal()
                m.w = h.Signal()
                m.u2 = E6()(a=m.v, b=m.w)
                top = m
                if depth:
                    top = h.Module(name="EditedLateTop")
                    top.i = m()
                h.to_proto(top)                       # first export: elaborates (and freezes) the design
                try:
                    edit(m)
                except Exception:
                    pass                              # refusing the edit is fine
                return top
            yield (f"edited-after-export/{name}/d{depth}", b)


def repaired_parent_programs():
    """a parent and one of its children BOTH carry a fault that only the post-flattening checks find; the first export
    reports the child's; the designer replaces that child (the parent is neither failed nor frozen) and exports again:
    the parent's own fault is reported then, or the package is well-formed - never an unchecked parent exported"""
    import hdl21 as h

    def mk(fault, depth, repair):
        def b():
            def faulty(m):
                m.a2 = h.Signal(width=2)
                if fault == "array-open-terminal":
                    m.add(2 * h.R(r=1)(p=m.a), name="rr")                 # `n` of each element left open
                elif fault == "array-width":
                    m.w3 = h.Signal(width=3)
                    m.add(2 * h.R(r=1)(p=m.w3, n=m.a), name="rr")
                else:
                    B = h.Bundle(name="RpB")
                    B.add(h.Signal(name="x"))
                    B.add(h.Signal(name="y", width=2))
                    C = h.Module(name="RpBC")
                    C.q = B(port=True)
                    C.r = h.R(r=3)(p=C.q.x, n=C.q.y[0])
                    m.add(C(q=h.AnonymousBundle(x=m.a, y=m.a)), name="cb")       # y is two bits wide
            leaf = h.Module(name="RpLeaf")
            leaf.a = h.Port()
            faulty(leaf)
            good = h.Module(name="RpGood")
            good.a = h.Port()
            good.r = h.R(r=9)(p=good.a, n=good.a)
            mid = h.Module(name="RpMid")
            mid.a = h.Signal()
            mid.leaf = leaf(a=mid.a)
            faulty(mid)
            top = mid
            for k in range(depth):
                up = h.Module(name=f"RpUp{k}")
                up.inner = top()
                top = up
            try:
                h.to_proto(top)
            except Exception:
                pass
            else:
                raise AssertionError("the faulty design was exported")
            if repair == "setattr":
                mid.leaf = good(a=mid.a)
            else:
                mid.add(good(a=mid.a), name="leaf")
            return top
        return b
    for fault in ("array-open-terminal", "array-width", "anon-width"):
        for depth in (0, 1):
            for repair in ("setattr", "add"):
                yield (f"repaired-parent/{fault}/depth{depth}/{repair}", mk(fault, depth, repair))


def attribute_like_programs():
    """signals and ports called like attributes of the Module object itself (C11's design): the package must be taken by
    from_proto and the netlisters like any other"""
    from props import c11
    for desc, b in c11.param_programs():
        if "attribute-like" in desc:
            yield ("attr-names/" + desc.split("/", 1)[1], b)
        elif "dotted" in desc:
            yield ("dotted-names/" + desc.split("/", 1)[1], b)


def two_domain_programs():
    """two external modules of ONE name in two domains (different pin lists) in one design: valid instances of both, and an
    instance of either wired for the OTHER one's pin list (refused, or exported well-formed - never checked against the
    namesake's ports)"""
    import hdl21 as h

    def mk(order, fault):
        def b():
            E1 = h.ExternalModule(name="Twin", port_list=[h.Inout(name="a")], desc="", domain="dom1")
            E2 = h.ExternalModule(name="Twin", port_list=[h.Inout(name="a"), h.Inout(name="b", width=2)], desc="", domain="dom2")
            m = h.Module(name="TwoDomains")
            m.s, m.t = h.Signal(), h.Signal()
            m.w2 = h.Signal(width=2)
            good = {"one": lambda: E1()(a=m.s), "two": lambda: E2()(a=m.s, b=m.w2)}
            bad = {"none": None, "second-missing-port": lambda: E2()(a=m.t), "first-extra-port": lambda: E1()(a=m.t, b=m.w2),
                   "second-wrong-width": lambda: E2()(a=m.t, b=m.t)}[fault]
            # (with a faulty instance of one of the two, the valid instances in the design are all of the OTHER one)
            faulty_of = {"none": None, "second-missing-port": "two", "first-extra-port": "one", "second-wrong-width": "two"}[fault]
            for k, which in enumerate(order):
                if which != faulty_of:
                    m.add(good[which](), name=f"g{k}")
            if bad is not None:
                m.add(bad(), name="wired_for_the_namesake")
            if faulty_of is None:
                sub = h.Module(name="TwoDomainsSub")
                sub.s = h.Signal()
                sub.i = E1()(a=sub.s) if order[0] == "two" else E2()(a=sub.s, b=h.Concat(sub.s, sub.s))
                m.sub = sub()
            return m
        return b
    for order in (("one", "two"), ("two", "one"), ("one", "two", "one")):
        for fault in ("none", "second-missing-port", "first-extra-port", "second-wrong-width"):
            yield (f"two-domains/{'-'.join(order)}/{fault}", mk(order, fault))


def extmodule_edit_programs():
    """an ExternalModule whose public pin list is changed after a first use (append / remove / replace an entry / a new
    list), and a second design wired for the OLD or for the NEW list: refused, or exported well-formed"""
    import hdl21 as h

    def mk(edit, wired_for, first_use):
        def b():
            E = h.ExternalModule(name="Evolving", port_list=[h.Inout(name="a"), h.Inout(name="b")], desc="", domain="c6e")
            if first_use != "none":
                f = h.Module(name="FirstUser")
                f.x, f.y = h.Signal(), h.Signal()
                f.u = E()(a=f.x, b=f.y)
                if first_use == "export":
                    h.to_proto(f)
                elif first_use == "elaborate":
                    h.elaborate(f)
                else:
                    list(E.ports)
            if edit == "append":
                E.port_list.append(h.Inout(name="c"))
            elif edit == "remove":
                E.port_list.pop()
            elif edit == "widen":
                E.port_list[1] = h.Inout(name="b", width=2)
            elif edit == "rename":
                E.port_list[1] = h.Inout(name="bb")
            else:
                E.port_list = [h.Inout(name="a"), h.Inout(name="b"), h.Inout(name="c")]
            m = h.Module(name="SecondUser")
            m.x, m.y, m.z = h.Signal(), h.Signal(), h.Signal()
            m.w2 = h.Signal(width=2)
            old = dict(a=m.x, b=m.y)
            new = {"append": dict(a=m.x, b=m.y, c=m.z), "remove": dict(a=m.x), "widen": dict(a=m.x, b=m.w2),
                   "rename": dict(a=m.x, bb=m.y), "new-list": dict(a=m.x, b=m.y, c=m.z)}[edit]
            m.u = E()(**(old if wired_for == "old" else new))
            return m
        return b
    for edit in ("append", "remove", "widen", "rename", "new-list"):
        for wired_for in ("old", "new"):
            for first_use in ("none", "ports-read", "elaborate", "export"):
                yield (f"extmodule-edited/{edit}/wired-for-{wired_for}/first-use-{first_use}", mk(edit, wired_for, first_use))


def faulted_programs():
    """the single-fault family of C02: a package, if one is returned at all, must still be well-formed"""
    from props import c02
    for desc, build in c02.faults():
        yield ("faulted/" + desc, build)


def adversarial_programs():
    """designs whose own names equal the names the elaborator invents (C05's family): whatever is exported for them must
    declare every signal it connects"""
    from props import c05
    for desc, build in c05.adversarial_designs():
        yield ("adversarial/" + desc, build)


def param_programs():
    """instances whose parameters are partly or wholly unset (None), given as a param-class, as a dictionary (external
    modules declared with paramtype=dict), by a PDK compile that fills a dictionary from a param-class (ASAP7), or as the
    renamed dictionary of the pulse source"""
    import hdl21 as h
    from hdl21.prefix import n as nano

    def dict_ext(vals, depth):
        def b():
            E = h.ExternalModule(name="DictP", port_list=[h.Inout(name="a"), h.Inout(name="b")], desc="", domain="c06p", paramtype=dict)
            m = h.Module(name="DictTop")
            m.x, m.y = h.Signal(), h.Signal()
            m.i = E(dict(vals))(a=m.x, b=m.y)
            m.j = E(dict(vals))(a=m.y, b=m.x)
            for k in range(depth):
                p = h.Module(name=f"DictWrap{k}")
                p.inner = m()
                m = p
            return m
        return b
    sets = {"one-unset": dict(w=1, l=None, model="nch"), "all-unset": dict(w=None, l=None), "none-unset": dict(w=1 * nano, l="2*k", nf=3),
            "first-unset": dict(a=None, b=2.5, c="x"), "empty": {}}
    for name, vals in sets.items():
        for depth in (0, 1):
            yield (f"params/dict/{name}/depth{depth}", dict_ext(vals, depth))

    def asap7(kind):
        def b():
            import asap7_hdl21 as a7
            m = h.Module(name="A7Inv")
            m.i, m.o, m.vdd, m.vss = h.Input(), h.Output(), h.Port(), h.Port()
            if kind == "defaults":
                m.n = h.Nmos()(d=m.o, g=m.i, s=m.vss, b=m.vss)
                m.p = h.Pmos()(d=m.o, g=m.i, s=m.vdd, b=m.vdd)
            else:
                m.n = h.Nmos(npar=2)(d=m.o, g=m.i, s=m.vss, b=m.vss)
                m.p = h.Pmos(vth=h.MosVth.LOW)(d=m.o, g=m.i, s=m.vdd, b=m.vdd)
            h.pdk.compile(m, a7)
            return m
        return b
    try:
        import asap7_hdl21  # noqa: F401
        for kind in ("defaults", "some-set"):
            yield (f"params/asap7-compiled/{kind}", asap7(kind))
    except ImportError:
        pass

    def classes(which):
        def b():
            m = h.Module(name="PcTop")
            m.a, m.b = h.Signal(), h.Signal()
            if which == "mos-defaults":
                m.x = h.Nmos()(d=m.a, g=m.b, s=m.a, b=m.b)
            elif which == "res":
                m.x = h.PhysicalResistor(model="rp")(p=m.a, n=m.b)
            else:
                m.x = h.Vdc(dc=1)(p=m.a, n=m.b)
                m.y = h.Vpulse(v1=0, v2=1, delay=0, rise=1 * nano, fall=1 * nano, width=2 * nano, period=5 * nano)(p=m.b, n=m.a)
            return m
        return b
    for which in ("mos-defaults", "res", "sources"):
        yield (f"params/paramclass/{which}", classes(which))

    # generated modules whose parameter values are written with dots (floats, paths): module names are dot-separated
    # paths, which importers and netlisters split - two such modules in one design must stay two sub-circuits
    def dotted(kind):
        def b():
            @h.paramclass
            class DP:
                w = h.Param(dtype=float, desc="w", default=1.0)
                path = h.Param(dtype=str, desc="p", default="x")
                n = h.Param(dtype=int, desc="n", default=1)

            @h.generator
            def DotGen(p: DP) -> h.Module:
                m = h.Module()
                m.a = h.Port()
                m.r = h.R(r=p.w)(p=m.a, n=m.a)
                return m

            @h.generator
            def DotOther(p: DP) -> h.Module:
                m = h.Module()
                m.a = h.Port()
                m.c = h.C(c=p.w)(p=m.a, n=m.a)
                return m
            top = h.Module(name="DotTop")
            top.s = h.Signal()
            calls = {"two-floats": (DotGen(w=1.5), DotGen(w=2.5)), "two-generators": (DotGen(w=1.5), DotOther(w=1.5)),
                     "paths": (DotGen(path="a/m.lib"), DotGen(path="b/m.lib")), "one-float": (DotGen(w=0.5),),
                     "whole-floats": (DotGen(w=2.0), DotGen(w=12.0)), "ints": (DotGen(n=2), DotGen(n=12)),
                     "dots-only": (DotGen(path="."), DotGen(path="..")),
                     "float-vs-int-text": (DotGen(w=1.0, path="5"), DotGen(w=15.0, path=""))}[kind]
            for k, c in enumerate(calls):
                top.add(c(a=top.s), name=f"g{k}")
            return top
        return b
    for kind in ("two-floats", "two-generators", "paths", "one-float", "whole-floats", "ints", "dots-only", "float-vs-int-text"):
        yield (f"params/dotted-generated-names/{kind}", dotted(kind))


def check_pkg(case):
    import hdl21 as h
    from rtc.wf import wf_package
    desc, build = case
    from props.c02 import NotAFault
    try:
        top = build()
    except NotAFault:
        return None      # (a C02 builder whose late edit was refused without trace: nothing to look at)
    try:
        pkg = h.to_proto(top)
    except Exception:
        return None      # C06 speaks about packages that ARE returned (C01 covers rejected valid designs)
    tag = desc.split("@")[0] if desc.startswith("faulted/") else desc.split("/")[0]
    problems = wf_package(pkg, netlisters=())          # closure, self-consistency, from_proto
    if problems:
        return (f"to_proto.post.wf_package/{problems[0].split(':')[-1].strip().split(' ')[0]}/{tag}",
                f"{desc}: {problems[0][:300]}", {"design": desc})
    problems = wf_package(pkg, roundtrip=False)        # ... and the two netlisters
    if problems:
        return (f"to_proto.post.wf_package/netlisters/{tag}", f"{desc}: {problems[0][:300]}", {"design": desc})
    return None


def run(ctx):
    from props import c01_deductive
    c01_deductive.run(ctx)
    from contracts import c_export
    ctx.verify(c_export.names_engine(), c_export.VERIFY_NAMES)
    from contracts import c_extmod
    key, obs, info = c_extmod.port_loop_obligations()
    for u in info.get("unsupported", []):
        ctx.unsupported.append((key, u))
    if len(obs) < 1 and not info.get("unsupported"):
        ctx.checker_errors.append(f"no obligation generated for the port loop of {key}")
    ctx.discharge(obs, key + " [port loop body: one declared signal of the port's name and width, one port naming it]", info)
    key, obs, info = c_extmod.module_loop_obligations()
    for u in info.get("unsupported", []):
        ctx.unsupported.append((key, u))
    if len(obs) < 4 and not info.get("unsupported") and not info.get("iteration_offenders"):
        ctx.checker_errors.append(f"only {len(obs)} obligations for the loops of {key}")
    ctx.frame_audit(key + "/iteration-sources", info.get("iteration_offenders", []),
                    "a loop of export_module no longer runs over the module's whole collection as written",
                    n=max(1, info.get("iteration_sources", 0)))
    ctx.discharge(obs, key + " [signal / port / instance / literal loops: one record per element, appended last]", info)
    ctx.assumptions.append("export_module: its three loops are proved per iteration, and their iteration sources are "
                           "compared as source text; export_instance's frame (never the lists of the record under "
                           "construction) is assumed; the memo / name tables are decided by the bounded part")
    ctx.assumptions.append("export_external_module: the port loop is proved per iteration (one arbitrary port, arbitrary "
                           "earlier entries); the induction over port_list and protobuf's repeated-field append are assumed")
    from props.c01 import concat_designs
    cases = itertools.chain(design_family(ctx.tier, ctx.seed), concat_designs(), extra_programs(), compiled_programs(), edited_programs(), edited_after_export_programs(), faulted_programs(),
                            adversarial_programs(), param_programs(), extmodule_edit_programs(), repaired_parent_programs(), attribute_like_programs(), two_domain_programs())
    ctx.run_bounded("wf_package(to_proto(design))", cases, check_pkg,
                    rule=RULE + "; every concatenation of two or three pieces of one bus (C01's family, 285 designs); sample-PDK-compiled and walked designs holding two- and three-terminal passives of equal parameters (24); plus Series/MosStack/Wrapper over small parameter ranges; modules whose names were "
                         "re-used for another kind (16 pairs); modules edited after a first export (7 edits x 2 depths); the single-fault designs of C02 (a package returned for "
                         "one of them must still be well-formed); the adversarially named designs of C05; instances with unset (None) parameters in param-classes, parameter dictionaries, ASAP7-compiled devices (15); generated modules whose parameter values are written with dots (8); refused moves of held objects on exported modules (10); external modules whose pin list changes after a first use, second design wired for the old or the new list (40); parents repaired after a child's fault was reported, carrying a fault of their own (12)",
                    bound="depth<=3, widths<=4 (8 thorough)", key_of=lambda c: c[0],
                    nontrivial=lambda c: nontrivial(c[0]))
    return INFO


def replay(payload):
    want = (payload.get("input") or {}).get("design")
    if want:
        for tier in ("quick", "thorough"):
            for desc, b in itertools.chain(design_family(tier, 0), extra_programs(), edited_programs(), edited_after_export_programs(), faulted_programs(),
                            adversarial_programs(), param_programs(), extmodule_edit_programs(), repaired_parent_programs(), attribute_like_programs(), two_domain_programs()):
                if desc == want:
                    r = check_pkg((desc, b))
                    print("replay:", r)
                    return 1 if r else 0
    print("nothing to replay natively; obligation:", payload.get("obligation"))
    return 2
