"""C04 - the last connection made to a port is the one that gets built."""
import itertools
import random

from pyvc import *
from contracts.common import *
from contracts import c_instance as ci
from rtc.heapinv import inv_conn_runtime, inv_refs_runtime

INFO = {
    "level": "other",
    "explanation": "hybrid: Inv_conn/Inv_refs and whole-view postconditions of connect/replace/disconnect/_get_connref/"
                   "_get_portref proved from the current source (pyvc, quantified heap invariants, z3); operation "
                   "histories on real objects checked at run time (bounded)",
    "trusted_base": ["pyvc heap encoding (field arrays; containers unshared)", "z3", "rtc reference semantics"],
}

KINDS = ["signal", "slice", "concat", "portref", "noconn", "bundle", "bundleref", "anon", "dict"]


def universe():
    """Fresh real objects: 2 instances x 2 ports, one connectable of every kind (twice)."""
    import hdl21 as h

    @h.bundle
    class B:
        x = h.Signal()
        y = h.Signal()

    @h.module
    class Child:
        a = h.Port()
        b = h.Port()
        q = B(port=True)
    i0 = h.Instance(of=Child, name="i0")
    i1 = h.Instance(of=Child, name="i1")
    other = h.Instance(of=Child, name="other")
    s = h.Signal(name="s", width=2)
    t = h.Signal(name="t")
    bi = B(name="bi")
    conns = {
        "signal": [t, h.Signal(name="u")],
        "slice": [s[0], s[1]],
        "concat": [h.Concat(t), h.Concat(s[0])],
        "portref": [other.a, other.b],
        "noconn": [h.NoConn(), h.NoConn(name="nc")],
        "bundle": [bi, B(name="bj")],
        "bundleref": [bi.x, bi.y],
        "anon": [h.AnonymousBundle(x=t, y=s[0]), dict(x=t, y=t)],
        # ONE dictionary object, handed over again and again; using it as object #1 changes its contents first
        "dict": [dict(x=t, y=s[1])],
    }
    return [i0, i1], other, conns


OPS = ("call", "setattr", "connect", "replace", "disconnect")


def histories(rnd, n, maxlen):
    for _ in range(n):
        L = rnd.randint(1, maxlen)
        yield tuple((rnd.choice(OPS), rnd.randrange(2), rnd.choice(("a", "b", "q")), rnd.choice(KINDS),
                     rnd.randrange(2)) for _ in range(L))


def small_histories():
    """Every pair (first op, second op) on one port with every replaced/replacing kind."""
    for k1 in KINDS:
        for k2 in KINDS:
            for op2 in OPS:
                yield (("connect", 0, "a", k1, 0), (op2, 0, "a", k2, 1))
                yield (("call", 0, "a", k1, 0), ("connect", 1, "a", k1, 0), (op2, 0, "a", k2, 0))


def check_history(hist):
    """Run the history on real objects; after every operation evaluate the run-time contract:
    conns' == expected view, Inv_conn, Inv_refs, return values and KeyError conditions."""
    insts, other, conns = universe()
    allinst = insts + [other]
    allconn = [c for lst in conns.values() for c in lst if not isinstance(c, dict)]
    view = {}        # (inst idx, port) -> object   (the specification's view)
    import hdl21 as _h
    # frame: connecting, replacing or disconnecting a port never changes what a connectable object CONTAINS (an anonymous
    # bundle that sits on another port as well must not be rewritten behind that port's back)
    content = {id(o): (o, dict(o._namespace)) for o in allconn if isinstance(o, _h.AnonymousBundle)}
    for step, (op, ii, port, kind, which) in enumerate(hist):
        for o, was in content.values():
            if {k_: id(v_) for k_, v_ in o._namespace.items()} != {k_: id(v_) for k_, v_ in was.items()}:
                return ("frame.connectable-content", f"before step {step} of {hist!r}: an anonymous bundle holds "
                                                     f"{sorted(o._namespace)} -> other objects than when it was made")
        inst = insts[ii]
        if kind == "dict":
            c = conns["dict"][0]
            if which == 1:
                c["x"] = conns["signal"][1] if c["x"] is conns["signal"][0] else conns["signal"][0]
            if op == "replace":
                import hdl21 as h
                c = h.AnonymousBundle(**c)
                allconn.append(c)
        else:
            c = conns[kind][which]
        if isinstance(c, dict) and op == "replace":
            # replace() takes Connectables only; the dict shorthand is a feature of connect / call / setattr
            import hdl21 as h
            c = conns[kind][which] = h.AnonymousBundle(**c)
            allconn.append(c)
        before = dict(inst.conns)
        try:
            if op == "call":
                r = inst(**{port: c})
                exp_ret = inst
            elif op == "setattr":
                setattr(inst, port, c)
                r = exp_ret = None
            elif op == "connect":
                r = inst.connect(port, c)
                exp_ret = inst
            elif op == "replace":
                exp_ret = before.get(port)
                r = inst.replace(port, c)
            else:
                exp_ret = before.get(port)
                r = inst.disconnect(port)
        except KeyError:
            if op in ("replace", "disconnect") and port not in before:
                continue     # documented: KeyError when the port is not connected
            return ("raises.KeyError", f"{op} on connected port raised KeyError at step {step} of {hist!r}")
        except Exception as e:
            return (f"raises.{type(e).__name__}", f"step {step} of {hist!r}: {type(e).__name__}: {e}")
        if op in ("replace", "disconnect") and port not in before:
            return ("rejects.not-connected", f"{op} of unconnected port returned normally at step {step} of {hist!r}")
        if op == "disconnect":
            view.pop((ii, port), None)
        else:
            view[(ii, port)] = dict(c) if isinstance(c, dict) else c     # a dictionary means what it held when connected
        if r is not exp_ret:
            return ("post.result", f"{op} returned {r!r}, expected {exp_ret!r} at step {step} of {hist!r}")
        # whole view
        for k, i in enumerate(insts):
            want = {p: v for (kk, p), v in view.items() if kk == k}
            got = dict(i.conns)
            if set(got) != set(want):
                return ("post.view", f"after step {step} of {hist!r}: conns keys {sorted(got)} != {sorted(want)}")
            for p, v in want.items():
                g = got[p]
                if isinstance(v, dict):
                    import hdl21 as h
                    if not isinstance(g, h.AnonymousBundle) or {n: id(x) for n, x in g._namespace.items()} != \
                            {n: id(x) for n, x in v.items()}:
                        return ("post.view", f"dict connection not turned into the same anonymous bundle: {hist!r}")
                    allconn.append(g) if not any(g is x for x in allconn) else None
                elif g is not v:
                    return ("post.view", f"after step {step} of {hist!r}: conns[{p}] is not the connected object")
        bad = inv_conn_runtime(allinst, allconn) + inv_refs_runtime(allinst)
        if bad:
            return ("post.inv", f"after step {step} of {hist!r}: {bad[0]}")
    for o, was in content.values():
        if {k_: id(v_) for k_, v_ in o._namespace.items()} != {k_: id(v_) for k_, v_ in was.items()}:
            return ("frame.connectable-content", f"after {hist!r}: an anonymous bundle no longer holds the objects it was made of")
    return None


ARRAYLIKE_CASES = [(target, how1, how2) for target in ("instance", "array", "array1", "pair")
                   for how1 in ("call", "setattr", "connect") for how2 in ("call", "setattr", "connect", "replace")]


def check_arraylike(case):
    """re-connection of the ports of an instance / instance array / instance pair of a two-terminal device, whose ports are
    called `p` and `n` (an array also HAS an attribute `n`, its size): the last connection made is what `conns` holds and
    what is built"""
    import hdl21 as h
    from rtc.meaning import package_meaning, InvalidPackage
    target, how1, how2 = case
    w = {"arraylike_case": repr(case)}
    m = h.Module(name="ArrLike")
    m.s1, m.s2, m.s3, m.s4 = h.Signals(4)
    m.d1, m.d2 = h.Diff(), h.Diff()
    pair = target == "pair"
    inst = {"instance": lambda: h.R(r=1)(), "array": lambda: 2 * h.R(r=1)(), "array1": lambda: 1 * h.R(r=1)(),
            "pair": lambda: h.Pair(h.R(r=1))()}[target]()
    m.x = inst
    first = dict(p=m.d1, n=m.s1) if pair else dict(p=m.s1, n=m.s2)
    second = dict(p=m.d2, n=m.s3) if pair else dict(p=m.s3, n=m.s4)

    def conn(how, port, c):
        if how == "call":
            m.x(**{port: c})
        elif how == "setattr":
            setattr(m.x, port, c)
        elif how == "connect":
            m.x.connect(port, c)
        else:
            m.x.replace(port, c)
    try:
        for port in ("p", "n"):
            conn(how1, port, first[port])
        for port in ("n", "p"):
            conn(how2, port, second[port])
    except Exception as e:
        return (f"arraylike.raises.{type(e).__name__}", f"{case!r}: {type(e).__name__}: {str(e)[:120]}", w)
    for port in ("p", "n"):
        if m.x.conns.get(port) is not second[port]:
            return ("arraylike.view", f"{case!r}: after re-connecting, conns[{port!r}] is {m.x.conns.get(port)!r}", w)
    if target in ("array", "array1") and m.x.n != (2 if target == "array" else 1):
        return ("arraylike.size", f"{case!r}: the array now reports size {m.x.n!r}", w)
    try:
        pkg = h.to_proto(m)
        pm = package_meaning(pkg, "ArrLike")
    except Exception as e:
        return (f"arraylike.build.{type(e).__name__}", f"{case!r}: the final mapping is refused: {type(e).__name__}: {str(e)[-140:]}", w)
    pkgmod = [x for x in pkg.modules if x.name.endswith("ArrLike")][0]
    for i_ in pkgmod.instances:
        for c_ in i_.connections:
            t_ = c_.target
            name = t_.sig if t_.WhichOneof("stype") == "sig" else t_.slice.signal if t_.WhichOneof("stype") == "slice" else ""
            if name in ("s1", "s2", "d1_p", "d1_n"):
                return ("arraylike.trace", f"{case!r}: {i_.name}.{c_.portname} is built on the REPLACED connection `{name}`", w)
    return None


ARRAY_OF_CONNECTED = [(first, mul, then) for first in ("sig", "bit", "ref", "bref") for mul in ("inst*2", "2*inst", "inst*1")
                      for then in (None, "setattr", "connect", "replace", "call", "disconnect-connect")]


def check_array_of_connected(case):
    """an Instance that already HAS its connections (to a signal, a bit, another instance's port, a bundle member) is
    turned into an array with `*`; the array's port is then left alone or connected again in each way: what is built is
    the last connection made, on every element"""
    import hdl21 as h
    first, mul, then = case
    w = {"array_of_connected_case": repr(case)}

    @h.bundle
    class AcBu:
        x, y = h.Signals(2)
    m = h.Module(name="ArrOfConn")
    m.s1, m.s2, m.s3, m.t = h.Signals(4)
    m.bus = h.Signal(width=4)
    m.bu = AcBu()
    m.other = h.R(r=2)(p=m.s2, n=m.t)
    c0 = {"sig": lambda: m.s1, "bit": lambda: m.bus[1], "ref": lambda: m.other.p, "bref": lambda: m.bu.x}[first]()
    want = {"sig": "s1", "bit": ("bus", 1, 1), "ref": "s2", "bref": "bu_x"}[first]
    try:
        inst = h.R(r=1)(p=c0, n=m.t)
        m.arr = {"inst*2": lambda: inst * 2, "2*inst": lambda: 2 * inst, "inst*1": lambda: inst * 1}[mul]()
        if then == "setattr":
            m.arr.p = m.s3
        elif then == "connect":
            m.arr.connect("p", m.s3)
        elif then == "replace":
            m.arr.replace("p", m.s3)
        elif then == "call":
            m.arr(p=m.s3)
        elif then == "disconnect-connect":
            m.arr.disconnect("p")
            m.arr.connect("p", m.s3)
        if then:
            want = "s3"
            if m.arr.conns.get("p") is not m.s3:
                return ("array-of-connected.view", f"{case!r}: conns['p'] is {m.arr.conns.get('p')!r}", w)
        pkg = h.to_proto(m)
    except Exception as e:
        return (f"array-of-connected.raises.{type(e).__name__}", f"{case!r}: {type(e).__name__}: {str(e)[:140]}", w)
    pm = [x for x in pkg.modules if x.name.endswith("ArrOfConn")][0]
    n = 1 if mul == "inst*1" else 2
    elems = [i for i in pm.instances if i.name.startswith("arr")]
    if len(elems) != n:
        return ("array-of-connected.elements", f"{case!r}: {len(elems)} elements built, {n} wanted", w)
    for i_ in elems:
        got = {}
        for c_ in i_.connections:
            t_ = c_.target
            k = t_.WhichOneof("stype")
            got[c_.portname] = t_.sig if k == "sig" else (t_.slice.signal, t_.slice.top, t_.slice.bot) if k == "slice" else k
        if got.get("p") != want or got.get("n") != "t":
            return ("array-of-connected.built", f"{case!r}: {i_.name} is built on {got}, wanted p on {want} and n on t", w)
    return None


OPEN_CASES = [(target, how, first) for target in ("instance", "array") for how in ("call", "setattr", "connect", "replaced-then")
              for first in ("sig", "bit", "cat", "noconn", "ref", "bref")]


def check_open_after_disconnect(case):
    """a port connected (to anything, in any way) and then disconnect()ed is an OPEN port: the design is refused exactly as
    it is when the port was never connected - no net is invented for it"""
    import hdl21 as h
    target, how, first = case
    w = {"open_case": repr(case)}

    def build(history):
        E = h.ExternalModule(name="OpenE", port_list=[h.Inout(name="a"), h.Inout(name="b")], desc="", domain="c04o")
        m = h.Module(name="OpenTop")
        m.s1, m.s2 = h.Signal(), h.Signal()
        m.bus = h.Signal(width=2)
        B = h.Bundle(name="OpenB")
        B.add(h.Signal(name="x"))
        m.bb = B()
        m.other = E()(a=m.s2, b=m.s2)
        inst = E()(a=m.s1)
        if target == "array":
            inst = 2 * inst
        m.i = inst
        if history:
            c = {"sig": lambda: m.s2, "bit": lambda: m.bus[1], "cat": lambda: h.Concat(m.bus[0]), "noconn": lambda: h.NoConn(),
                 "ref": lambda: m.other.b, "bref": lambda: m.bb.x}[first]()
            if how == "call":
                m.i(b=c)
            elif how == "setattr":
                m.i.b = c
            elif how == "connect":
                m.i.connect("b", c)
            else:
                m.i.b = m.s2
                m.i.replace("b", c)
            m.i.disconnect("b")
        return m

    def outcome(m):
        try:
            pkg = h.to_proto(m)
        except Exception as e:
            return ("refused", type(e).__name__)
        pm = [x for x in pkg.modules if x.name.endswith("OpenTop")][0]
        return ("built", sorted(s_.name for s_ in pm.signals))
    never, after = outcome(build(False)), outcome(build(True))
    if never[0] != "refused":
        return ("open.harness", f"{case!r}: the design with a never-connected port was accepted: {never}", w)
    if after != never:
        return ("open.net-invented", f"{case!r}: port `b` connected and then disconnected: {after}; never connected: {never}", w)
    return None


# ------------------------------------------------------------------------------------------------ elaborated histories
# The property speaks about the ELABORATED design: after any history ending in a complete valid mapping, the exported
# nets are exactly those of the final mapping.  The expected nets are computed from the history alone (a specification
# view: last operation per port; a port reference denotes whatever that port is finally on), never from the objects.
E_PORTS = ("a", "b")
E_FORMS = ("call", "setattr", "connect", "replace", "callbad")


def elab_histories(rnd, n, maxlen):
    tg = [("sig", k) for k in range(3)] + [("ref", i, p) for i in range(3) for p in E_PORTS] + [("noconn",), ("bit", 0),
                                                                                              ("bit", 1), ("cat", 0)]
    tg += [("held", i, p) for i in range(3) for p in E_PORTS] + [("catref", i, p) for i in range(3) for p in E_PORTS]
    tg += [("bref", 0), ("bref", 1)]
    tg += [("refbit", i, p) for i in range(3) for p in E_PORTS]
    tg += [("catlive", i, p) for i in range(3) for p in E_PORTS]
    for _ in range(n):
        L = rnd.randint(2, maxlen)
        yield tuple((rnd.choice(E_FORMS + ("disconnect",)), rnd.randrange(3), rnd.choice(E_PORTS), rnd.choice(tg))
                    for _ in range(L))


def small_elab_histories():
    """reference taken while the port is on X, port re-connected to Y afterwards (every X, Y); replaced references;
    a reference that was replaced before the port got a no-connect"""
    xs = [("sig", 0), ("ref", 2, "a"), ("noconn",), ("bit", 0), ("cat", 0), ("bref", 0)]
    ys = [("sig", 1), ("ref", 2, "b"), ("bit", 1), ("noconn",), ("bref", 1)]
    for x in xs:
        for y in ys:
            for f in ("setattr", "replace", "connect"):
                yield (("setattr", 0, "a", x), ("setattr", 1, "a", ("ref", 0, "a")), (f, 0, "a", y))
                yield (("setattr", 1, "a", ("ref", 0, "a")), ("setattr", 0, "a", x), (f, 0, "a", y))
                yield (("setattr", 0, "a", x), ("setattr", 1, "a", ("ref", 0, "a")), (f, 1, "a", y), ("setattr", 0, "a", y))
    # one PortRef object used directly AND held elsewhere (a saved variable, a concatenation); the direct use replaced
    for keep in (("held", 0, "a"), ("catref", 0, "a")):
        for f in ("setattr", "replace", "connect"):
            for y in (("sig", 1), ("bit", 0)):
                yield (("setattr", 1, "a", ("held", 0, "a")), ("setattr", 2, "a", keep), (f, 1, "a", y), ("setattr", 0, "a", ("sig", 0)))
                yield (("setattr", 1, "a", ("held", 0, "a")), (f, 1, "a", y), ("setattr", 2, "a", keep), ("setattr", 0, "a", ("sig", 0)))
                yield (("setattr", 1, "a", ("held", 0, "a")), ("disconnect", 1, "a", None), ("setattr", 2, "a", keep),
                       ("setattr", 1, "a", y), ("setattr", 0, "a", ("sig", 0)))
    # a refused by-call in the middle of a history that goes on: what it connected before being refused stands, and later
    # re-connections of that port start from it
    for x in xs:
        for y in ys:
            yield (("setattr", 0, "a", x), ("callbad", 0, "a", ("ref", 1, "a")), ("setattr", 0, "a", y), ("setattr", 1, "a", ("sig", 2)))
            yield (("setattr", 1, "a", ("ref", 0, "a")), ("callbad", 0, "a", x), ("replace", 0, "a", y))
            yield (("setattr", 0, "a", x), ("callbad", 0, "a", ("held", 1, "a")), ("disconnect", 0, "a", None), ("setattr", 0, "a", y))
    for f in ("setattr", "call", "connect", "replace"):
        for x in xs:
            for selfref in (("ref", 0, "a"), ("held", 0, "a")):
                yield (("setattr", 0, "a", x), ("setattr", 1, "a", ("ref", 0, "a")), (f, 0, "a", selfref))
                yield (("setattr", 0, "a", x), (f, 0, "a", selfref), ("setattr", 1, "a", ("ref", 0, "a")), ("setattr", 2, "a", x))
    # a concatenation of a port reference made while the port is on X; the port re-connected afterwards
    for x in xs:
        for y in ys:
            for f in ("setattr", "call", "replace", "connect"):
                yield (("setattr", 0, "a", x), ("setattr", 1, "a", ("catlive", 0, "a")), (f, 0, "a", y))
    # bit 0 of a port REFERENCE, taken while the port is on X; the port re-connected (or disconnected) afterwards
    for x in xs:
        for y in ys:
            for f in ("setattr", "call", "replace", "connect"):
                yield (("setattr", 0, "a", x), ("setattr", 1, "a", ("refbit", 0, "a")), (f, 0, "a", y))
        yield (("setattr", 0, "a", x), ("setattr", 1, "a", ("refbit", 0, "a")), ("disconnect", 0, "a", None))
        yield (("setattr", 0, "a", x), ("setattr", 1, "a", ("refbit", 0, "a")), ("disconnect", 0, "a", None), ("setattr", 0, "a", ("sig", 1)))
    for y in ys:
        yield (("setattr", 1, "a", ("ref", 0, "a")), ("setattr", 1, "a", ("sig", 2)), ("setattr", 0, "a", y))
        yield (("setattr", 1, "a", ("ref", 0, "a")), ("disconnect", 1, "a", None), ("setattr", 0, "a", y))


def check_elab_history(hist):
    import hdl21 as h
    from rtc.meaning import package_meaning
    E = h.ExternalModule(name="E2", port_list=[h.Inout(name="a"), h.Inout(name="b")], desc="", domain="c04")
    top = h.Module(name="C04Top")
    sigs = [top.add(h.Signal(name=f"s{k}")) for k in range(3)]
    bus = top.add(h.Signal(name="bus", width=2))
    insts = [top.add(E()(), name=f"i{k}") for k in range(3)]
    BB = h.Bundle(name="C04B")
    BB.add(h.Signal(name="x"))
    BB.add(h.Signal(name="y"))
    bb = top.add(BB(), name="bb")
    view = {}
    # references saved before anything happens - only for the ports this history goes on to use them for (taking a
    # reference to a port is itself an event: a port that was never referred to is resolved through another route)
    held = {(t[1], t[2]): getattr(insts[t[1]], t[2]) for _, _, _, t in hist if t is not None and t[0] in ("held", "catref")}

    def obj(t):
        if t[0] == "sig":
            return sigs[t[1]]
        if t[0] == "ref":
            return getattr(insts[t[1]], t[2])
        if t[0] == "held":
            return held[(t[1], t[2])]
        if t[0] == "catref":
            return h.Concat(held[(t[1], t[2])])
        if t[0] == "catlive":
            return h.Concat(getattr(insts[t[1]], t[2]))      # the reference taken NOW, whatever the port is on at this moment
        if t[0] == "refbit":
            return getattr(insts[t[1]], t[2])[0]       # bit 0 of whatever that (one-bit) port ends up on
        if t[0] == "bit":
            return bus[t[1]]
        if t[0] == "cat":
            return h.Concat(bus[t[1]])
        if t[0] == "bref":
            return getattr(bb, "xy"[t[1]])        # an attribute of a bundle instance: a declared source like any signal
        return h.NoConn()
    w = {"elab_history": repr(hist)}
    for step, (op, i, p, t) in enumerate(hist):
        inst = insts[i]
        if t is not None and t[0] in ("catref", "refbit", "catlive") and (t[1], t[2]) == (i, p):
            continue                                  # a port connected to a concatenation of itself: declares no net at all
        # (a port connected to a reference to ITSELF - `i.p = i.p` - is a connection like any other: it replaces what the
        #  port was tied to, and the port, with everything referring to it, ends up on a net of its own)
        if op in ("replace", "disconnect") and (i, p) not in view:
            continue                                  # documented KeyError; covered by the data-structure histories
        try:
            if op == "call":
                inst(**{p: obj(t)})
            elif op == "callbad":
                # connect-by-call with a second keyword that is refused (not connectable): the exception is caught, the
                # first keyword's connection - made before the refusal - stands
                other = [q for q in E_PORTS if q != p][0]
                try:
                    inst(**{p: obj(t), other: 5})
                except TypeError:
                    pass
                else:
                    return ("elab.accepts-non-connectable", f"step {step} of {hist!r}: a by-call connection to 5 was accepted", w)
            elif op == "setattr":
                setattr(inst, p, obj(t))
            elif op == "connect":
                inst.connect(p, obj(t))
            elif op == "replace":
                inst.replace(p, obj(t))
            else:
                inst.disconnect(p)
        except Exception as e:
            return (f"elab.op-raises.{type(e).__name__}", f"step {step} of {hist!r}: {type(e).__name__}: {e}", w)
        if op == "disconnect":
            view.pop((i, p), None)
        else:
            view[(i, p)] = t
    # completion: every port explicitly connected, or referenced by a connection that is still live
    referenced = {(t[1], t[2]) for t in view.values() if t[0] in ("ref", "held", "catref", "refbit", "catlive")}
    for i in range(3):
        for p in E_PORTS:
            if (i, p) not in view and (i, p) not in referenced:
                view[(i, p)] = ("sig", 2)
                insts[i].connect(p, sigs[2])
    # a no-connected port that is also referenced is a different property's fault class (C02): not a valid end state
    if any(view.get(k, ("",))[0] == "noconn" for k in referenced):
        return None
    # a reference cycle that runs through a concatenation (i1.a = Concat(i2.a), i2.a = i1.a) declares no net at all: such
    # a mapping is not a valid end state (plain reference cycles are: they share one implicit signal)
    def cyclic_through_concat(start):
        seen, cur, through = set(), start, False
        while cur in view and view[cur][0] in ("ref", "held", "catref", "refbit", "catlive"):
            if cur in seen:
                return through
            seen.add(cur)
            through = through or view[cur][0] in ("catref", "refbit", "catlive")
            cur = (view[cur][1], view[cur][2])
        return False
    if any(cyclic_through_concat(k) for k in view):
        return None
    # expected partition of the device terminals
    parent = {}

    def find(x):
        parent.setdefault(x, x)
        while parent[x] != x:
            parent[x] = parent[parent[x]]
            x = parent[x]
        return x

    def union(a, b):
        parent[find(a)] = find(b)
    for i in range(3):
        for p in E_PORTS:
            find(("dev", i, p))
    for (i, p), t in view.items():
        if t[0] == "sig":
            union(("dev", i, p), ("sig", t[1]))
        elif t[0] in ("ref", "held", "catref", "refbit", "catlive"):
            union(("dev", i, p), ("dev", t[1], t[2]))
        elif t[0] in ("bit", "cat"):
            union(("dev", i, p), ("bus", t[1]))
        elif t[0] == "bref":
            union(("dev", i, p), ("bref", t[1]))
    want = {}
    for i in range(3):
        for p in E_PORTS:
            want.setdefault(find(("dev", i, p)), set()).add((f"i{i}", p))
    want = {frozenset(v) for v in want.values()}
    try:
        pkg = h.to_proto(top)
    except Exception as e:
        return (f"elab.raises.{type(e).__name__}", f"{hist!r}: valid final mapping {sorted(view.items())} rejected: "
                                                   f"{type(e).__name__}: {str(e)[:160]}", w)
    got = set()
    from rtc.meaning import InvalidPackage
    try:
        pmeaning = package_meaning(pkg, "C04Top")
    except InvalidPackage as e:
        return ("elab.nets", f"{hist!r}: the package exported for the final mapping is not a circuit: {str(e)[:160]}", w)
    for net in pmeaning.nets:
        devs = frozenset((t[1][0], t[2]) for t in net if t[0] == "dev")
        if devs:
            got.add(devs)
    if got != want:
        d = sorted(map(sorted, got ^ want))
        return ("elab.nets", f"{hist!r}: final mapping {sorted(view.items())}: exported nets differ from the mapping's "
                             f"in {d[:3]}", w)
    return None


def run(ctx):
    thorough = ctx.tier == "thorough"
    eng = mk_engine(contracts=ci.CONTRACTS, inline=ci.INLINE, field_classes=ci.FIELD_CLASSES)
    ctx.verify(eng, ci.CONTRACTS, min_obligations={c.key: 5 for c in ci.CONTRACTS})
    ctx.verify(ci.init_engine(), ci.VERIFY_INIT)
    key, obs, info = ci.call_obligations()
    for u in info.get("unsupported", []):
        ctx.unsupported.append((key, u))
    if len(obs) < 5 and not info.get("unsupported"):
        ctx.checker_errors.append(f"only {len(obs)} connect-by-call obligations")
    ctx.discharge(obs, key + " [keyword loop body]", info)
    ctx.frame_audit("hdl21.instance:ownership-audit", ci.audit_ownership(),
                    "conns / _connected_ports written outside connect / replace / disconnect")
    ctx.assumptions.append("Inv_conn/Inv_refs hold in every reachable state by induction: established by the Instance "
                           "constructor (proved), preserved by connect/replace/disconnect (proved), and nothing else "
                           "writes the two structures (syntactic audit). InstanceArray / InstanceBundle constructors "
                           "run the same base constructor but are not separately verified; elaboration passes change "
                           "connections only through the three methods")
    rnd = random.Random(ctx.seed)
    cases = itertools.chain(small_histories(), histories(rnd, 30000 if thorough else 4000, 6 if thorough else 4))
    ctx.run_bounded(
        "operation-histories", cases,
        lambda hcase: (lambda r: None if r is None else (f"hdl21.instance:history/{r[0]}", r[1],
                                                       {"history": repr(hcase)}))(check_history(hcase)),
        rule="sequences of call/setattr/connect/replace/disconnect over 2 instances x 3 ports (one bundle-valued) x 9 "
             "connectable kinds (incl. one dictionary object re-used after its contents changed) x 2 objects per kind; exhaustive 2-3 step family + seeded random histories; after every "
             "step: returned value, whole conns view, Inv_conn, Inv_refs; distinct = distinct history; non-trivial = "
             "length >= 2",
        bound="length<=%d" % (6 if thorough else 4), key_of=repr, nontrivial=lambda hcase: len(hcase) >= 2)
    ctx.run_bounded("two-terminal-instances-arrays-pairs", ARRAYLIKE_CASES, check_arraylike,
                    rule="ports p and n of an instance / array (n = 2, 1) / pair of resistors connected by call, assignment or "
                         "connect(), then re-connected (n first) by call, assignment, connect() or replace(): conns holds the "
                         "last connection, the array keeps its size, and nothing is built on the replaced signals",
                    bound="4 targets x 3 x 4 ways", key_of=repr)
    ctx.run_bounded("array-of-connected-instance", ARRAY_OF_CONNECTED, check_array_of_connected,
                    rule="an instance already connected to a signal, bit, port reference or bundle member is made an array with "
                         "`*` (either side, n = 2, 1); its port is left alone or connected again by assignment, connect(), "
                         "replace(), call, or disconnect-then-connect: every element is built on the last connection made",
                    bound="4 first connections x 3 products x 6 continuations", key_of=repr)
    ctx.run_bounded("open-after-disconnect", OPEN_CASES, check_open_after_disconnect,
                    rule="a port of an instance / array connected by call, assignment, connect() or replace() to a signal, bit, "
                         "concatenation, no-connect, port reference or bundle member, then disconnected and left open: the design "
                         "is refused exactly as with a never-connected port (no net is invented for it)",
                    bound="2 targets x 4 ways x 6 first connections", key_of=repr)
    cases = itertools.chain(small_elab_histories(), elab_histories(rnd, 20000 if thorough else 2500, 7 if thorough else 5))
    ctx.run_bounded(
        "elaborated-histories", cases, check_elab_history,
        rule="call/setattr/connect/replace/disconnect histories over 3 instances x 2 scalar ports with signals, bus "
             "bits, concatenations, no-connects, port references and bit 0 of a port reference (taken while the referred port is on anything, "
             "re-connected afterwards) as replaced and replacing objects; completed to a valid mapping, exported, and "
             "the exported nets compared with the partition computed from the history alone; exhaustive "
             "reference-then-reconnect family + seeded random histories",
        bound="length<=%d" % (7 if thorough else 5), key_of=repr, nontrivial=lambda hcase: len(hcase) >= 2)
    return INFO


def replay(payload):
    inp = payload.get("input") or {}
    if "elab_history" in inp:
        r = check_elab_history(eval(inp["elab_history"]))
        print("replay:", r)
        return 1 if r else 0
    if "arraylike_case" in inp:
        r = check_arraylike(eval(inp["arraylike_case"]))
        print("replay:", r)
        return 1 if r else 0
    if "array_of_connected_case" in inp:
        r = check_array_of_connected(eval(inp["array_of_connected_case"]))
        print("replay:", r)
        return 1 if r else 0
    if "open_case" in inp:
        r = check_open_after_disconnect(eval(inp["open_case"]))
        print("replay:", r)
        return 1 if r else 0
    if "history" in inp:
        r = check_history(eval(inp["history"]))
        print("replay:", r)
        return 1 if r else 0
    print("nothing to replay natively; obligation:", payload.get("obligation"))
    return 2
