"""C04 - the last connection made to a port is the one that gets built."""
import itertools
import random

from pyvc import *
from contracts.common import *
from contracts import c_instance as ci
from rtc.heapinv import inv_conn_runtime, inv_refs_runtime

INFO = {
    "level": "other",
    "explanation": "hybrid: Inv_conn/Inv_refs and whole-view postconditions of connect/replace/disconnect/_get_connref/"
                   "_get_portref proved from the current source (pyvc, quantified heap invariants, z3); operation "
                   "histories on real objects checked at run time (bounded)",
    "trusted_base": ["pyvc heap encoding (field arrays; containers unshared)", "z3", "rtc reference semantics"],
}

KINDS = ["signal", "slice", "concat", "portref", "noconn", "bundle", "bundleref", "anon"]


def universe():
    """Fresh real objects: 2 instances x 2 ports, one connectable of every kind (twice)."""
    import hdl21 as h

    @h.bundle
    class B:
        x = h.Signal()
        y = h.Signal()

    @h.module
    class Child:
        a = h.Port()
        b = h.Port()
        q = B(port=True)
    i0 = h.Instance(of=Child, name="i0")
    i1 = h.Instance(of=Child, name="i1")
    other = h.Instance(of=Child, name="other")
    s = h.Signal(name="s", width=2)
    t = h.Signal(name="t")
    bi = B(name="bi")
    conns = {
        "signal": [t, h.Signal(name="u")],
        "slice": [s[0], s[1]],
        "concat": [h.Concat(t), h.Concat(s[0])],
        "portref": [other.a, other.b],
        "noconn": [h.NoConn(), h.NoConn(name="nc")],
        "bundle": [bi, B(name="bj")],
        "bundleref": [bi.x, bi.y],
        "anon": [h.AnonymousBundle(x=t, y=s[0]), dict(x=t, y=t)],
    }
    return [i0, i1], other, conns


OPS = ("call", "setattr", "connect", "replace", "disconnect")


def histories(rnd, n, maxlen):
    for _ in range(n):
        L = rnd.randint(1, maxlen)
        yield tuple((rnd.choice(OPS), rnd.randrange(2), rnd.choice(("a", "b", "q")), rnd.choice(KINDS),
                     rnd.randrange(2)) for _ in range(L))


def small_histories():
    """Every pair (first op, second op) on one port with every replaced/replacing kind."""
    for k1 in KINDS:
        for k2 in KINDS:
            for op2 in OPS:
                yield (("connect", 0, "a", k1, 0), (op2, 0, "a", k2, 1))
                yield (("call", 0, "a", k1, 0), ("connect", 1, "a", k1, 0), (op2, 0, "a", k2, 0))


def check_history(hist):
    """Run the history on real objects; after every operation evaluate the run-time contract:
    conns' == expected view, Inv_conn, Inv_refs, return values and KeyError conditions."""
    insts, other, conns = universe()
    allinst = insts + [other]
    allconn = [c for lst in conns.values() for c in lst if not isinstance(c, dict)]
    view = {}        # (inst idx, port) -> object   (the specification's view)
    for step, (op, ii, port, kind, which) in enumerate(hist):
        inst = insts[ii]
        c = conns[kind][which]
        if isinstance(c, dict) and op == "replace":
            # replace() takes Connectables only; the dict shorthand is a feature of connect / call / setattr
            import hdl21 as h
            c = conns[kind][which] = h.AnonymousBundle(**c)
            allconn.append(c)
        before = dict(inst.conns)
        try:
            if op == "call":
                r = inst(**{port: c})
                exp_ret = inst
            elif op == "setattr":
                setattr(inst, port, c)
                r = exp_ret = None
            elif op == "connect":
                r = inst.connect(port, c)
                exp_ret = inst
            elif op == "replace":
                exp_ret = before.get(port)
                r = inst.replace(port, c)
            else:
                exp_ret = before.get(port)
                r = inst.disconnect(port)
        except KeyError:
            if op in ("replace", "disconnect") and port not in before:
                continue     # documented: KeyError when the port is not connected
            return ("raises.KeyError", f"{op} on connected port raised KeyError at step {step} of {hist!r}")
        except Exception as e:
            return (f"raises.{type(e).__name__}", f"step {step} of {hist!r}: {type(e).__name__}: {e}")
        if op in ("replace", "disconnect") and port not in before:
            return ("rejects.not-connected", f"{op} of unconnected port returned normally at step {step} of {hist!r}")
        if op == "disconnect":
            view.pop((ii, port), None)
        else:
            view[(ii, port)] = c
        if r is not exp_ret:
            return ("post.result", f"{op} returned {r!r}, expected {exp_ret!r} at step {step} of {hist!r}")
        # whole view
        for k, i in enumerate(insts):
            want = {p: v for (kk, p), v in view.items() if kk == k}
            got = dict(i.conns)
            if set(got) != set(want):
                return ("post.view", f"after step {step} of {hist!r}: conns keys {sorted(got)} != {sorted(want)}")
            for p, v in want.items():
                g = got[p]
                if isinstance(v, dict):
                    import hdl21 as h
                    if not isinstance(g, h.AnonymousBundle) or {n: id(x) for n, x in g._namespace.items()} != \
                            {n: id(x) for n, x in v.items()}:
                        return ("post.view", f"dict connection not turned into the same anonymous bundle: {hist!r}")
                    allconn.append(g) if not any(g is x for x in allconn) else None
                elif g is not v:
                    return ("post.view", f"after step {step} of {hist!r}: conns[{p}] is not the connected object")
        bad = inv_conn_runtime(allinst, allconn) + inv_refs_runtime(allinst)
        if bad:
            return ("post.inv", f"after step {step} of {hist!r}: {bad[0]}")
    return None


def run(ctx):
    thorough = ctx.tier == "thorough"
    eng = mk_engine(contracts=ci.CONTRACTS, inline=ci.INLINE, field_classes=ci.FIELD_CLASSES)
    ctx.verify(eng, ci.CONTRACTS, min_obligations={c.key: 5 for c in ci.CONTRACTS})
    ctx.verify(ci.init_engine(), ci.VERIFY_INIT)
    off = ci.audit_ownership()
    ctx.obligations += 1
    if off:
        from vcheck.core import Violation
        ctx.violations.append(Violation("hdl21.instance:ownership-audit", f"conns / _connected_ports written outside "
                              f"connect/replace/disconnect: {off[:3]}", {"property": "C04", "obligation":
                              "frame/ownership-audit", "offenders": off}, False))
    else:
        ctx.discharged += 1
        ctx.by_backend["ast-audit"] = ctx.by_backend.get("ast-audit", 0) + 1
    ctx.assumptions.append("Inv_conn/Inv_refs hold in every reachable state by induction: established by the Instance "
                           "constructor (proved), preserved by connect/replace/disconnect (proved), and nothing else "
                           "writes the two structures (syntactic audit). InstanceArray / InstanceBundle constructors "
                           "run the same base constructor but are not separately verified; elaboration passes change "
                           "connections only through the three methods")
    rnd = random.Random(ctx.seed)
    cases = itertools.chain(small_histories(), histories(rnd, 30000 if thorough else 4000, 6 if thorough else 4))
    ctx.run_bounded(
        "operation-histories", cases,
        lambda hcase: (lambda r: None if r is None else (f"hdl21.instance:history/{r[0]}", r[1],
                                                       {"history": repr(hcase)}))(check_history(hcase)),
        rule="sequences of call/setattr/connect/replace/disconnect over 2 instances x 3 ports (one bundle-valued) x 8 "
             "connectable kinds x 2 objects per kind; exhaustive 2-3 step family + seeded random histories; after every "
             "step: returned value, whole conns view, Inv_conn, Inv_refs; distinct = distinct history; non-trivial = "
             "length >= 2",
        bound="length<=%d" % (6 if thorough else 4), key_of=repr, nontrivial=lambda hcase: len(hcase) >= 2)
    return INFO


def replay(payload):
    inp = payload.get("input") or {}
    if "history" in inp:
        r = check_history(eval(inp["history"]))
        print("replay:", r)
        return 1 if r else 0
    print("nothing to replay natively; obligation:", payload.get("obligation"))
    return 2
