"""C01 - elaboration and export preserve the connectivity the designer wrote."""
from pyvc import *
from contracts.common import *
from rtc.family import design_family, nontrivial, RULE

INFO = {
    "level": "other",
    "explanation": "hybrid: leaf contracts of the export path proved by pyvc (export_slice, export_concat part order "
                   "against the netlisters' reading, find_source); the end-to-end postcondition of to_proto "
                   "(leaf-net partition, devices and ports of the package == meaning of the design as written) is "
                   "evaluated at run time over a bounded family of design programs, with an independent reference "
                   "interpreter as oracle",
    "trusted_base": ["rtc/meaning.py reference interpreter (trusted specification)", "vlsirtools reading conventions "
                     "(probed each run)", "pyvc", "z3"],
}


def check_design(case):
    import hdl21 as h
    from rtc.meaning import meaning, package_meaning, compare, InvalidDesign, InvalidPackage, Unsupported as OracleUnsupported
    desc, build = case
    try:
        top = build()
    except AssertionError:
        raise
    except Exception as e:
        # every step of every builder is a valid use of the library (slicing in range, reading a width, resizing, connecting)
        return (f"build.raises/{desc.split('/')[0]}", f"writing the valid design {desc} raised {type(e).__name__}: {str(e)[-160:]}",
                {"design": desc})
    try:
        want = meaning(top)           # pre-state snapshot: computed before elaboration mutates the design
    except OracleUnsupported:
        return None
    except InvalidDesign as e:
        # (every family member is written as a valid design - the unchanged tree shows that on every run; if the OBJECTS no
        #  longer read as one, something rewrote what the designer wrote before elaboration even began)
        return (f"design.rewritten/{desc.split('/')[0]}", f"{desc}: the design objects no longer say what was written: {str(e)[:200]}",
                {"design": desc})
    try:
        pkg = h.to_proto(top)
    except Exception as e:
        return (f"to_proto.raises/{desc.split('/')[0]}", f"valid design {desc} rejected: {type(e).__name__}: {str(e)[-160:]}",
                {"design": desc})
    try:
        got = package_meaning(pkg, top.name)
    except InvalidPackage as e:
        return (f"to_proto.post.meaning/{desc.split('/')[0]}", f"{desc}: the exported package is not a circuit: {str(e)[:240]}",
                {"design": desc})
    diff = compare(want, got)
    if diff:
        return (f"to_proto.post.meaning/{desc.split('/')[0]}", f"{desc}: {diff[0][:300]}", {"design": desc})
    return None


def concat_designs():
    """every concatenation of two pieces of one 6-bit bus (pieces 1-3 bits wide, anywhere, in both orders: adjacent,
    overlapping, descending, ascending), and every way of cutting the bus into three pieces, in every order; one probe
    device per bus bit makes each bit its own observable net"""
    import hdl21 as h
    import itertools as it
    pieces = [(a, w) for w in (1, 2, 3) for a in range(0, 7 - w)]
    cases = [(p, q) for p in pieces for q in pieces]
    for a in range(1, 5):
        for b in range(a + 1, 6):
            for perm in it.permutations([(0, a), (a, b - a), (b, 6 - b)]):
                cases.append(perm)

    def mk(parts):
        def b():
            T = h.ExternalModule(name="Probe", port_list=[h.Inout(name="t")], desc="", domain="cc")
            W = sum(w for _, w in parts)
            E = h.ExternalModule(name=f"Wide{W}", port_list=[h.Inout(name="p", width=W)], desc="", domain="cc")
            m = h.Module(name="Cat")
            m.bus = h.Signal(width=6)
            for k in range(6):
                m.add(T()(t=m.bus[k]), name=f"t{k}")
            m.i = E()(p=h.Concat(*[m.bus[a:a + w] for a, w in parts]))
            return m
        return b
    for parts in cases:
        yield ("concat/" + "+".join(f"[{a}:{a + w}]" for a, w in parts), mk(parts))


def bundle_ref_designs():
    """references to nested bundle members whose names recur at other levels of the bundle (root `valid`, `tx.valid`,
    `tx.inner.valid`), each on a probe of its own - also through a child's bundle port"""
    import hdl21 as h

    def mk(depth, via_port, order):
        def b():
            T = h.ExternalModule(name="BProbe", port_list=[h.Inout(name="t")], desc="", domain="cc")
            Deep = h.Bundle(name="DeepB")
            Deep.add(h.Signal(name="valid"))
            Deep.add(h.Signal(name="data", width=2))
            Sub = h.Bundle(name="SubB2")
            Sub.add(h.Signal(name="valid"))
            Sub.add(Deep(), name="inner")
            Link = h.Bundle(name="LinkB")
            parts = [lambda: Link.add(h.Signal(name="valid")), lambda: Link.add(Sub(), name="tx"),
                     lambda: Link.add(Sub(), name="rx"), lambda: Link.add(h.Signal(name="tx_valid"))]
            for k in order:
                parts[k]()

            def wire(m, link):
                refs = [link.valid, link.tx.valid, link.rx.valid, link.tx_valid]
                if depth > 1:
                    refs += [link.tx.inner.valid, link.rx.inner.valid, link.tx.inner.data[0], link.rx.inner.data[1]]
                for k, r in enumerate(refs):
                    m.add(T()(t=r), name=f"pr{k}")
            if not via_port:
                m = h.Module(name="BRef")
                m.link = Link()
                wire(m, m.link)
                return m
            c = h.Module(name="BRefChild")
            c.link = Link(port=True)
            wire(c, c.link)
            m = h.Module(name="BRefTop")
            m.link = Link()
            m.c = c(link=m.link)
            wire(m, m.link)
            return m
        return b
    import itertools as it
    for depth in (1, 2):
        for via_port in (False, True):
            for order in ((0, 1, 2, 3), (3, 2, 1, 0), (1, 0, 3, 2)):
                yield (f"bundleref/depth{depth}/{'port' if via_port else 'local'}/{order}", mk(depth, via_port, order))


def anon_and_pair_designs():
    """two anonymous bundles over the SAME referent objects written in the same order under permuted keys (straight, then
    crossed, and the other way round) on instances of one child; and a module reached ONLY through a Pair which itself
    holds Pairs (wired by scalars, anonymous bundles, no-connects)"""
    import hdl21 as h
    import itertools as it

    def crossed(order, nested):
        def b():
            T = h.ExternalModule(name="XProbe", port_list=[h.Inout(name="t")], desc="", domain="cc")
            Lane = h.Bundle(name="LaneB")
            Lane.add(h.Signal(name="p"))
            Lane.add(h.Signal(name="n"))
            Link = h.Bundle(name="LinkX")
            if nested:
                Link.add(Lane(), name="tx")
                Link.add(Lane(), name="rx")
            else:
                Link.add(h.Signal(name="tx"))
                Link.add(h.Signal(name="rx"))
            Dev = h.Module(name="XDev")
            Dev.link = Link(port=True)
            leaves = [Dev.link.tx.p, Dev.link.tx.n, Dev.link.rx.p, Dev.link.rx.n] if nested else [Dev.link.tx, Dev.link.rx]
            for k, r in enumerate(leaves):
                Dev.add(T()(t=r), name=f"pr{k}")
            m = h.Module(name="XTop")
            m.l = Link()
            forms = {"straight": lambda: {"tx": m.l.tx, "rx": m.l.rx}, "crossed": lambda: {"rx": m.l.tx, "tx": m.l.rx},
                     "crossed-sorted": lambda: {"tx": m.l.rx, "rx": m.l.tx}, "whole": lambda: m.l}
            for k, f in enumerate(order):
                m.add(Dev(link=forms[f]()), name=f"d{k}")
            return m
        return b
    for nested in (False, True):
        for order in it.permutations(("straight", "crossed", "crossed-sorted", "whole"), 3):
            yield (f"anoncross/{'nested' if nested else 'flat'}/{'+'.join(order)}", crossed(order, nested))

    def pair_in_pair(inner_conn, depth):
        def b():
            R = h.R(r=1)
            Half = h.Module(name="PHalf")
            Half.a, Half.b, Half.vss = h.Ports(3)
            Half.mid = h.Diff()
            conns = {"anon": lambda: h.AnonymousBundle(p=Half.a, n=Half.b), "diff": lambda: Half.mid,
                     "noconn": lambda: h.AnonymousBundle(p=Half.a, n=h.NoConn())}[inner_conn]()
            Half.rs = h.Pair(R)(p=conns, n=Half.vss)
            Half.tie = h.R(r=2)(p=Half.a, n=Half.b)
            if inner_conn == "diff":
                Half.rp = h.R(r=3)(p=Half.mid.p, n=Half.a)
                Half.rn = h.R(r=3)(p=Half.mid.n, n=Half.b)
            cur = Half
            for k in range(depth - 1):
                nxt = h.Module(name=f"PMid{k}")
                nxt.a, nxt.b, nxt.vss = h.Ports(3)
                nxt.hs = h.Pair(cur)(a=h.AnonymousBundle(p=nxt.a, n=nxt.b), b=nxt.b, vss=nxt.vss)
                cur = nxt
            m = h.Module(name="PTopPair")
            m.d, m.e = h.Diff(), h.Diff()
            m.vss = h.Signal()
            m.hs = h.Pair(cur)(a=m.d, b=m.e, vss=m.vss)
            return m
        return b
    for inner_conn in ("anon", "diff", "noconn"):
        for depth in (1, 2):
            yield (f"pairinpair/{inner_conn}/d{depth}", pair_in_pair(inner_conn, depth))


def portref_slice_designs():
    """a 4-bit port of a child tied to (a piece of) a 6-bit bus, and another device connected to a slice of the REFERENCE
    `child.p[...]`: every int index and every slice with steps +-1, +-2, for referents that start at bit 0, higher, run
    backwards, or are concatenations; one probe per bus bit"""
    import hdl21 as h
    referents = {"whole4": lambda m: m.b4, "low": lambda m: m.bus[0:4], "high": lambda m: m.bus[2:6], "mid": lambda m: m.bus[1:5],
                 "rev": lambda m: m.bus[4:0:-1], "cat": lambda m: h.Concat(m.bus[0:2], m.bus[4:6]), "unset": None,
                 # a bundle member (a reference that is itself still to be resolved), whole and inside a concatenation
                 "bref": lambda m: m.bb.w4, "cat-bref": lambda m: h.Concat(m.bb.w2, m.bus[0:2]),
                 "bref-slice": lambda m: m.bb.w4[::-1]}
    idxs = list(range(-4, 4)) + [slice(a, b_, c) for c in (None, -1, 2, -2) for a in (None, 0, 1, 3, -1, -2)
                                 for b_ in (None, 0, 2, 4, -1, -5)]
    cases = [(rname, ref, idx, False) for rname, ref in referents.items() for idx in idxs]
    cases += [(rname, referents[rname], idx, True) for rname in ("low", "bref", "cat-bref", "unset")
              for idx in list(range(-5, 5)) + [slice(a, b_, c) for c in (None, -1, 2) for a in (None, 1, 3) for b_ in (None, 2, 5)]]
    for rname, ref, idx, outer in cases:
        if True:
            wid = 5 if outer else 4
            n = len(list(range(wid))[idx]) if isinstance(idx, slice) else 1
            if n == 0:
                continue

            def b(ref=ref, idx=idx, n=n, outer=outer):
                T = h.ExternalModule(name="SProbe", port_list=[h.Inout(name="t")], desc="", domain="cc")
                W = h.ExternalModule(name=f"SWide{n}", port_list=[h.Inout(name="q", width=n)], desc="", domain="cc")
                Inner = h.Module(name="SInner")
                Inner.p = h.Port(width=4)
                Inner.w = h.ExternalModule(name="SWide4", port_list=[h.Inout(name="q", width=4)], desc="", domain="cc")()(q=Inner.p)
                m = h.Module(name="PSlice")
                m.bus = h.Signal(width=6)
                m.b4 = h.Signal(width=4)
                for k in range(6):
                    m.add(T()(t=m.bus[k]), name=f"t{k}")
                for k in range(4):
                    m.add(T()(t=m.b4[k]), name=f"u{k}")
                BB = h.Bundle(name="SBun")
                BB.add(h.Signal(name="w4", width=4))
                BB.add(h.Signal(name="w2", width=2))
                m.bb = BB()
                for k in range(4):
                    m.add(T()(t=m.bb.w4[k]), name=f"v{k}")
                for k in range(2):
                    m.add(T()(t=m.bb.w2[k]), name=f"w{k}")
                m.i = Inner(p=ref(m)) if ref is not None else Inner()
                if outer:
                    m.j = W()(q=h.Concat(m.i.p, m.bus[5])[idx])      # the reference inside a concatenation that is sliced
                else:
                    m.j = W()(q=m.i.p[idx])
                return m
            yield (f"prefslice/{rname}/{'outer-concat/' if outer else ''}{idx!r}", b)


def relative_index_designs():
    """indices relative to the END of a bus (negative, open-ended) where the end is not where a shortcut would put it:
    (a) a concatenation / signal / slice of a concatenation one of whose parts is resized after its width - or that of
        a slice of it - was looked at; the slice taken before or after the resize;
    (b) signals of ONE name and different widths in different modules of one design (calls of one generator), each
        sliced with the same relative index"""
    import hdl21 as h
    idxs = {"-1": -1, "-2:": slice(-2, None), "1:": slice(1, None), ":-1": slice(None, -1), "0": 0, "-3:-1": slice(-3, -1)}

    def mk(target, query, resize, iname, when):
        idx = idxs[iname]

        def b():
            T = h.ExternalModule(name="RProbe", port_list=[h.Inout(name="t")], desc="", domain="cc")
            m = h.Module(name="Resized")
            m.lo, m.hi = h.Signal(width=2), h.Signal(width=2)
            bus = {"concat": lambda: h.Concat(m.lo, m.hi), "nested": lambda: h.Concat(h.Concat(m.lo), m.hi),
                   "signal": lambda: m.lo, "slice-of-concat": lambda: h.Concat(m.lo, m.hi)[1:],
                   "concat-of-slice": lambda: h.Concat(m.lo[0:], m.hi)}[target]()
            x = bus[idx] if when == "before" else None
            if query == "width":
                assert bus.width >= 2
            elif query == "slice-width":
                assert bus[-1].width == 1 and (x is None or x.width >= 1)
            elif query == "top-bot":
                y = x if x is not None else bus[0:]
                assert y.top - y.bot >= 1
            lo_w, hi_w = {"lo+2": (4, 2), "hi+1": (2, 3), "lo-1": (1, 2), "lo+1": (3, 2)}[resize]
            m.lo.width, m.hi.width = lo_w, hi_w
            if x is None:
                x = bus[idx]
            total = {"signal": lo_w, "slice-of-concat": lo_w + hi_w - 1}.get(target, lo_w + hi_w)
            n = len(list(range(total))[idx]) if isinstance(idx, slice) else 1
            for k in range(lo_w):
                m.add(T()(t=m.lo[k]), name=f"l{k}")
            for k in range(hi_w):
                m.add(T()(t=m.hi[k]), name=f"h{k}")
            W = h.ExternalModule(name=f"RWide{n}", port_list=[h.Inout(name="q", width=n)], desc="", domain="cc")
            m.i = W()(q=x)
            return m
        return b
    for target in ("concat", "nested", "signal", "slice-of-concat", "concat-of-slice"):
        for query in ("none", "width", "slice-width", "top-bot"):
            for resize in ("lo+2", "hi+1", "lo-1", "lo+1"):
                for iname in idxs:
                    for when in ("before", "after"):
                        total = {"lo+2": 6, "hi+1": 5, "lo-1": 3, "lo+1": 5}[resize]
                        if target == "signal":
                            total = {"lo+2": 4, "hi+1": 2, "lo-1": 1, "lo+1": 3}[resize]
                        elif target == "slice-of-concat":
                            total -= 1
                        idx = idxs[iname]
                        sel = list(range(total))[idx] if isinstance(idx, slice) else [0]
                        if not sel or (when == "before" and target == "signal" and resize == "lo-1"):
                            continue
                        if when == "before" and (len(list(range(4 if target != "signal" else 2))[idx] if isinstance(idx, slice) else [0]) == 0):
                            continue      # the slice would be empty (refused) at the time it is taken
                        yield (f"relative/resized/{target}/queried-{query}/{resize}/{when}/[{iname}]", mk(target, query, resize, iname, when))

    def mk2(widths, order):
        def b():
            @h.paramclass
            class RegW:
                w = h.Param(dtype=int, desc="bus width")

            @h.generator
            def Reg(p: RegW) -> h.Module:
                T = h.ExternalModule(name="RProbe", port_list=[h.Inout(name="t")], desc="", domain="cc")
                m = h.Module()
                m.bus = h.Signal(width=p.w)
                for k in range(p.w):
                    m.add(T()(t=m.bus[k]), name=f"t{k}")
                for iname, idx in idxs.items():
                    n = len(list(range(p.w))[idx]) if isinstance(idx, slice) else 1
                    if n:
                        W = h.ExternalModule(name=f"RWide{n}", port_list=[h.Inout(name="q", width=n)], desc="", domain="cc")
                        m.add(W()(q=m.bus[idx]), name="i" + "".join(c if c.isalnum() else "_" for c in iname))
                return m
            top = h.Module(name="SameName")
            for k in order:
                top.add(Reg(w=widths[k])(), name=f"r{k}")
            return top
        return b
    import itertools as it
    for widths in ((8, 4, 3), (3, 5), (2, 6, 4)):
        for order in it.permutations(range(len(widths))):
            yield (f"relative/same-name/{'-'.join(str(widths[k]) for k in order)}", mk2(widths, order))


def noconn_array_designs():
    """no-connects - named and unnamed - on ports of instance arrays, instance pairs and plain instances, scalar and
    bus-wide: every element's port ends on a net of its own"""
    import hdl21 as h

    def mk(target, named, width, n):
        def b():
            E = h.ExternalModule(name=f"NcE{width}", port_list=[h.Inout(name="inp"), h.Inout(name="out", width=width)], desc="", domain="cc")
            m = h.Module(name="NcArr")
            m.a = h.Signal()
            nc = lambda k: h.NoConn(name=f"probe{k}") if named else h.NoConn()
            if target == "array":
                m.arr = n * E()(inp=m.a, out=nc(0))
                m.arr2 = n * E()(inp=nc(1), out=nc(2))
            elif target == "plain":
                m.i = E()(inp=m.a, out=nc(0))
                m.j = E()(inp=nc(1), out=nc(2))
            else:
                m.pr = h.Pair(E())(inp=h.AnonymousBundle(p=m.a, n=m.a), out=nc(0))
            return m
        return b
    for target in ("array", "plain", "pair"):
        for named in (False, True):
            for width in (1, 2):
                for n in ((2, 3) if target == "array" else (1,)):
                    yield (f"noconn-on/{target}/{'named' if named else 'unnamed'}/w{width}/n{n}", mk(target, named, width, n))


def array_share_designs():
    """instance arrays fed one part per element from slices with steps +-1, +-2, 3 of a bus, from slices of slices, from
    concatenations not aligned to the elements, and from port references: element k gets bits [k*w, (k+1)*w) OF THE
    CONNECTION (not of what lies beneath it)"""
    import hdl21 as h
    conns = {
        "even": lambda m: m.bus[::2], "odd": lambda m: m.bus[1::2], "third": lambda m: m.bus[0:10:3], "rev": lambda m: m.bus[::-1][0:4],
        "rev-even": lambda m: m.bus[::-2], "slice-of-slice": lambda m: m.bus[1:11][::2][0:4], "offset": lambda m: m.bus[3:7],
        "cat-unaligned": lambda m: h.Concat(m.bus[0:3], m.bus[5:8], m.bus[9:11]), "cat-strided": lambda m: h.Concat(m.bus[::4], m.bus[1:2]),
        "from-end": lambda m: m.bus[-4:], "high-even": lambda m: m.bus[4::2],
    }

    def mk(cname, n, w):
        def b():
            T = h.ExternalModule(name="AProbe", port_list=[h.Inout(name="t")], desc="", domain="cc")
            E = h.ExternalModule(name=f"AElem{w}", port_list=[h.Inout(name="p", width=w), h.Inout(name="q")], desc="", domain="cc")
            m = h.Module(name="ArrShare")
            m.bus = h.Signal(width=12)
            m.c = h.Signal()
            for k in range(12):
                m.add(T()(t=m.bus[k]), name=f"t{k}")
            if cname.startswith("direct"):
                step = int(cname[-1])
                start = {"direct-step2": 1, "direct-step3": 0}[cname]
                conn = m.bus[start:start + step * n * w:step]         # a strided slice of the Signal itself, exactly n*w bits
            else:
                conn = conns[cname](m)
                conn = conn[0:n * w]
            m.arr = n * E()(p=conn, q=m.c)
            return m
        return b
    # a concatenation of exactly n parts of UNEQUAL widths onto n elements (the parts are not the shares)
    def mk_unequal(n, w, widths):
        def b():
            T = h.ExternalModule(name="AProbe", port_list=[h.Inout(name="t")], desc="", domain="cc")
            E = h.ExternalModule(name=f"AElem{w}", port_list=[h.Inout(name="p", width=w), h.Inout(name="q")], desc="", domain="cc")
            m = h.Module(name="ArrShare")
            m.bus = h.Signal(width=12)
            m.c = h.Signal()
            for k in range(12):
                m.add(T()(t=m.bus[k]), name=f"t{k}")
            parts, at = [], 0
            for wd in widths:
                parts.append(m.bus[at:at + wd])
                at += wd + 1
            m.arr = n * E()(p=h.Concat(*parts), q=m.c)
            return m
        return b
    for n, w, widths in ((2, 2, (1, 3)), (2, 2, (3, 1)), (3, 2, (3, 1, 2)), (2, 3, (2, 4)), (3, 1, (1, 1, 1)), (2, 3, (5, 1))):
        yield (f"array-share/cat-of-n-unequal-parts/{n}x{w}/{'+'.join(map(str, widths))}", mk_unequal(n, w, widths))
    for cname in list(conns) + ["direct-step2", "direct-step3"]:
        for n, w in ((4, 1), (2, 2), (3, 1), (2, 1)):
            yield (f"array-share/{cname}/{n}x{w}", mk(cname, n, w))


def name_pressure_designs():
    """designs whose declared names equal, or compose to, the names elaboration invents (the family of C05): the
    connectivity as written must survive the renaming"""
    from props import c05
    for desc, b in c05.adversarial_designs():
        yield ("names/" + desc, b)


def check_named(case):
    import hdl21 as h
    desc, build = case
    top = build()
    from rtc.meaning import meaning, package_meaning, compare, InvalidPackage
    want = meaning(top)
    try:
        pkg = h.to_proto(top)
    except RuntimeError:
        return None        # refusing a name clash is C05's business; nothing is exported, nothing can differ
    except Exception as e:
        return ("to_proto.raises/names", f"design {desc} rejected: {type(e).__name__}: {str(e)[-160:]}", {"design": desc})
    try:
        got = package_meaning(pkg, top.name)
    except InvalidPackage as e:
        return ("to_proto.post.meaning/names", f"{desc}: the exported package is not a circuit: {str(e)[:240]}", {"design": desc})
    diff = compare(want, got)
    if diff:
        return ("to_proto.post.meaning/names", f"{desc}: {diff[0][:300]}", {"design": desc})
    return None


def edited_designs():
    """designs written in several steps: a port connected, then re-connected to something else (by assignment, call,
    connect / replace / disconnect+connect) - the design AS WRITTEN is its final state"""
    import hdl21 as h

    def mk(how, first, second):
        def b():
            Stage = h.Module(name="Stage")
            Stage.inp = h.Input()
            Stage.out = h.Output()
            Stage.r = h.R(r=1)(p=Stage.inp, n=Stage.out)
            m = h.Module(name="Edited")
            m.vin, m.vout, m.tap, m.bus = h.Input(), h.Output(), h.Output(), h.Signal(width=2)
            m.s0 = Stage(inp=m.vin)
            m.s1 = Stage(out=m.tap)
            m.s2 = Stage(out=m.vout)
            m.s1.inp = m.s0.out
            targets = {"ref0": lambda: m.s0.out, "ref1": lambda: m.s1.out, "sig": lambda: m.vin, "bit": lambda: m.bus[1],
                       "cat": lambda: h.Concat(m.bus[0])}
            m.s2.inp = targets[first]()
            new = targets[second]()
            if how == "setattr":
                m.s2.inp = new
            elif how == "call":
                m.s2(inp=new)
            elif how == "connect":
                m.s2.connect("inp", new)
            elif how == "replace":
                m.s2.replace("inp", new)
            else:
                m.s2.disconnect("inp")
                m.s2.inp = new
            return m
        return b
    for how in ("setattr", "call", "connect", "replace", "disconnect"):
        for first in ("ref0", "sig", "bit", "cat"):
            for second in ("ref1", "sig", "bit", "ref0"):
                if first != second:
                    yield (f"edited/{how}/{first}->{second}", mk(how, first, second))


def order_designs():
    """port-reference chains ending on a slice / concatenation of ANOTHER instance's port, with the instances declared in
    every order (the resolver walks instances in declaration order: the driver may come first or last)"""
    import hdl21 as h
    import itertools as it

    def mk(order, leaves):
        def b():
            if leaves:
                Drv = h.ExternalModule(name="OD", port_list=[h.Output(name="q", width=4), h.Output(name="r")], desc="", domain="od")()
                Rcv = h.ExternalModule(name="OR", port_list=[h.Input(name="d"), h.Input(name="w", width=2)], desc="", domain="od")()
            else:
                Drv = h.Module(name="ODm")
                Drv.q, Drv.r = h.Output(width=4), h.Output()
                Drv.x = h.R(r=1)(p=Drv.r, n=Drv.q[0])
                Rcv = h.Module(name="ORm")
                Rcv.d, Rcv.w = h.Input(), h.Input(width=2)
                Rcv.x = h.R(r=2)(p=Rcv.d, n=Rcv.w[1])
            m = h.Module(name="Ordered")
            insts = {"drv": Drv(), "r1": Rcv(), "r2": Rcv(), "r3": Rcv()}
            for n in order:
                m.add(insts[n], name=n)
            m.r1.d = m.drv.q[0]
            m.r1.w = h.Concat(m.drv.r, m.drv.q[3])
            m.r2.d = m.r1.d
            m.r2.w = m.r1.w
            m.r3.d = m.r2.d
            m.r3.w = m.drv.q[1:3]
            return m
        return b
    for order in it.permutations(("drv", "r1", "r2", "r3")):
        if order.index("r1") < order.index("r2") or order[0] == "drv" or order[-1] == "drv":
            for leaves in (True, False):
                yield (f"ordered/{'-'.join(order)}/{'ext' if leaves else 'mod'}", mk(order, leaves))


def probe_netlister_convention():
    """The assumed contract on the dependency: vlsirtools writes buses MSB first and concat parts in listed order."""
    import io
    import vlsir.circuit_pb2 as vckt
    import vlsirtools
    pkg = vckt.Package(domain="probe")
    m = pkg.modules.add(name="probe_top")
    for n, w in (("a", 2), ("b", 1)):
        m.signals.add(name=n, width=w)
    em = pkg.ext_modules.add()
    em.name.domain = "probe"
    em.name.name = "leaf"
    em.signals.add(name="p", width=3)
    em.ports.add(signal="p", direction=vckt.Port.Direction.NONE)
    em.spicetype = 0
    i = m.instances.add(name="x")
    i.module.external.domain = "probe"
    i.module.external.name = "leaf"
    c = i.connections.add(portname="p")
    c.target.concat.parts.add().sig = "a"
    c.target.concat.parts.add().sig = "b"
    buf = io.StringIO()
    vlsirtools.netlist(pkg=pkg, dest=buf, fmt="spice")
    line = [l for l in buf.getvalue().splitlines() if l.strip().lower().startswith("xx")]
    text = buf.getvalue()
    idx = [text.find(t) for t in ("a_1", "a_0", "b")]
    body = text[text.lower().find("xx"):]
    order = [body.find(t) for t in ("a_1", "a_0", "b")]
    return order[0] < order[1] < order[2] and min(order) >= 0


def run(ctx):
    if not probe_netlister_convention():
        ctx.checker_errors.append("vlsirtools no longer writes buses MSB-first / concat parts in order: the assumed "
                                  "dependency contract is wrong")
    from props import c01_deductive
    c01_deductive.run(ctx)
    from contracts import c_portrefs
    ctx.verify(c_portrefs.engine(), c_portrefs.VERIFY, min_obligations={c_portrefs.VERIFY[0].key: 10})
    ctx.verify(c_portrefs.resolve_engine(), c_portrefs.VERIFY_RESOLVE, min_obligations={c_portrefs.VERIFY_RESOLVE[0].key: 6})
    key, obs, info = c_portrefs.update_ref_deps_obligations(6 if ctx.tier == "thorough" else 3)
    for u in info.get("unsupported", []):
        ctx.unsupported.append((key, u))
    if len(obs) < 8 and not info.get("unsupported"):
        ctx.checker_errors.append(f"only {len(obs)} obligations for update_ref_deps")
    ctx.discharge(obs, key + " [loop bodies; concatenations of 1-3 parts]", info)
    ctx.assumptions.append("update_ref_deps: one arbitrary element per loop; dependent concatenations unrolled for 1-3 "
                           "parts (bounded in the arity, symbolic in the parts)")
    from contracts import c_conntarget
    key, obs, info = c_conntarget.export_concat_obligations(8 if ctx.tier == "thorough" else 4)
    for u in info.get("unsupported", []):
        ctx.unsupported.append((key, u))
    if len(obs) < 4 and not info.get("unsupported"):
        ctx.checker_errors.append(f"only {len(obs)} obligations for export_concat")
    ctx.discharge(obs, key + " [parts in reverse order; 1-4 parts]", info)
    # array rule: element k of an n-array receives bits [k*w, (k+1)*w) of an n*w wide connection (all n, w, k)
    from contracts import c_arrays
    obs, info = c_arrays.obligations()
    for u in info.get("unsupported", []):
        ctx.unsupported.append((c_arrays.KEY, u))
    if obs or not info.get("unsupported"):
        if len(obs) < 2:
            ctx.checker_errors.append(f"array rule: only {len(obs)} obligations generated")
        ctx.discharge(obs, c_arrays.KEY + " [per-element loop body]", info)
    ctx.run_bounded(
        "to_proto-vs-meaning", __import__("itertools").chain(design_family(ctx.tier, ctx.seed), edited_designs(), order_designs(), concat_designs(), bundle_ref_designs(), portref_slice_designs(), anon_and_pair_designs(), relative_index_designs(), noconn_array_designs(), array_share_designs()),
        lambda c: check_design(c),
        rule=RULE + "; plus 60 designs written in several steps (a port re-connected by each of the five operations) and 40 declaration orders of a reference chain ending on slices / concatenations of a driver's ports; every concatenation of two 1-3 bit pieces of a 6-bit bus and every three-piece cut of it in every order (285 designs); references to nested bundle members whose names recur at other levels (12); slices of a port REFERENCE for 10 kinds of referent (incl. bundle members) x every index / slice with steps +-1, +-2, also through an enclosing concatenation (~1300); end-relative indices into buses whose parts were resized after a width query, and into same-named signals of different widths in several modules of one design (~800); named and unnamed no-connects on array, pair and plain instance ports (16); instance arrays fed one part per element from strided, reversed and nested slices and unaligned concatenations (44)", bound="depth<=3, widths<=4 (8 thorough), <=4 (6) instances per module",
        key_of=lambda c: c[0], nontrivial=lambda c: nontrivial(c[0]))
    ctx.run_bounded("to_proto-vs-meaning under name pressure", name_pressure_designs(), check_named,
                    rule="the designs of C05's adversarial-name family (declared names equal to invented ones in both "
                         "orders; bundle members and implicit signals composing to one flat name, also on a child's "
                         "bundle port): when a package is exported its meaning equals the design's",
                    bound="the family of C05 (about 110 designs)", key_of=lambda c: c[0])
    return INFO


def replay(payload):
    from rtc.designs import designs
    want = (payload.get("input") or {}).get("design")
    if want:
        for desc, b in list(edited_designs()) + list(order_designs()) + list(concat_designs()) + list(bundle_ref_designs()) + \
                list(portref_slice_designs()) + list(anon_and_pair_designs()) + list(relative_index_designs()) + list(noconn_array_designs()) + list(array_share_designs()):
            if desc == want:
                r = check_design((desc, b))
                print("replay:", r)
                return 1 if r else 0
        for desc, b in name_pressure_designs():
            if desc == want:
                r = check_named((desc, b))
                print("replay:", r)
                return 1 if r else 0
        for tier in ("quick", "thorough"):
            for desc, b in design_family(tier, 0):
                if desc == want:
                    r = check_design((desc, b))
                    print("replay:", r)
                    return 1 if r else 0
    print("nothing to replay natively; obligation:", payload.get("obligation"))
    return 2
