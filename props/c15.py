"""C15 - PDK compilation swaps device targets and nothing else."""
import io
import os
import itertools
import random

from pyvc import *
from contracts.common import *

INFO = {
    "level": "other",
    "explanation": "hybrid: frame contract of HierarchyWalker (visit_instance writes only inst.of; visit_module / "
                   "visit_instantiable / visit_elaboratable total dispatch) proved by pyvc with the PDK hooks as virtual "
                   "callees, plus a syntactic audit that no PDK walker touches conns / names; device selection tables of "
                   "the four PDKs evaluated exhaustively on the real walkers (every type/family/threshold triple, every "
                   "model name, every passive table entry, defaulted and given sizes), compiled designs exported and "
                   "netlisted, compile-twice, cache identity, pdk.compile dispatch; logic-cell libraries sampled "
                   "(quick) or complete (thorough)",
    "trusted_base": ["device tables of the PDK packages as documentation of what is selectable", "rtc/wf.py",
                     "vlsirtools netlisters", "pyvc", "z3"],
}
BAD_ERRORS = (StopIteration, IndexError, KeyError, UnboundLocalError, AttributeError, NameError)


ROOT = os.path.dirname(os.path.dirname(os.path.abspath(__file__)))


def pdks():
    import hdl21 as h
    import hdl21.pdk.sample_pdk as sample
    import sky130_hdl21
    import gf180_hdl21
    import asap7_hdl21
    from hdl21.primitives import MosType, MosFamily, MosVth
    import sky130_hdl21.primitives.prim_dicts as sd
    import gf180_hdl21.primitives.prim_dicts as gd
    from asap7_hdl21 import pdk as a7

    def table_match(xtors, fields):
        def f(p):
            want = [getattr(p, k) for k in fields]
            return [v for k, v in xtors.items() if all(a in k for a in want)]
        return f
    return {
        "sample": dict(pkg=sample, compile=sample.compile, mos=lambda p: [sample.pdk.Pmos if p.tp == MosType.PMOS else sample.pdk.Nmos],
                       models={}, passives={}),
        "sky130": dict(pkg=sky130_hdl21, compile=sky130_hdl21.compile, mos=table_match(sd.xtors, ("tp", "family", "vth")),
                       models={k[0]: v for k, v in sd.xtors.items()},
                       passives={"res": sd.ress, "cap": sd.caps, "diode": sd.diodes, "bjt": sd.bjts}, cache=sd.CACHE),
        "gf180": dict(pkg=gf180_hdl21, compile=gf180_hdl21.compile, mos=table_match(gd.xtors, ("tp", "family")),
                      models={k[0]: v for k, v in gd.xtors.items()},
                      passives={"res": gd.ress, "cap": gd.caps, "diode": gd.diodes, "bjt": gd.bjts}, cache=gd.CACHE),
        "asap7": dict(pkg=asap7_hdl21, compile=asap7_hdl21.compile,
                      mos=lambda p: [a7._mos_modules[(p.tp, p.vth)]] if (p.tp, p.vth) in a7._mos_modules else [],
                      models={}, passives={}),
    }


def design(leafcall, depth=2, shared=True):
    """the primitive call placed at depth `depth` of a small hierarchy with a shared child and a bystander"""
    import hdl21 as h
    ports = list(leafcall.ports)
    cur = h.Module(name="PL0")
    sigs = {}
    for p in ports:
        sigs[p] = cur.add(h.Port(), name=f"t_{p}")
    cur.add(leafcall(**{p: sigs[p] for p in ports}), name="dev")
    cur.add(h.R(r=1)(p=sigs[ports[0]], n=sigs[ports[-1]]), name="bystander")
    for d in range(1, depth + 1):
        up = h.Module(name=f"PL{d}")
        us = {p: up.add(h.Port(), name=f"t_{p}") for p in ports}
        up.add(cur(**{f"t_{p}": us[p] for p in ports}), name="a")
        if shared:
            up.add(cur(**{f"t_{p}": us[p] for p in ports}), name="b")
        cur = up
    return cur


def snapshot(top):
    import hdl21 as h
    out = []
    seen = set()

    def rec(m, path):
        if id(m) in seen:
            return
        seen.add(id(m))
        for n, i in m.instances.items():
            out.append((path, n, tuple((p, id(c)) for p, c in i.conns.items()), type(i.of).__name__))
            if isinstance(i.of, h.Module):
                rec(i.of, path + (n,))
    rec(top, ())
    return out


def leaf_targets(top):
    import hdl21 as h
    out = {}
    seen = set()

    def rec(m, path):
        for n, i in m.instances.items():
            if isinstance(i.of, h.Module):
                rec(i.of, path + (n,))
            else:
                out[path + (n,)] = i.of
    rec(top, ())
    return out


def mos_requests(tier):
    from hdl21.primitives import MosType, MosFamily, MosVth
    for tp in MosType:
        for fam in MosFamily:
            for vth in MosVth:
                yield dict(tp=tp, family=fam, vth=vth)


def cases(tier, seed):
    P = pdks()
    for name, d in P.items():
        for req in mos_requests(tier):
            yield ("mos-triple", name, tuple(sorted((k, v.name) for k, v in req.items())))
        if d["models"]:       # only PDKs whose documentation offers selection by model name
            names = list(d["models"])
            partial = sorted({n[:k] for n in names for k in (4, len(n) // 2, len(n) - 1)} - set(names))[:12]
            for model in names + ["NO_SUCH_MODEL"] + partial:
                yield ("mos-model", name, model)
        yield ("params", name, None)
        for kind, table in d["passives"].items():
            for model in list(table) + ["NO_SUCH_MODEL"]:
                for sized in (False, True):
                    yield ("passive", name, (kind, str(model), sized))
        for pk in ("res", "cap"):
            for model in d["passives"].get(pk, {}):
                yield ("passive-other-arity", name, (pk, str(model)))
        yield ("sizes", name, None)
        yield ("history", name, None)
        yield ("lists-arrays-literals", name, None)
        yield ("dispatch", name, None)
        yield ("dispatch-after-failure", name, None)
        yield ("dispatch-unknown-name", name, None)
        if d["models"]:
            yield ("by-parameter-after-by-model", name, None)
        yield ("pairs-and-frame", name, None)
        yield ("compiled-next-to-direct", name, None)
        yield ("export-compile-export", name, None)
        yield ("default-after-late-registration", name, None)


def check_case(case):
    import hdl21 as h
    from hdl21.primitives import MosType, MosFamily, MosVth
    from rtc.wf import wf_package
    kind, pname, arg = case
    P = pdks()[pname]
    w = {"case": repr(case)}

    def compile_and_check(call, acceptable, must_raise=False, depth=2):
        top = design(call, depth=depth)
        before = snapshot(top)
        before_targets = leaf_targets(top)
        try:
            P["compile"](top)
        except BAD_ERRORS as e:
            return (f"{pname}.raises.{type(e).__name__}", f"{case!r}: undescriptive {type(e).__name__}: {str(e)[:100]!r}", w)
        except (RuntimeError, ValueError, TypeError) as e:
            if len(acceptable) > 1 and str(e).strip():
                return None      # several devices match: refusing an ambiguous request with a message is acceptable
            if acceptable and not must_raise:
                return (f"{pname}.rejects-satisfiable", f"{case!r}: a matching device exists "
                                                        f"({[m.name for m in acceptable][:3]}) but compile raised: {str(e)[:100]}", w)
            if not str(e).strip():
                return (f"{pname}.error-not-descriptive", f"{case!r}: {type(e).__name__} without a message", w)
            return None
        if not acceptable:
            got = [t for pth, t in leaf_targets(top).items() if pth[-1] == "dev"][0]
            return (f"{pname}.accepts-unsatisfiable", f"{case!r}: no device satisfies the request but compile selected "
                                                      f"{getattr(getattr(got, 'module', None), 'name', got)}", w)
        after = snapshot(top)
        if [(a[0], a[1], a[2]) for a in after] != [(b[0], b[1], b[2]) for b in before]:
            return (f"{pname}.frame", f"{case!r}: hierarchy, instance names or connections changed by compile", w)
        targets = leaf_targets(top)
        devs = [t for pth, t in targets.items() if pth[-1] == "dev"]
        if any(not isinstance(t, h.ExternalModuleCall) for t in devs):
            return (f"{pname}.not-replaced", f"{case!r}: generic primitive left in place", w)
        if any(t.module not in acceptable for t in devs):
            return (f"{pname}.wrong-device", f"{case!r}: selected {devs[0].module.name}, acceptable "
                                             f"{[m.name for m in acceptable][:4]}", w)
        if any(t is not devs[0] for t in devs):
            return (f"{pname}.cache-identity", f"{case!r}: equal primitive parameters gave different device calls", w)
        for pth, t in targets.items():
            if pth[-1] == "bystander" and t is not before_targets[pth]:
                return (f"{pname}.bystander", f"{case!r}: an ideal primitive instance was retargeted", w)
        if set(devs[0].module.ports) != set(call.ports):
            return (f"{pname}.port-mismatch/{devs[0].module.name}", f"{case!r}: {devs[0].module.name} has ports {sorted(devs[0].module.ports)}, "
                                              f"the primitive has {sorted(call.ports)}: the compiled instance is not valid", w)
        try:
            pkg = h.to_proto(top)
        except Exception as e:
            return (f"{pname}.export", f"{case!r}: compiled design not exportable: {type(e).__name__}: {str(e)[:120]}", w)
        pr = wf_package(pkg)
        if pr:
            return (f"{pname}.invalid-compiled-design", f"{case!r}: {pr[0][:200]}", w)
        # compiling twice equals compiling once
        try:
            P["compile"](top)
        except Exception as e:
            return (f"{pname}.compile-twice", f"{case!r}: compiling the compiled design again raises {type(e).__name__}: {str(e)[:100]}", w)
        if any(a is not b for a, b in zip(leaf_targets(top).values(), targets.values())):
            return (f"{pname}.compile-twice", f"{case!r}: second compile changed device targets", w)
        return None

    if kind == "mos-triple":
        req = {k: {"tp": MosType, "family": MosFamily, "vth": MosVth}[k][v] for k, v in arg}
        call = h.Mos(**req)
        return compile_and_check(call, P["mos"](call.params))
    if kind == "mos-model":
        call = h.Mos(model=arg)
        acc = [P["models"][arg]] if arg in P["models"] else []
        return compile_and_check(call, acc)
    if kind == "passive":
        pk, model, sized = arg
        prim = {"res": h.primitives.PhysicalResistor, "cap": h.primitives.PhysicalCapacitor, "diode": h.primitives.Diode,
                "bjt": h.primitives.Bipolar}[pk]
        table = P["passives"][pk]
        key = next((k for k in table if str(k) == model), None)
        kw = dict(model=key if key is not None else model)
        if sized and pk != "bjt":
            kw.update(w=2 * h.prefix.µ, l=3 * h.prefix.µ)
        try:
            call = prim(**kw)
        except Exception:
            return None
        acc = [table[key]] if key is not None else []
        # three-terminal passives map from the three-terminal generic primitive
        if acc and len(acc[0].ports) == 3 and pk in ("res", "cap"):
            prim3 = {"res": h.primitives.ThreeTerminalResistor, "cap": h.primitives.ThreeTerminalCapacitor}[pk]
            call = prim3(**kw)
        return compile_and_check(call, acc, depth=1)
    if kind == "passive-other-arity":
        # the same table entries requested through the generic primitive with the OTHER terminal count (2 vs 3): either
        # refused with a message, or compiled into a valid design - never an instance connecting a port the device lacks
        pk, model = arg
        table = P["passives"][pk]
        key = next((k for k in table if str(k) == model), None)
        if key is None:
            return None
        dev = table[key]
        two = {"res": h.primitives.PhysicalResistor, "cap": h.primitives.PhysicalCapacitor}[pk]
        three = {"res": h.primitives.ThreeTerminalResistor, "cap": h.primitives.ThreeTerminalCapacitor}[pk]
        prim = two if len(dev.ports) == 3 else three
        try:
            call = prim(model=key)
        except Exception:
            return None
        top = design(call, depth=1)
        try:
            P["compile"](top)
        except (RuntimeError, ValueError, TypeError) as e:
            return None if str(e).strip() else (f"{pname}.error-not-descriptive", f"{case!r}: {type(e).__name__} without a message", w)
        except Exception as e:
            return (f"{pname}.raises.{type(e).__name__}", f"{case!r}: {type(e).__name__}: {str(e)[:100]}", w)
        devs = [t for pth, t in leaf_targets(top).items() if pth[-1] == "dev"]
        if devs and isinstance(devs[0], h.ExternalModuleCall) and set(devs[0].module.ports) != set(call.ports):
            return (f"{pname}.terminal-count-mismatch/{pk}", f"{case!r}: {devs[0].module.name} has ports "
                    f"{sorted(devs[0].module.ports)} but was selected for a {len(call.ports)}-terminal generic {pk}: the "
                    f"compiled instance connects {sorted(call.ports)}", w)
        return None
    if kind == "sizes":
        # given sizes are passed through, absent sizes take the PDK's default - each of w and l on its own
        req = dict(tp=MosType.NMOS, family=MosFamily.CORE, vth=MosVth.STD)
        subjects = [("mos", lambda **kw: h.Mos(**req, **kw), lambda c: bool(P["mos"](c.params)))]
        for pk, prim in (("res", h.primitives.PhysicalResistor), ("cap", h.primitives.PhysicalCapacitor)):
            table = P["passives"].get(pk) or {}
            two = [k for k, v in table.items() if len(v.ports) == 2]
            if two:
                subjects.append((pk, lambda prim=prim, key=two[0], **kw: prim(model=key, **kw), lambda c: True))
        W_, L_ = 3 * h.prefix.µ, 2 * h.prefix.µ
        for sname, mk, ok in subjects:
            seen = {}
            for given in ((), ("w", "l"), ("w",), ("l",)):
                kw = {}
                if "w" in given:
                    kw["w"] = W_
                if "l" in given:
                    kw["l"] = L_
                try:
                    call = mk(**kw)
                except Exception:
                    break
                if not ok(call):
                    break
                top = design(call, depth=1, shared=False)
                try:
                    P["compile"](top)
                except Exception as e:
                    return (f"{pname}.sizes.raises", f"{case!r}: {sname} {given}: {type(e).__name__}: {str(e)[:100]}", w)
                dev = [t for pth, t in leaf_targets(top).items() if pth[-1] == "dev"][0]
                prm = dev.params
                getp = (lambda n: prm.get(n)) if isinstance(prm, dict) else (lambda n: getattr(prm, n, None))
                seen[given] = (getp("w"), getp("l"))
                if not given and pname != "asap7" and sname == "mos" and (getp("w") is None or getp("l") is None):
                    return (f"{pname}.sizes.default", f"{case!r}: defaulted size missing", w)
            if () not in seen or ("w", "l") not in seen:
                continue
            dw, dl = seen[()]
            gw, gl = seen[("w", "l")]
            if sname == "mos" and (gw != W_ or gl != L_):
                return (f"{pname}.sizes.given", f"{case!r}: given w/l not passed through: w={gw}, l={gl}", w)
            # one of the two given: that one as when both are given, the other as when neither is
            for given, want in ((("w",), (gw, dl)), (("l",), (dw, gl))):
                if given in seen and seen[given] != want:
                    return (f"{pname}.sizes.one-given", f"{case!r}: {sname} with only {given[0]} given is sized "
                                                        f"(w, l) = {seen[given]}, expected {want} (given value / PDK default)", w)
        return None
    if kind == "lists-arrays-literals":
        # compile() of a LIST of not yet elaborated designs, devices placed through instance arrays, literal-valued sizes
        req = dict(tp=MosType.NMOS, family=MosFamily.CORE, vth=MosVth.STD)
        if not P["mos"](h.Mos(**req).params):
            return None

        def mk(nm, arr):
            m = h.Module(name=nm)
            m.d, m.g, m.s, m.b = h.Inouts(4)
            if arr:
                m.arr = 3 * h.Mos(**req)(d=m.d, g=m.g, s=m.s, b=m.b)
            else:
                m.one = h.Mos(**req)(d=m.d, g=m.g, s=m.s, b=m.b)
            t = h.Module(name=nm + "Top")
            t.d, t.g, t.s, t.b = h.Signals(4)
            t.i = m(d=t.d, g=t.g, s=t.s, b=t.b)
            return t
        tops = [mk("LA", True), mk("LB", False), mk("LC", True)]
        try:
            P["compile"](tops)
        except Exception as e:
            return (f"{pname}.list.raises", f"{case!r}: compile of a list: {type(e).__name__}: {str(e)[:100]}", w)
        for t in tops:
            h.elaborate(t)
            for pth, tg in leaf_targets(t).items():
                if isinstance(tg, h.PrimitiveCall) and tg.prim is h.primitives.Mos:
                    return (f"{pname}.list.not-replaced", f"{case!r}: compile([...]) left a generic Mos at {'/'.join(pth)} "
                                                          f"(a device placed through an instance array)", w)
        # literal-valued sizes reach the device as given (Sky130 documents its micron scaling of literals).  Only the two
        # PDKs whose walkers have a rule for literals are held to it (the sample PDK and ASAP7 validate sizes numerically)
        if pname not in ("sky130", "gf180"):
            return None
        lit_w, lit_l = h.Literal("wn"), h.Literal("ln")
        top = design(h.Mos(**req, w=lit_w, l=lit_l), depth=1, shared=False)
        try:
            P["compile"](top)
        except Exception as e:
            return (f"{pname}.literal-size.raises", f"{case!r}: {type(e).__name__}: {str(e)[:100]}", w)
        dev = [t for pth, t in leaf_targets(top).items() if pth[-1] == "dev"][0]
        prm = dev.params
        getp = (lambda n: prm.get(n)) if isinstance(prm, dict) else (lambda n: getattr(prm, n, None))
        for n, lit in (("w", lit_w), ("l", lit_l)):
            got = getp(n)
            if got is None and pname == "asap7":
                continue
            text = getattr(got, "text", None)
            ok = (text is not None and lit.text in text) if pname == "sky130" else (text == lit.text)
            if not ok:
                return (f"{pname}.literal-size", f"{case!r}: {n}={lit.text!r} reaches the device as {got!r}", w)
        return None
    if kind == "history":
        # earlier walks of the same design objects leave no trace: a read-only user walker before compile, and a compile
        # with another PDK that refused the design
        req = dict(tp=MosType.NMOS, family=MosFamily.CORE, vth=MosVth.STD)
        call = h.Mos(**req)
        if not P["mos"](call.params):
            return None
        for how in ("user-walker-first", "other-pdk-refused-first", "elaborate-first"):
            top = design(call, depth=2)
            if how == "user-walker-first":
                class Counter(h.HierarchyWalker):
                    def __init__(self):
                        super().__init__()
                        self.n = 0

                    def visit_primitive_call(self, c):
                        self.n += 1
                        return c
                cw = Counter()
                cw.visit_elaboratables(top)
                if cw.n == 0:
                    return (f"{pname}.history.harness", "counting walker saw no primitive", w)
            elif how == "other-pdk-refused-first":
                others = [(n, d) for n, d in pdks().items() if n != pname]
                unsat = h.Mos(tp=MosType.PMOS, family=MosFamily.NONE, vth=MosVth.ULTRA_LOW, model="NO_SUCH_MODEL")
                for n, d in others:
                    t2 = design(unsat, depth=2)
                    try:
                        d["compile"](t2)
                    except Exception:
                        pass
                    try:
                        d["compile"](design(call, depth=2))
                    except Exception:
                        pass
            else:
                h.elaborate(top)
            try:
                P["compile"](top)
            except Exception as e:
                return (f"{pname}.history.raises", f"{case!r}: {how}: {type(e).__name__}: {str(e)[:100]}", w)
            devs = [t for pth, t in leaf_targets(top).items() if pth[-1] == "dev"]
            if not devs or any(not isinstance(t, h.ExternalModuleCall) for t in devs):
                return (f"{pname}.history.not-replaced", f"{case!r}: after {how}, compile left generic primitives in place", w)
        return None
    if kind == "params":
        # instances that differ only in multiplier / fingers keep their own values; equal ones share one call
        # ... for EVERY device of the PDK: each satisfiable (type, family, threshold) request and each model name
        reqs = [r for r in mos_requests("quick") if len(P["mos"](h.Mos(**r).params)) == 1]
        reqs += [dict(model=mname) for mname in P["models"]]
        for req in reqs:
            r = _params_pass_through(h, P, pname, req, case, w)
            if r is not None:
                return r
        return None
    return _check_case_rest(case, kind, pname, arg, P, w)


def _params_pass_through(h, P, pname, req, case, w):
    if True:
        top = h.Module(name="PTop")
        top.a, top.b, top.c, top.d = h.Signals(4)
        variants = [dict(mult=1), dict(mult=2), dict(mult=4, nf=2), dict(mult=2), dict(w=3 * h.prefix.µ, l=1 * h.prefix.µ, mult=2),
                    dict(w=3 * h.prefix.µ, l=1 * h.prefix.µ, mult=3),
                    # a value GIVEN as zero is a given value (a device kept in the netlist, switched off), not an unset one
                    dict(mult=0), dict(mult=0 * h.prefix.m, nf=1), dict(mult=0.0)]
        for k, v in enumerate(variants):
            top.add(h.Mos(**req, **v)(d=top.a, g=top.b, s=top.c, b=top.d), name=f"m{k}")
        try:
            P["compile"](top)
        except Exception as e:
            return (f"{pname}.params.raises", f"{case!r} {req}: {type(e).__name__}: {str(e)[:100]}", w)
        calls = [top.instances[f"m{k}"].of for k in range(len(variants))]
        case = (case, tuple(sorted((k, getattr(v, "name", v)) for k, v in req.items())))

        def getp(c, names_):
            prm = c.params
            for n in names_:
                val = prm.get(n) if isinstance(prm, dict) else getattr(prm, n, None)
                if val is not None:
                    return val
            return None
        for k, v in enumerate(variants):
            # Sky130 and GF180 parameter classes carry two alias fields (`mult`, `m`); the value may land in either
            alias = [x for x in (getp(calls[k], ("mult",)), getp(calls[k], ("m",))) if x is not None]
            got = alias[0] if alias else None
            if alias and all(x != v["mult"] for x in alias):
                return (f"{pname}.params.mult", f"{case!r}: instance m{k} asked for mult={v['mult']}, device call has {got}", w)
            if "w" in v and getp(calls[k], ("w",)) != v["w"]:
                return (f"{pname}.params.size", f"{case!r}: instance m{k} asked for w={v['w']}, device call has {getp(calls[k], ('w',))}", w)
        if calls[1] is not calls[3]:
            return (f"{pname}.cache-identity", f"{case!r}: equal primitive parameters gave different device calls", w)
        if calls[0] is calls[1] or calls[4] is calls[5]:
            return (f"{pname}.cache-conflates", f"{case!r}: different primitive parameters share one device call", w)
        return None


def _check_case_rest(case, kind, pname, arg, P, w):
    import hdl21 as h
    from hdl21.primitives import MosType, MosFamily, MosVth
    from rtc.wf import wf_package
    if kind == "pairs-and-frame":
        # two different satisfiable requests in ONE compile, in both orders: each instance gets the device it gets when
        # compiled alone (equal parameters <=> same call); the parameter objects the designer holds are left as they were
        sat = [r for r in mos_requests("quick") if len(P["mos"](h.Mos(**r).params)) == 1]
        alone = {}
        for r in sat:
            t = design(h.Mos(**r), depth=1, shared=False)
            try:
                P["compile"](t)
            except Exception as e:
                return (f"{pname}.pairs.raises", f"{r}: {type(e).__name__}: {str(e)[:100]}", w)
            alone[tuple(sorted((k, v.name) for k, v in r.items()))] = [x for pth, x in leaf_targets(t).items() if pth[-1] == "dev"][0]
        import dataclasses as _dc
        for r1 in sat:
            for r2 in sat:
                if r1 == r2:
                    continue
                c1, c2 = h.Mos(**r1), h.Mos(**r2)
                before = [{f.name: getattr(c.params, f.name) for f in _dc.fields(c.params)} for c in (c1, c2)]
                top = h.Module(name="PairTop")
                top.d, top.g, top.s, top.b = h.Signals(4)
                top.x1 = c1(d=top.d, g=top.g, s=top.s, b=top.b)
                top.x2 = c2(d=top.d, g=top.g, s=top.s, b=top.b)
                try:
                    P["compile"](top)
                except Exception as e:
                    return (f"{pname}.pairs.raises", f"{r1} then {r2}: {type(e).__name__}: {str(e)[:100]}", w)
                for c, b4 in zip((c1, c2), before):
                    try:
                        now = {f.name: getattr(c.params, f.name) for f in _dc.fields(c.params)}
                    except AttributeError as e:
                        now = f"unreadable ({e})"
                    if now != b4:
                        return (f"{pname}.frame.parameters", f"compile changed the designer's parameter object: {b4} -> {now}", w)
                for iname, r in (("x1", r1), ("x2", r2)):
                    got = top.instances[iname].of
                    want = alone[tuple(sorted((k, v.name) for k, v in r.items()))]
                    if not (got == want and got.module is want.module):
                        return (f"{pname}.pairs.device", f"{r1} then {r2} in one compile: {iname} became {got.module.name} "
                                                         f"{got.params}, alone it becomes {want.module.name} {want.params}", w)
        return None
    if kind == "compiled-next-to-direct":
        # one design holding a compiled generic primitive AND a directly instantiated device of the PDK which is the same
        # cell (PDK packages offer their devices for direct use under another object than the one the compiler picks):
        # "all other instances are untouched", and the compiled design exports and netlists
        import io as _io
        spaces = [P["pkg"]] + [getattr(P["pkg"], n, None) for n in ("primitives", "pdk", "pdk_logic")]
        direct = {}
        for sp_ in spaces:
            for nm in (dir(sp_) if sp_ is not None else ()):
                o = getattr(sp_, nm, None)
                if isinstance(o, h.ExternalModule):
                    direct.setdefault((o.domain, o.name), []).append(o)
        pairs = []
        for r in mos_requests("quick"):
            if len(P["mos"](h.Mos(**r).params)) == 1:
                pairs.append((h.Mos(**r), 4))
        for pk, table in P["passives"].items():
            for key, dev in list(table.items())[:4]:
                prim = {"res": (h.primitives.PhysicalResistor, h.primitives.ThreeTerminalResistor),
                        "cap": (h.primitives.PhysicalCapacitor, h.primitives.ThreeTerminalCapacitor),
                        "diode": (h.primitives.Diode, h.primitives.Diode), "bjt": (h.primitives.Bipolar, h.primitives.Bipolar)}[pk]
                try:
                    pairs.append((prim[1 if len(dev.ports) == 3 and pk in ("res", "cap") else 0](model=key), len(dev.ports)))
                except Exception:
                    pass
        done = 0
        for call, nports in pairs:
            alone = design(call, depth=1, shared=False)
            try:
                P["compile"](alone)
            except Exception:
                continue
            dev = [t for pth, t in leaf_targets(alone).items() if pth[-1] == "dev"][0]
            if not isinstance(dev, h.ExternalModuleCall):
                continue
            if sorted(p_.name for p_ in dev.module.port_list) != sorted(p_.name for p_ in call.prim.port_list):
                continue      # (devices whose terminals differ from the generic primitive's: the recorded C15 finding)
            for twin in direct.get((dev.module.domain, dev.module.name), [dev.module]):
                for depth in (0, 1):
                    m = h.Module(name="NextToDirect")
                    sigs = {p_.name: m.add(h.Signal(name="n_" + p_.name, width=p_.width)) for p_ in twin.port_list}
                    gports = [p_.name for p_ in call.prim.port_list]
                    m.add(call(**{pn: list(sigs.values())[k % len(sigs)] for k, pn in enumerate(gports)}), name="generic")
                    try:
                        params = dev.params if isinstance(dev.params, twin.paramtype) else twin.paramtype()
                        m.add(twin(params)(**sigs), name="direct")
                    except Exception:
                        continue
                    top = m
                    if depth:
                        top = h.Module(name="NextToDirectTop")
                        top.inner = m()
                    before = leaf_targets(top)
                    try:
                        P["compile"](top)
                    except Exception as e:
                        return (f"{pname}.next-to-direct.raises", f"compile of {call.prim.name} next to a direct {twin.name}: "
                                                                  f"{type(e).__name__}: {str(e)[:100]}", w)
                    after = leaf_targets(top)
                    dkey = [k for k in after if k[-1] == "direct"]
                    if not dkey or after[dkey[0]] is not before[dkey[0]]:
                        return (f"{pname}.next-to-direct.touched", f"the directly instantiated {twin.name} was replaced by the compile", w)
                    try:
                        pkg = h.to_proto(top)
                        for fmt in ("spice", "spectre"):
                            h.netlist(top, _io.StringIO(), fmt=fmt)
                    except Exception as e:
                        return (f"{pname}.next-to-direct.export", f"a design holding a compiled {call.prim.name} and a direct "
                                                                  f"{twin.name} (depth {depth}) does not export / netlist: "
                                                                  f"{type(e).__name__}: {str(e)[-120:]}", w)
                    probs = wf_package(pkg)
                    if probs:
                        return (f"{pname}.next-to-direct.invalid", f"{twin.name}: {probs[0][:160]}", w)
                    done += 1
        if not done:
            return (f"{pname}.next-to-direct.harness", "no device pair could be built", w)
        return None
    if kind == "export-compile-export":
        # a design exported / netlisted / elaborated BEFORE it is compiled: afterwards it exports with the PDK's devices,
        # exactly as a twin that was compiled straight away
        import io as _io
        sat = [r for r in mos_requests("quick") if len(P["mos"](h.Mos(**r).params)) == 1][:3]
        for r in sat:
            for first in ("to_proto", "elaborate", "netlist-attempt"):
                twin = design(h.Mos(**r), depth=2)
                P["compile"](twin)
                want = h.to_proto(twin).SerializeToString(deterministic=True)
                top = design(h.Mos(**r), depth=2)
                try:
                    if first == "to_proto":
                        h.to_proto(top)
                    elif first == "elaborate":
                        h.elaborate(top)
                    else:
                        try:
                            h.netlist(top, _io.StringIO(), fmt="spice")
                        except Exception:
                            pass          # (generic primitives do not netlist before they are compiled)
                    P["compile"](top)
                    got = h.to_proto(top).SerializeToString(deterministic=True)
                except Exception as e:
                    return (f"{pname}.export-compile-export.raises", f"{r}, {first} first: {type(e).__name__}: {str(e)[:120]}", w)
                if got != want:
                    return (f"{pname}.export-compile-export.differs", f"{r}: a design that went through {first} before it was compiled "
                                                                       f"exports differently from one compiled straight away", w)
        return None
    if kind == "default-after-late-registration":
        # the default PDK is a function of what is registered and what was set NOW - not of which lookups happened while
        # fewer PDKs were registered: a fresh process imports this PDK only, resolves the default (by lookup / by a
        # targetless compile), THEN imports a second PDK; with two registered and none set there is no default
        import json
        import subprocess
        import sys
        from pyvc import loader
        script = (
            "import sys, json\n"
            "import hdl21 as h\n"
            "import hdl21.pdk as hp\n"
            "from hdl21.primitives import MosType, MosFamily, MosVth\n"
            "import importlib\n"
            "first, second, how = sys.argv[1:4]\n"
            "out = {}\n"
            "def design():\n"
            "    m = h.Module(name='D')\n"
            "    m.d, m.g, m.s, m.b = h.Signals(4)\n"
            "    m.n = h.Mos(tp=MosType.NMOS, family=MosFamily.CORE, vth=MosVth.STD)(d=m.d, g=m.g, s=m.s, b=m.b)\n"
            "    return m\n"
            "hp.pdk._mgr.modules.clear(); hp.pdk._mgr.names.clear(); hp.pdk._mgr.default = None\n"
            "for k in [k for k in sys.modules if k.startswith('hdl21.pdk.sample_pdk')]: del sys.modules[k]\n"
            "m1 = importlib.import_module(first)\n"
            "out['registered1'] = sorted(m.__name__ for m in hp.pdk._mgr.modules)\n"
            "if how == 'lookup':\n"
            "    out['default1'] = getattr(hp.default(), '__name__', None)\n"
            "elif how == 'compile':\n"
            "    try: hp.compile(design()); out['compile1'] = 'ok'\n"
            "    except Exception as e: out['compile1'] = 'raises ' + type(e).__name__\n"
            "m2 = importlib.import_module(second)\n"
            "out['registered2'] = sorted(m.__name__ for m in hp.pdk._mgr.modules)\n"
            "out['default2'] = getattr(hp.default(), '__name__', None)\n"
            "d = design()\n"
            "try:\n"
            "    hp.compile(d)\n"
            "    out['compile2'] = 'compiled to ' + str(getattr(getattr(d.n.of, 'module', None), 'name', d.n.of))\n"
            "except RuntimeError as e:\n"
            "    out['compile2'] = 'raises RuntimeError'\n"
            "print('REG' + json.dumps(out, sort_keys=True))\n")
        names = {"sample": "hdl21.pdk.sample_pdk", "sky130": "sky130_hdl21", "gf180": "gf180_hdl21", "asap7": "asap7_hdl21"}
        first = names[pname]
        env = dict(os.environ, PYTHONPATH=os.pathsep.join([ROOT, loader.REPO] + [os.path.join(loader.REPO, "pdks", d_) for d_ in
                                                                                ("Sky130", "Gf180", "Asap7")]))
        for second in [n for k, n in names.items() if k != pname][:2]:
            res = {}
            for how in ("none", "lookup", "compile"):
                r = subprocess.run([sys.executable, "-c", script, first, second, how], capture_output=True, text=True, env=env, timeout=600, cwd=ROOT)
                line = [l for l in r.stdout.splitlines() if l.startswith("REG")]
                if not line:
                    return (f"{pname}.registration.harness", f"worker failed: {r.stderr[-300:]}", w)
                res[how] = json.loads(line[0][3:])
            base = res["none"]
            if len(base["registered2"]) < 2:
                continue      # (importing the first PDK registers the second as well: no late registration to speak of)
            for how in ("lookup", "compile"):
                for key in ("registered2", "default2", "compile2"):
                    if res[how][key] != base[key]:
                        return ("pdk.default.history", f"{first} registered, default resolved by {how}, then {second} registered: "
                                                       f"{key} is {res[how][key]!r}; without the early {how} it is {base[key]!r}", w)
        return None
    if kind == "dispatch-unknown-name":
        # a PDK name nobody registered is an error - whatever default is in force - never a compile to some other PDK
        import hdl21.pdk as hp
        mine = next((m for m in hp.pdk._mgr.modules if m.__name__.startswith(P["pkg"].__name__)), None)
        call = h.Mos(tp=MosType.NMOS, family=MosFamily.CORE, vth=MosVth.STD)
        old = hp.pdk._mgr.default
        try:
            for default in (None, mine):
                hp.pdk._mgr.default = default
                top = design(call, depth=1, shared=False)
                for bogus in ("no_such_pdk", mine.__name__ + "_x", ""):
                    try:
                        hp.compile(top, pdk=bogus)
                    except Exception:
                        continue
                    dev = [t for pth, t in leaf_targets(top).items() if pth[-1] == "dev"][0]
                    return ("pdk.compile.unknown-name", f"compile(pdk={bogus!r}) (default: {getattr(default, '__name__', None)}) did not raise; "
                                                        f"the device is now {getattr(getattr(dev, 'module', None), 'name', dev)}", w)
        finally:
            hp.pdk._mgr.default = old
        return None
    if kind == "by-parameter-after-by-model":
        # selection by (type, family, threshold) gives the same device whether or not other devices of that triple were
        # compiled by model name BEFORE the first request by parameters - in a fresh process each (selection tables may be
        # filled lazily, once per process)
        import json
        import subprocess
        import sys
        from pyvc import loader
        script = (
            "import sys, json\n"
            "import hdl21 as h\n"
            "from hdl21.primitives import MosType, MosFamily, MosVth\n"
            "import props.c15 as c\n"
            "P = c.pdks()[sys.argv[1]]\n"
            "if sys.argv[2].startswith('models-first'):\n"
            "    names = list(P['models'])\n"
            "    names = names[::-1] if sys.argv[2].endswith('reversed') else names\n"
            "    for mname in names:\n"
            "        t = c.design(h.Mos(model=mname), depth=1, shared=False)\n"
            "        try: P['compile'](t)\n"
            "        except Exception: pass\n"
            "out = {}\n"
            "for r in c.mos_requests('quick'):\n"
            "    if len(P['mos'](h.Mos(**r).params)) >= 1:\n"
            "        t = c.design(h.Mos(**r), depth=1, shared=False)\n"
            "        try:\n"
            "            P['compile'](t)\n"
            "            d = [x for pth, x in c.leaf_targets(t).items() if pth[-1] == 'dev'][0]\n"
            "            out[str(sorted((k, v.name) for k, v in r.items()))] = d.module.name + ' ' + str(d.params)\n"
            "        except Exception as e:\n"
            "            out[str(sorted((k, v.name) for k, v in r.items()))] = 'raises ' + type(e).__name__\n"
            "print('SEL' + json.dumps(out, sort_keys=True))\n")
        res = {}
        for mode in ("parameters-only", "models-first", "models-first-reversed"):
            env = dict(os.environ, PYTHONPATH=os.pathsep.join([ROOT, loader.REPO] + [os.path.join(loader.REPO, "pdks", d_) for d_ in
                                                                                    ("Sky130", "Gf180", "Asap7")]))
            r = subprocess.run([sys.executable, "-c", script, pname, mode], capture_output=True, text=True, env=env, timeout=600, cwd=ROOT)
            line = [l for l in r.stdout.splitlines() if l.startswith("SEL")]
            if not line:
                return (f"{pname}.selection.harness", f"worker failed: {r.stderr[-300:]}", w)
            res[mode] = json.loads(line[0][3:])
        for key, dev in res["parameters-only"].items():
            for mode in ("models-first", "models-first-reversed"):
                if res[mode].get(key) != dev:
                    return (f"{pname}.selection.history", f"{key}: {dev} in a process that only asks by parameters, "
                                                          f"{res[mode].get(key)} after every device was first compiled by model name ({mode})", w)
        return None
    if kind == "dispatch-after-failure":
        # a compile that raises (no such device) leaves the PDK registry as it was: the default still decides
        import hdl21.pdk as hp
        mods = {n: next((m for m in hp.pdk._mgr.modules if m.__name__.startswith(d["pkg"].__name__)), None)
                for n, d in pdks().items()}
        mine = mods[pname]
        call = h.Mos(tp=MosType.NMOS, family=MosFamily.CORE, vth=MosVth.STD)
        unsat = h.Mos(tp=MosType.PMOS, family=MosFamily.NONE, vth=MosVth.ULTRA_LOW, model="NO_SUCH_MODEL")
        ref = design(call, depth=1, shared=False)
        P["compile"](ref)
        want = [t for pth, t in leaf_targets(ref).items() if pth[-1] == "dev"][0]
        old = hp.pdk._mgr.default
        try:
            for other, omod in mods.items():
                if other == pname or omod is None or pdks()[other]["mos"](unsat.params):
                    continue          # (the sample PDK maps every request: it cannot be made to fail this way)
                for how in ("module", "name", "default"):
                    hp.set_default(omod if how == "default" else mine)
                    try:
                        if how == "default":
                            hp.compile(design(unsat, depth=1, shared=False))
                        else:
                            hp.compile(design(unsat, depth=1, shared=False), pdk=omod if how == "module" else omod.__name__)
                    except Exception:
                        pass
                    else:
                        return (f"pdk.compile.accepts-unsatisfiable", f"{other} compiled a request no device satisfies", w)
                    hp.set_default(mine)
                    if hp.default() is not mine:
                        return ("pdk.default.after-failure", f"after a failed compile to {other} (by {how}), default() is "
                                                              f"{getattr(hp.default(), '__name__', None)} although {pname} was set", w)
                    top = design(call, depth=1, shared=False)
                    try:
                        hp.compile(top)
                    except Exception as e:
                        return ("pdk.compile.after-failure", f"compile by default after a failed compile to {other}: "
                                                              f"{type(e).__name__}: {str(e)[:100]}", w)
                    dev = [t for pth, t in leaf_targets(top).items() if pth[-1] == "dev"][0]
                    if not (isinstance(dev, h.ExternalModuleCall) and dev.module is want.module):
                        return ("pdk.compile.after-failure", f"default {pname} set, but after a failed compile to {other} "
                                                              f"(by {how}) the device is {getattr(getattr(dev, 'module', None), 'name', dev)}", w)
        finally:
            hp.pdk._mgr.default = old
        return None
    if kind == "dispatch":
        import hdl21.pdk as hp
        mod = P["pkg"]
        pdkmod = next((m for m in hp.pdk._mgr.modules if m.__name__.startswith(mod.__name__)), None)
        if pdkmod is None:
            return (f"{pname}.not-registered", f"{pname} is not registered with hdl21.pdk", w)
        call = h.Mos(tp=MosType.NMOS, family=MosFamily.CORE, vth=MosVth.STD)
        for how in ("module", "name", "default"):
            top = design(call, depth=1, shared=False)
            try:
                if how == "module":
                    hp.compile(top, pdk=pdkmod)
                elif how == "name":
                    hp.compile(top, pdk=pdkmod.__name__)
                else:
                    old = hp.pdk._mgr.default
                    hp.set_default(pdkmod)
                    try:
                        hp.compile(top)
                    finally:
                        hp.pdk._mgr.default = old
            except Exception as e:
                return (f"pdk.compile.by-{how}", f"{case!r}: hdl21.pdk.compile by {how} failed: {type(e).__name__}: {str(e)[:100]}", w)
            dev = [t for pth, t in leaf_targets(top).items() if pth[-1] == "dev"][0]
            if not isinstance(dev, h.ExternalModuleCall):
                return (f"pdk.compile.by-{how}", f"{case!r}: compile by {how} did not replace the device", w)
        return None
    return None


def cell_cases(tier, seed):
    import importlib
    libs = []
    for pkg, sub in (("sky130_hdl21", "digital_cells"), ("gf180_hdl21", "digital_cells")):
        try:
            base = importlib.import_module(f"{pkg}.{sub}")
        except Exception:
            continue
        import pkgutil
        for m in pkgutil.iter_modules(base.__path__):
            libs.append((pkg, f"{pkg}.{sub}.{m.name}"))
    rnd = random.Random(seed)
    for pkg, modname in libs:
        yield ("cells", pkg, modname, seed if tier != "thorough" else -1)


def check_cells(case):
    import importlib
    import hdl21 as h
    from rtc.wf import wf_package
    _, pkg, modname, seed = case
    w = {"case": repr(case)}
    mod = importlib.import_module(modname)
    cells = [(n, v) for n, v in vars(mod).items() if isinstance(v, h.ExternalModule)]
    # pin order: every cell's ports are, in order, the pin list its library file writes for it (the order of the foundry's
    # .subckt, which is what a netlist's positional connections are read against) - all cells, not only the sampled ones
    import ast as _ast
    declared = {}
    for node in _ast.parse(open(mod.__file__).read()).body:
        if isinstance(node, _ast.Assign) and isinstance(node.value, _ast.Call) and len(node.targets) == 1 and \
                isinstance(node.targets[0], _ast.Name) and getattr(node.value.func, "id", "") == "logic_module":
            try:
                args = [_ast.literal_eval(a) for a in node.value.args]
            except Exception:
                continue
            lists = [a for a in args if isinstance(a, list)]
            if lists:
                declared[node.targets[0].id] = (args[0], lists[0])
    if len(declared) * 2 < len(cells):
        return ("cells.harness", f"{modname}: only {len(declared)} of {len(cells)} cell declarations could be read", w)
    for n, em in cells:
        if n in declared:
            name, pins = declared[n]
            got = [p_.name for p_ in em.port_list]
            if em.name != name or got != pins:
                return ("cells.pin-order", f"{modname}.{n}: ports {got} (module {em.name}), the library declares {name} {pins}", w)
    if seed >= 0:
        cells = [c for k, c in enumerate(cells) if k % 16 == seed % 16]
    bad = 0
    for n, em in cells:
        top = h.Module(name="CellTop")
        conns = {}
        for p in em.port_list:
            conns[p.name] = top.add(h.Signal(width=p.width), name=f"s_{p.name}")
        try:
            call = em()
        except Exception:
            try:
                call = em(em.paramtype())
            except Exception as e:
                return ("cells.instantiate", f"{modname}.{n}: cannot be instantiated with default parameters: {str(e)[:100]}", w)
        top.add(call(**conns), name="u")
        try:
            pkgp = h.to_proto(top)
            pr = wf_package(pkgp)
        except Exception as e:
            return ("cells.export", f"{modname}.{n}: {type(e).__name__}: {str(e)[:140]}", w)
        if pr:
            return ("cells.invalid", f"{modname}.{n}: {pr[0][:160]}", w)
    check_cells.count = getattr(check_cells, "count", 0) + len(cells)
    return None


def run(ctx):
    from contracts import c_walker as cw
    ctx.verify(cw.engine(), cw.VERIFY)
    from contracts import c_pdksizes
    for eng, con in c_pdksizes.engines_and_contracts():
        ctx.verify(eng, [con], min_obligations={con.key: 4})
    ctx.assumptions.append("use_defaults: scale_param is abstracted as a function of its (non-None) argument")
    bad = cw.audit_walkers()
    ctx.frame_audit("walker-frame-audit", bad, "a PDK walker writes connections or names")
    ctx.run_bounded("device-tables", cases(ctx.tier, ctx.seed), check_case,
                    rule="for each of the four PDKs: every (type, family, threshold) triple (2x6x7), every transistor "
                         "model name plus an unknown one, every resistor/capacitor/diode/bipolar table entry with "
                         "defaulted and given sizes plus unknown models; the device placed at depth 1-2 of a hierarchy "
                         "with a shared child and an ideal-primitive bystander; frame, selection, port compatibility, "
                         "cache identity, export + netlist, compile twice; pdk.compile by module / name / default; "
                         "exhaustive over the tables", bound="complete tables, depth<=2", key_of=repr)
    ctx.bounded[-1]["exhaustive"] = True
    check_cells.count = 0
    ctx.run_bounded("logic-cells", cell_cases(ctx.tier, ctx.seed), check_cells,
                    rule="every Sky130 / GF180 digital-cell module instantiated with all ports connected, exported and "
                         "netlisted (thorough: all; quick: 1 in 16, slice chosen by the seed); distinct = library file",
                    bound="all libraries", key_of=repr)
    ctx.bounded[-1]["cells_checked"] = check_cells.count
    ctx.bounded[-1]["evaluations"] = max(ctx.bounded[-1]["evaluations"], check_cells.count)
    return INFO


def replay(payload):
    c = (payload.get("input") or {}).get("case")
    if not c:
        return 2
    from hdl21.primitives import MosType, MosFamily, MosVth
    case = eval(c)
    r = check_cells(case) if case[0] == "cells" else check_case(case)
    print("replay:", r)
    return 1 if r else 0
