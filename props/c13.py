"""C13 - parameter values reach the package unchanged."""
import itertools
import math
import random
from decimal import Decimal
from fractions import Fraction

from pyvc import *
from contracts.common import *

INFO = {
    "level": "other",
    "explanation": "hybrid: export_prefix (total, name-preserving over the 21 prefixes) and export_param_value "
                   "(variant per type, value carried unchanged, None -> None, TypeError outside the accepted types) "
                   "proved by pyvc; exactness of Decimal / float / Prefixed values, None omission, the ideal-primitive "
                   "mapping with the documented pulse renaming and scalar conversion evaluated at run time on real "
                   "instances over a value set (bounded; Decimal and float are outside the solver theories)",
    "trusted_base": ["decimal / fractions as reference arithmetic", "protobuf field semantics", "pyvc", "z3"],
}

PULSE = {"delay": "td", "rise": "tr", "fall": "tf", "width": "tpw", "period": "tper", "v1": "v1", "v2": "v2"}
IDEAL = {"R": ("resistor", {"r": "r"}), "C": ("capacitor", {"c": "c"}), "L": ("inductor", {"l": "l"}),
         "Vdc": ("vdc", {"dc": "dc", "ac": "ac"}), "Vpulse": ("vpulse", PULSE),
         "Isrc": ("isource", {"dc": "dc"}), "Vcvs": ("vcvs", {"gain": "gain"}), "Vccs": ("vccs", {"gain": "gain"}),
         "Cccs": ("cccs", {"gain": "gain"}), "Ccvs": ("ccvs", {"gain": "gain"})}
SI = {-24: "YOCTO", -21: "ZEPTO", -18: "ATTO", -15: "FEMTO", -12: "PICO", -9: "NANO", -6: "MICRO", -3: "MILLI",
      -2: "CENTI", -1: "DECI", 0: "UNIT", 1: "DECA", 2: "HECTO", 3: "KILO", 6: "MEGA", 9: "GIGA", 12: "TERA",
      15: "PETA", 18: "EXA", 21: "ZETTA", 24: "YOTTA"}


import enum as _enum


class _StrEnum(str, _enum.Enum):          # string-valued enum that is also a str: exported as its VALUE
    TYPICAL = "tt"


class _PlainEnum(_enum.Enum):
    FAST = "ff"


class _LoudStr(str):                      # a str subclass with its own __str__: exported as the string it IS
    def __str__(self):
        return "LOUD:" + str.__str__(self).upper()


def values(tier, seed):
    import hdl21 as h
    from hdl21.prefix import Prefix
    rnd = random.Random(seed)
    vals = [0, 1, -1, 2 ** 62, -(2 ** 63), 7, 0.1, 1e-9, 2.5, 1 / 3, 1e300, -0.0, 123456.789,
            Decimal("1.50"), Decimal("1E+3"), Decimal("0.000000000000000000000000000001"),
            Decimal("12345678901234567890.1234567890123456789"), Decimal("-7.000"),
            "w/5", "2*x", "", "1.5", "1e-9", "1E-9", "2.5E6", "-7E+3", "1_0", ".5", "5.", "+3", " 3 ", "nan", "inf", "abc def",
            "  lead", "trail\t", " both ", "line\n", "   ", "\u00a0nbsp\u00a0", "a  b",
            "0.12345678901234567890123", "1234567890.0123456789", "12345678901234567890123", "-3.000000000000000000001e-7",
            "1e400", "1E-400", "0.1000000000000000055511151231257827", "+.5E+2", "9007199254740993", "-0.000000000000000000000000000000000000001",
            "0x10", str(Decimal("1E-9")), str(Decimal("12E+7")), h.Literal("a+b"), h.Literal(""),
            _StrEnum.TYPICAL, _PlainEnum.FAST, _LoudStr("quiet")]
    for p in Prefix:
        # (1000 / 0.001 / 1: the same values written with neighbouring prefixes - equal numbers, different digits)
        for m in ("1", "1.50", "-0.000123", "12345678901234567890123456789012345678901", "3E+2", "1000", "0.001",
                  "2500", "2.50", "1.00000000000000000001", "123456789012345678.5", "0.99999999999999999999", "-7.0000000000000000004"):
            vals.append(h.Prefixed(number=Decimal(m), prefix=p))
    n = 400 if tier == "thorough" else 40
    for _ in range(n):
        k = rnd.random()
        if k < 0.3:
            vals.append(rnd.randint(-2 ** 63, 2 ** 63 - 1))
        elif k < 0.6:
            vals.append(rnd.uniform(-1, 1) * 10 ** rnd.randint(-30, 30))
        else:
            digits = "".join(rnd.choice("0123456789") for _ in range(rnd.randint(1, 40)))
            vals.append(Decimal(("-" if rnd.random() < 0.5 else "") + digits + "E" + str(rnd.randint(-30, 30))))
            if rnd.random() < 0.5:      # the same number as TEXT (numeric strings of up to 40 digits, exponents far beyond a double's)
                vals.append(("-" if rnd.random() < 0.5 else "") + digits[:1] + "." + digits[1:] + "e" + str(rnd.randint(-400, 400)))
    return vals


def expected_param(v):
    """specification of the exported ParamValue for an already-converted parameter value -> (kind, payload)"""
    import hdl21 as h
    from enum import Enum
    if isinstance(v, Enum):
        return ("literal", v.value)
    if isinstance(v, str):
        return ("literal", str.__str__(v))
    if isinstance(v, h.Literal):
        return ("literal", v.text)
    if isinstance(v, h.Prefixed):
        return ("prefixed", (Fraction(v.number), v.prefix.value, v.number))
    if isinstance(v, Decimal):
        return ("decimal", Fraction(v))
    if isinstance(v, bool) or isinstance(v, int):
        return ("int", int(v))
    if isinstance(v, float):
        return ("double", v)
    raise TypeError(type(v))


def matches(pv, exp):
    kind, want = exp
    got = pv.WhichOneof("value")
    if kind == "literal":
        return got == "literal" and pv.literal == want
    if kind == "int":
        return got == "int64_value" and pv.int64_value == want
    if kind == "double":
        return got == "double_value" and (pv.double_value == want or (math.isnan(want) and math.isnan(pv.double_value))) \
            and math.copysign(1, pv.double_value) == math.copysign(1, want)
    if kind == "decimal":
        # a plain Decimal may be carried as a literal or as a prefixed number, but its digits must be exact
        if got == "literal":
            try:
                return Fraction(Decimal(pv.literal)) == want
            except Exception:
                return False
        if got == "prefixed":
            return prefixed_value(pv.prefixed) == want
        return False
    if kind == "prefixed":
        num, pexp, dec = want
        if got != "prefixed":
            return False
        import vlsir
        if vlsir.SIPrefix.Name(pv.prefixed.prefix) != SI[pexp]:
            return False
        which = pv.prefixed.WhichOneof("number")
        if which == "int64_value":
            return Fraction(pv.prefixed.int64_value) == num
        if which == "string_value":
            # "keep their exact decimal digits": the string is the Decimal's own text, trailing zeros and exponent too
            return Fraction(Decimal(pv.prefixed.string_value)) == num and \
                Decimal(pv.prefixed.string_value).as_tuple() == dec.as_tuple()
        if which == "double_value":
            return Fraction(pv.prefixed.double_value) == num
        return False
    return False


def prefixed_value(pp):
    import vlsir
    exp = {v: k for k, v in SI.items()}[vlsir.SIPrefix.Name(pp.prefix)]
    which = pp.WhichOneof("number")
    n = {"int64_value": lambda: Fraction(pp.int64_value), "string_value": lambda: Fraction(Decimal(pp.string_value)),
         "double_value": lambda: Fraction(pp.double_value)}[which]()
    return n * Fraction(10) ** exp


def cases(tier, seed):
    vs = values(tier, seed)
    for k, v in enumerate(vs):
        yield ("ext", k, v)
    for name in IDEAL:
        for k, v in enumerate(vs[:: (3 if tier == "thorough" else 9)]):
            yield ("ideal:" + name, k, v)
    for k, v in enumerate(vs):
        yield ("scalar", k, v)
    for k, v in enumerate(vs):
        if isinstance(v, str) and type(v) is str:
            yield ("typed-string", k, v)
    for k in range(6):
        yield ("type-constructors", k, None)
    for k in range(5):
        yield ("pulse-like-names", k, None)
    for k, name in enumerate(IDEAL):
        yield ("explicit-none", k, name)


def check_case(case):
    import hdl21 as h
    kind, k, v = case
    w = {"case": repr((kind, k, repr(v)))}
    if kind == "scalar":
        if isinstance(v, (h.Prefixed, h.Literal)):
            return None if h.scalar.to_scalar(v) is v else ("scalar.identity", f"to_scalar changed {v!r}", w)
        if isinstance(v, _enum.Enum) and not isinstance(v, str):
            return None       # scalar conversion is defined on numbers and strings only
        try:
            r = h.scalar.to_scalar(v)
        except Exception as e:
            return (f"scalar.raises.{type(e).__name__}", f"to_scalar({v!r}) raises {type(e).__name__}: {str(e)[:80]}", w)
        if isinstance(v, str):
            try:
                d = Decimal(v)
                numeric = d.is_finite()
            except Exception:
                numeric = False
            if numeric:
                if not isinstance(r, h.Prefixed) or Fraction(r.number) * Fraction(10) ** r.prefix.value != Fraction(d):
                    return ("scalar.numeric-string", f"to_scalar({v!r}) == {r!r}", w)
            elif isinstance(r, h.Literal):
                if r.text != v:
                    return ("scalar.literal-text", f"to_scalar({v!r}) == {r!r}", w)
            elif not isinstance(r, h.Prefixed) or r.number.is_finite():
                return ("scalar.string", f"to_scalar({v!r}) == {r!r}", w)
            return None
        if not isinstance(r, h.Prefixed):
            return ("scalar.number-type", f"to_scalar({v!r}) is a {type(r).__name__}", w)
        got = Fraction(r.number) * Fraction(10) ** r.prefix.value
        want = [Fraction(v)] if not isinstance(v, float) else [Fraction(v), Fraction(Decimal(repr(v)))]
        if got not in want:
            return ("scalar.number-value", f"to_scalar({v!r}) == {r!r} (value {got}), expected {want[-1]}", w)
        return None
    if kind == "typed-string":
        # string-typed fields of a parameter class (an external module's, and the `model` of the physical primitives):
        # the text reaches the package character for character
        from typing import Optional as _Opt
        PS = h.paramclass(type("PStr", (), {"s": h.Param(dtype=str, desc="s", default=""),
                                             "o": h.Param(dtype=_Opt[str], desc="o", default=None)}))
        E = h.ExternalModule(name="PEs", port_list=[h.Inout(name="a")], paramtype=PS, desc="", domain="pd")
        m = h.Module(name="PS")
        m.a = h.Signal()
        try:
            m.e = E(PS(s=v, o=v))(a=m.a)
            prims = []
            for pname in ("Mos", "Bipolar", "Diode", "PhysicalResistor", "PhysicalCapacitor", "ThreeTerminalResistor"):
                call = getattr(h.primitives, pname)(model=v)
                prims.append(pname)
                m.add(call(**{p.name: m.a for p in call.prim.port_list}), name="x" + pname)
            pkg = h.to_proto(m)
        except Exception as e:
            return (f"typed-string.raises.{type(e).__name__}", f"string parameter {v!r}: {type(e).__name__}: {str(e)[:100]}", w)
        insts = {i.name: {p.name: p.value for p in i.parameters} for i in pkg.modules[-1].instances}
        for iname, pn in [("e", "s"), ("e", "o")] + [("x" + p_, "model") for p_ in prims]:
            pv = insts[iname].get(pn)
            if pv is None or pv.WhichOneof("value") != "literal" or pv.literal != v:
                return ("typed-string.value", f"{iname}.{pn} given {v!r}, exported "
                                              f"{(pv.literal if pv is not None else None)!r}", w)
        return None
    if kind == "type-constructors":
        # the transistor / bipolar type given by the constructor used (Nmos(), Pmos(), Mos(), Npn(), Pnp(), Bipolar(), with
        # and without other parameters), whatever other constructors were called before or after in the process
        import itertools as _it
        ctors = [("Nmos", lambda: h.Nmos(), "NMOS"), ("Pmos", lambda: h.Pmos(), "PMOS"), ("Mos", lambda: h.Mos(), "NMOS"),
                 ("PmosW", lambda: h.Pmos(w=1 * h.prefix.µ), "PMOS"), ("Pnp", lambda: h.Pnp(), "PNP"), ("Npn", lambda: h.Npn(), "NPN"),
                 ("Bipolar", lambda: h.Bipolar(), "NPN")]
        order = list(_it.permutations(range(len(ctors))))[k * 719 % 5040]
        m = h.Module(name="PT")
        m.s = h.Signal()
        calls = {}
        for i in order:                      # all constructed first, in this order ...
            calls[i] = ctors[i][1]()
        for i in sorted(calls):              # ... then instantiated
            c = calls[i]
            m.add(c(**{p.name: m.s for p in c.prim.port_list}), name="x" + ctors[i][0])
        try:
            pkg = h.to_proto(m)
        except Exception as e:
            return (f"type-ctor.raises.{type(e).__name__}", f"{type(e).__name__}: {str(e)[:120]}", w)
        got = {i.name: {p.name: p.value for p in i.parameters} for i in pkg.modules[-1].instances}
        for nm, _, want in ctors:
            pv = got["x" + nm].get("tp")
            if pv is None or pv.literal != want:
                return ("type-ctor.value", f"h.{nm.rstrip('W')}() exported with tp={getattr(pv, 'literal', None)!r}, expected {want!r} "
                                           f"(constructors called in the order {[ctors[i][0] for i in order]})", w)
        return None
    if kind == "explicit-none":
        # a parameter explicitly given as None is omitted from the export, whatever its declared default
        prim = getattr(h, v)
        vname, mapping = IDEAL[v]
        for pn, vn in mapping.items():
            try:
                call = prim(**{pn: None})
            except Exception:
                continue                  # this parameter does not accept None
            if getattr(call.params, pn) is not None:
                return ("ideal.explicit-none-replaced", f"{v}({pn}=None) holds {getattr(call.params, pn)!r}: an explicit None "
                                                        f"was replaced (it must reach the exporter and be omitted)", w)
            m = h.Module(name="PNone")
            sigs = {p.name: h.Signal(name="s_" + p.name) for p in call.prim.port_list}
            for s_ in sigs.values():
                m.add(s_)
            m.i = call(**sigs)
            try:
                pkg = h.to_proto(m)
            except Exception as e:
                return (f"ideal.raises.{type(e).__name__}", f"{v}({pn}=None) not exported: {str(e)[:100]}", w)
            got = [p.name for p in pkg.modules[-1].instances[0].parameters]
            if vn in got:
                return ("ideal.none-not-omitted", f"{v}({pn}=None) exported parameter {vn}", w)
        return None
    if kind == "pulse-like-names":
        # the ideal pulse source's renaming (delay->td, ...) applies to that primitive only: any other instance keeps
        # its parameter names, whatever they are called
        names = ["delay", "rise", "fall", "width", "period", "v1", "v2", "td", "w"]
        m = h.Module(name="PN")
        m.a = h.Signal()
        if k == 0:
            E = h.ExternalModule(name="PEd", port_list=[h.Inout(name="a")], paramtype=dict, desc="", domain="pd")
            m.e = E(**{n: i + 1 for i, n in enumerate(names)})(a=m.a)
        elif k == 1:
            PC = h.paramclass(type("PCls", (), {n: h.Param(dtype=int, desc=n, default=i + 1) for i, n in enumerate(names)}))
            E = h.ExternalModule(name="PEp", port_list=[h.Inout(name="a")], paramtype=PC, desc="", domain="pd")
            m.e = E(PC())(a=m.a)
        elif k in (3, 4):
            # parameter names with leading / trailing underscores, dunder-like, keyword-like - in a param-class and in a dict
            names = ["_fingers", "_corner", "__x", "w_", "_", "__dunder__", "m"]
            if k == 3:
                PC = h.paramclass(type("PUnd", (), {n: h.Param(dtype=int, desc=n, default=i + 1) for i, n in enumerate(names)
                                                   if not n.startswith("__")}))
                names = [n for n in names if not n.startswith("__")]      # (the param-class decorator leaves `__names` alone)
                E = h.ExternalModule(name="PEu", port_list=[h.Inout(name="a")], paramtype=PC, desc="", domain="pd")
                m.e = E(PC())(a=m.a)
            else:
                E = h.ExternalModule(name="PEud", port_list=[h.Inout(name="a")], paramtype=dict, desc="", domain="pd")
                m.e = E({n: i + 1 for i, n in enumerate(names)})(a=m.a)
        else:
            m.b = h.Signal()
            m.e = h.PhysicalResistor(w=1 * h.prefix.µ, l=2 * h.prefix.µ)(p=m.a, n=m.b)
            names = ["w", "l"]
        try:
            pkg = h.to_proto(m)
        except Exception as e:
            return (f"names.raises.{type(e).__name__}", f"{type(e).__name__}: {str(e)[:120]}", w)
        got = [p.name for p in pkg.modules[-1].instances[0].parameters]
        if sorted(n for n in got if n in names) != sorted(names):
            return ("ext.names", f"parameters {names} exported as {got}", w)
        return None
    if kind == "ext":
        E = h.ExternalModule(name="PE", port_list=[h.Inout(name="a")], paramtype=dict, desc="", domain="pd")
        m = h.Module(name="PM")
        m.a = h.Signal()
        params = {"first": v, "skipped": None, "last": 5}
        if isinstance(v, float) and (math.isinf(v) or math.isnan(v)):
            pass
        try:
            m.e = E(**params)(a=m.a)
            pkg = h.to_proto(m)
        except Exception as e:
            if isinstance(v, int) and not -(2 ** 63) <= v < 2 ** 63:
                return None
            return (f"ext.raises.{type(e).__name__}", f"external-module parameter {v!r} rejected: {str(e)[:100]}", w)
        ps = pkg.modules[-1].instances[0].parameters
        names = [p.name for p in ps]
        if names != ["first", "last"]:
            return ("ext.names", f"parameters exported as {names} for {params}", w)
        if not matches(ps[0].value, expected_param(v)):
            return ("ext.value", f"{v!r} exported as {str(ps[0].value).strip()!r}", w)
        if not matches(ps[1].value, ("int", 5)):
            return ("ext.value", f"5 exported as {str(ps[1].value).strip()!r}", w)
        return None
    # ideal primitives: every Scalar-typed parameter receives v
    name = kind.split(":")[1]
    prim = getattr(h, name)
    vname, mapping = IDEAL[name]
    if isinstance(v, (int, float, Decimal, str, h.Prefixed, h.Literal)) is False:
        return None
    pnames = list(mapping)
    try:
        kwargs = {pn: v for pn in pnames}
        call = prim(**kwargs)
    except Exception:
        return None      # value not accepted by the primitive's parameter type
    m = h.Module(name="PI")
    sigs = {p.name: h.Signal(name="s_" + p.name) for p in call.prim.port_list}
    for s_ in sigs.values():
        m.add(s_)
    m.i = call(**sigs)
    try:
        pkg = h.to_proto(m)
    except Exception as e:
        return (f"ideal.raises.{type(e).__name__}", f"{name}({v!r}) not exported: {str(e)[:100]}", w)
    inst = pkg.modules[-1].instances[0]
    if (inst.module.external.domain, inst.module.external.name) != ("vlsir.primitives", vname):
        return ("ideal.target", f"{name} exported as {inst.module.external}", w)
    got = {p.name: p.value for p in inst.parameters}
    conv = {pn: getattr(call.params, pn) for pn in pnames}
    for pn, vn in mapping.items():
        cv = conv[pn]
        if cv is None:
            if vn in got:
                return ("ideal.none-not-omitted", f"{name}.{pn}=None exported", w)
            continue
        if vn not in got:
            return ("ideal.missing", f"{name}.{pn} (-> {vn}) missing from {sorted(got)}", w)
        if not matches(got[vn], expected_param(cv)):
            return ("ideal.value", f"{name}.{pn}={cv!r} exported as {str(got[vn]).strip()!r}", w)
    extra = set(got) - set(mapping.values())
    allowed_extra = {p for p in got if p not in mapping.values()}
    return None


def run(ctx):
    from contracts import c_params as cp
    ctx.verify(cp.engine(), cp.VERIFY, min_obligations={cp.VERIFY[0].key: 21})
    ctx.verify(cp.prefixed_engine(), cp.VERIFY_PREFIXED, min_obligations={cp.VERIFY_PREFIXED[0].key: 6})
    from contracts import c_scalar as cs
    ctx.verify(cs.engine(), cs.VERIFY, replay=cs.replay, min_obligations={cs.KEY: 5})
    ctx.assumptions.append("to_scalar: the Prefixed constructor (pydantic validation into a Decimal) is trusted - a call "
                           "yields a new Prefixed or raises; proved is which object it is handed (the argument itself) and "
                           "that a refused string becomes a Literal of the same text; exactness of Decimal(str) / "
                           "Decimal(int) is decided by the bounded family")
    ctx.assumptions.append("export_prefixed: the mantissa is modelled as an exact rational (finite Decimal); "
                           "str(Decimal) is abstracted as a function of the value (its exponent form is decided by the "
                           "bounded family, which compares exported values as Fractions)")
    ctx.run_bounded("parameter-values", cases(ctx.tier, ctx.seed), check_case,
                    rule="an external module (dict parameters, with a None-valued parameter in between) and the ideal "
                         "primitives R C L Vdc Vpulse Isrc Vcvs Vccs Cccs Ccvs given each value of a set: ints to +-2^63, "
                         "floats incl. non-terminating binary fractions / -0.0 / 1e300, Decimals of 1-40 digits and "
                         "exponents +-30, numeric-looking and arbitrary strings, Literals, Prefixed over all 21 prefixes; "
                         "exported name, variant and exact value (as Fraction) compared; to_scalar on the same set; "
                         "distinct = (target, value); all non-trivial",
                    bound="%d values" % len(values(ctx.tier, ctx.seed)), key_of=lambda c: (c[0], c[1]))
    ctx.assumptions.append("floats are compared bit-for-bit (IEEE double round trip through protobuf is exact)")
    return INFO


def replay(payload):
    c = (payload.get("input") or {}).get("case")
    if not c:
        return 2
    kind, k, _ = eval(c)
    for tier in ("quick", "thorough"):
        for case in cases(tier, 0):
            if case[0] == kind and case[1] == k:
                r = check_case(case)
                print("replay:", r)
                return 1 if r else 0
    return 2
