"""C16 - flatten() preserves leaf-level connectivity."""
import itertools
import random

from pyvc import *
from contracts.common import *
from rtc.family import design_family

INFO = {
    "level": "other",
    "explanation": "hybrid: _find_signal_or_port and is_flat proved by pyvc (result is the named port/signal, ports "
                   "first; total over the instantiable kinds); walk/flatten are generator-based graph rewrites evaluated "
                   "at run time: leaf-net partition, leaf devices and ports of flatten(m) compared with those of m "
                   "through the package-level reference reader, over generated hierarchies incl. colliding ':' names "
                   "(bounded)",
    "trusted_base": ["rtc/meaning.py package reader", "pyvc", "z3"],
}


def hier_designs(tier, seed):
    """scalar-and-bus hierarchies without slices/concats, leaves = primitives and external modules, internal nets at
    every level, ports passed through several levels, colliding names"""
    import hdl21 as h
    rnd = random.Random(seed)

    def ext(w):
        return h.ExternalModule(name=f"FX{w}", port_list=[h.Inout(name="a", width=w), h.Inout(name="z")], desc="", domain="fx")

    def build(spec):
        depth, use_ext, buses, names = spec
        counter = [0]

        def redeclare(m, d):
            # ports / internal nets declared AGAIN under their names after instances were connected to them (the
            # connections keep the earlier objects; nets are identified by name)
            if d not in names.get("redeclare-at", ()):
                return
            w = 2 if buses else 1
            for what in names.get("redeclare", ()):
                if what == "p":
                    m.p = h.Port(width=w, desc="declared again")
                elif what == "q":
                    m.q = h.Inout(desc="declared again")
                else:
                    m.add(h.Signal(width=w, desc="declared again"), name=names.get("net", "n"))

        def level(d):
            counter[0] += 1
            m = h.Module(name=f"L{d}_{counter[0]}")
            w = 2 if buses else 1
            m.p = h.Port(width=w)
            m.q = h.Port()
            m.add(h.Signal(width=w), name=names.get("net", "n"))
            m.add(h.Signal(), name="k")
            net = m.get(names.get("net", "n"))
            if d == 0:
                if use_ext:
                    m.add(ext(w)()(a=m.p, z=m.k), name="e1")
                    m.add(ext(w)()(a=net, z=m.q), name="e2")
                    if w == 1:
                        m.add(h.R(r=1)(p=net, n=m.k), name="r")
                else:
                    if w == 1:
                        m.add(h.R(r=1)(p=m.p, n=m.k), name="r1")
                        m.add(h.R(r=2)(p=m.k, n=net), name="r2")
                        m.add(h.C(c=1)(p=net, n=m.q), name="c")
                    else:
                        m.add(ext(w)()(a=m.p, z=m.k), name="e1")
                        m.add(h.R(r=2)(p=m.k, n=m.q), name="r2")
                redeclare(m, d)
                return m
            child = level(d - 1)
            m.add(child(p=m.p, q=m.k), name=names.get("inst1", "u1"))
            m.add(child(p=net, q=m.q), name=names.get("inst2", "u2"))
            if w == 1:
                m.add(h.R(r=3)(p=net, n=m.k), name="rr")
            redeclare(m, d)
            if "dangling" in names and d == depth:
                # a top-level port / signal that nothing connects to, named like the flattened internal net of a child
                m.add(h.Port() if names.get("dangling-port") else h.Signal(), name=names["dangling"])
            if "unnamed" in names and d == depth:
                # instances called "" and "_" side by side (the empty name used to be written "_" in flattened paths)
                m.add(child(p=m.p, q=m.k), name="")
                m.add(child(p=net, q=m.q), name="_")
            if "leaf" in names and d == depth:
                # a top-level leaf device named like the ':'-joined path of a device further down
                m.add(h.R(r=4)(p=m.q, n=m.k) if w == 1 else ext(w)()(a=m.p, z=m.q), name=names["leaf"])
            return m
        top = level(depth)
        return top
    specs = []
    for depth in (1, 2, 3):
        for use_ext in (False, True):
            for buses in (False, True):
                specs.append((depth, use_ext, buses, {}))
    # colliding names: a top-level signal named like a flattened internal net, an instance named like a path
    specs.append((2, False, False, {"net": "u1:n"}))
    specs.append((2, False, False, {"net": "u1:k"}))
    specs.append((2, True, False, {"inst1": "u2:u1"}))
    specs.append((2, False, False, {"inst2": "u1:u1", "net": "u1:u1:n"}))
    specs.append((2, False, False, {"leaf": "u1:rr"}))
    specs.append((1, False, False, {"leaf": "u1:r1"}))
    specs.append((2, True, False, {"leaf": "u2:e1"}))
    specs.append((1, False, False, {"dangling": "u1:k", "dangling-port": True}))
    specs.append((2, False, False, {"dangling": "u1:u1:n", "dangling-port": True}))
    specs.append((1, False, False, {"dangling": "u2:n"}))
    specs.append((1, False, False, {"unnamed": True}))
    for at in ((0,), (1,), (0, 1), (2,)):
        for what in (("p",), ("q",), ("n",), ("p", "q", "n")):
            for buses in (False, True):
                specs.append((2, buses, buses, {"redeclare-at": at, "redeclare": what}))
    # path names of several hundred characters (deep hierarchy, long instance names): one net, one name
    specs.append((3, False, False, {"inst1": "a" * 200, "inst2": "b" * 200}))
    specs.append((3, True, True, {"inst1": "a" * 300, "inst2": "a" * 299 + "b"}))
    specs.append((2, False, False, {"inst1": "u" * 600, "net": "n" * 300}))
    # a sub-module WITHOUT ports (its port map is empty), whose internal net names recur in the parent and in its twin
    def portless(depth):
        def b():
            Cell = h.Module(name="Portless")
            Cell.n, Cell.k = h.Signal(), h.Signal()
            Cell.r1 = h.R(r=1)(p=Cell.n, n=Cell.k)
            Cell.c1 = h.C(c=1)(p=Cell.k, n=Cell.n)
            Mid = h.Module(name="PortlessMid")
            Mid.n, Mid.k = h.Signal(), h.Signal()
            Mid.a = Cell()
            Mid.b = Cell()
            Mid.r = h.R(r=2)(p=Mid.n, n=Mid.k)
            if depth == 1:
                return Mid
            Top = h.Module(name="PortlessTop")
            Top.n = h.Signal()
            Top.q = h.Port()
            Top.m1 = Mid()
            Top.m2 = Mid()
            Top.r = h.R(r=3)(p=Top.n, n=Top.q)
            return Top
        return b
    for d in (1, 2):
        yield (f"flat/portless/d{d}", portless(d))
    # histories: flatness asked of a module (and of its parts) while it is still being built, and flattening twice
    def probed(depth):
        from hdl21.flatten import is_flat, flatten as _fl
        child = build((depth - 1, False, False, {}))
        top = h.Module(name=f"Probed{depth}")
        top.p, top.q = h.Port(), h.Port()
        top.k = h.Signal()
        top.add(h.R(r=5)(p=top.p, n=top.k), name="r0")
        assert is_flat(top) and (depth == 1) == is_flat(child)     # true at this moment: only a primitive so far
        top.add(child(p=top.k, q=top.q), name="u1")
        is_flat(top)
        return top
    for d in (1, 2):
        yield (f"flat/history/is_flat-asked-while-growing/d{d}", lambda d=d: probed(d))

    # modules WITHOUT instances (pads, feed-throughs, placeholders) instantiated next to devices: they are hierarchy, not leaves
    def with_empty(where, only_empty):
        def b():
            Pad = h.Module(name="EmptyPad")
            Pad.p = h.Port()
            Feed = h.Module(name="EmptyFeed")
            Feed.a, Feed.b = h.Port(), h.Port()
            Feed.w = h.Signal()
            cell = h.Module(name="EmptyCell")
            cell.x, cell.y = h.Port(), h.Port()
            cell.pad = Pad(p=cell.x)
            cell.ft = Feed(a=cell.x, b=cell.y)
            if not only_empty:
                cell.r = h.R(r=1)(p=cell.x, n=cell.y)
            if where == "top":
                return cell
            top = h.Module(name="EmptyTop")
            top.x, top.y = h.Port(), h.Port()
            top.k = h.Signal()
            top.c1 = cell(x=top.x, y=top.k)
            top.c2 = cell(x=top.k, y=top.y)
            top.pad = Pad(p=top.k)
            if not only_empty:
                top.r = h.R(r=2)(p=top.x, n=top.y)
            return top
        return b
    for where in ("top", "below"):
        for only_empty in (False, True):
            yield (f"flat/instance-less-modules/{where}/{'only' if only_empty else 'with-devices'}", with_empty(where, only_empty))

    def twice():
        from hdl21.flatten import flatten as _fl
        return _fl(build((2, False, False, {})))
    yield ("flat/history/flatten-of-a-flattened-module", twice)
    for s in specs:
        yield (f"flat/d{s[0]}/{'ext' if s[1] else 'prim'}/{'bus' if s[2] else 'scalar'}/{sorted(s[3].items())}",
               lambda s=s: build(s))


def shared_module_designs():
    """one module instantiated several times in the hierarchy with DIFFERENT port maps: an instance that ties two (or all) of
    its ports to one net next to instances that separate them, in every order; one and two levels deep; with internal nets"""
    import hdl21 as h
    import itertools as it

    def mk(order, depth):
        def b():
            cell = h.Module(name="ShCell")
            cell.p, cell.q, cell.w = h.Port(), h.Port(), h.Port()
            cell.k = h.Signal()
            cell.r1 = h.R(r=1)(p=cell.p, n=cell.k)
            cell.r2 = h.R(r=2)(p=cell.k, n=cell.q)
            cell.c = h.C(c=1)(p=cell.w, n=cell.q)
            mid = cell
            if depth == 2:
                mid = h.Module(name="ShMid")
                mid.p, mid.q, mid.w = h.Port(), h.Port(), h.Port()
                mid.i1 = cell(p=mid.p, q=mid.q, w=mid.w)
                mid.i2 = cell(p=mid.q, q=mid.q, w=mid.p)
            top = h.Module(name="ShTop")
            top.vdd, top.vb, top.o, top.g = h.Port(), h.Port(), h.Port(), h.Signal()
            maps = {"tied": dict(p=top.vdd, q=top.o, w=top.vdd), "split": dict(p=top.vdd, q=top.o, w=top.vb),
                    "all-one": dict(p=top.g, q=top.g, w=top.g), "crossed": dict(p=top.o, q=top.vdd, w=top.vb)}
            for k, name in enumerate(order):
                top.add(mid(**maps[name]), name=f"u{k}")
            return top
        return b
    for depth in (1, 2):
        for order in it.permutations(("tied", "split", "all-one", "crossed"), 3):
            yield (f"shared-module/d{depth}/{'-'.join(order)}", mk(order, depth))


def attribute_named_pin_designs():
    """external-module leaves whose pins are called like attributes of the Instance object (`name`, `of`, `conns`, `n`),
    one and two levels down"""
    import hdl21 as h

    def mk(depth):
        def b():
            E = h.ExternalModule(name="PinNames", port_list=[h.Inout(name=n_) for n_ in ("name", "of", "a", "desc")],
                                 desc="", domain="fx")
            cur = h.Module(name="PnLeafHolder")
            cur.x, cur.y = h.Port(), h.Port()
            cur.k = h.Signal()
            i = E()()
            for pin, sig in (("name", cur.x), ("of", cur.y), ("a", cur.k), ("desc", cur.k)):
                i.connect(pin, sig)
            cur.add(i, name="e")
            cur.r = h.R(r=1)(p=cur.k, n=cur.y)
            for k in range(depth):
                up = h.Module(name=f"PnUp{k}")
                up.x, up.y = h.Port(), h.Port()
                up.u = cur(x=up.x, y=up.y)
                up.u2 = cur(x=up.y, y=up.x)
                cur = up
            return cur
        return b
    for depth in (1, 2):
        yield (f"attribute-named-pins/d{depth}", mk(depth))


def sibling_name_designs():
    """hierarchical siblings of DIFFERENT modules where one sibling's internal net (or port) is called like another
    sibling's port, in both orders; nets stay apart unless the design joins them"""
    import hdl21 as h
    import itertools as it

    def mk(order):
        def b():
            A = h.Module(name="SbA")
            A.bias, A.o = h.Port(), h.Port()
            A.r = h.R(r=1)(p=A.bias, n=A.o)
            B = h.Module(name="SbB")
            B.i, B.o = h.Port(), h.Port()
            B.bias = h.Signal()                     # an INTERNAL net called like A's port
            B.r1 = h.R(r=2)(p=B.i, n=B.bias)
            B.r2 = h.R(r=3)(p=B.bias, n=B.o)
            C = h.Module(name="SbC")
            C.o, C.x = h.Port(), h.Port()
            C.i = h.Signal()                        # called like B's port
            C.r1 = h.R(r=4)(p=C.o, n=C.i)
            C.r2 = h.R(r=5)(p=C.i, n=C.x)
            top = h.Module(name="SbTop")
            top.vb, top.inp, top.mid, top.out = h.Port(), h.Port(), h.Signal(), h.Port()
            insts = {"a": lambda: A(bias=top.vb, o=top.mid), "b": lambda: B(i=top.inp, o=top.mid), "c": lambda: C(o=top.out, x=top.mid)}
            for k in order:
                top.add(insts[k](), name=f"u_{k}")
            return top
        return b
    for order in it.permutations("abc"):
        yield (f"sibling-names/{''.join(order)}", mk(order))


def portless_leaf_designs():
    """leaf devices WITHOUT terminals (fill / marker cells: an external module with an empty port list) at the top, one and
    two levels down, next to ordinary devices and alone in a cell of their own: "one instance per leaf device" counts them"""
    import hdl21 as h

    def mk(where, n):
        def b():
            Fill = h.ExternalModule(name="Fill0", port_list=[], desc="", domain="fill")
            cell = h.Module(name="PlCell")
            cell.a, cell.z = h.Port(), h.Port()
            cell.r = h.R(r=1)(p=cell.a, n=cell.z)
            only = h.Module(name="PlOnly")          # a cell holding nothing but fill
            for k in range(n):
                only.add(Fill()(), name=f"f{k}")
            if "cell" in where:
                for k in range(n):
                    cell.add(Fill()(), name=f"fill{k}")
            if "deep" in where:
                cell.o = only()
            mid = h.Module(name="PlMid")
            mid.a, mid.z, mid.m = h.Port(), h.Port(), h.Signal()
            mid.c0 = cell(a=mid.a, z=mid.m)
            mid.c1 = cell(a=mid.m, z=mid.z)
            if "mid" in where:
                mid.fill = Fill()()
            top = h.Module(name="PlTop")
            top.a, top.z = h.Port(), h.Port()
            top.u = mid(a=top.a, z=top.z)
            if "top" in where:
                top.fill = Fill()()
            if "own" in where:
                top.o = only()
            return top
        return b
    for where in ("cell", "mid", "top", "own", "deep", "cell+mid+top", "cell+own+deep", "top+own"):
        for n in (1, 2):
            yield (f"flat/portless/{where}/n{n}", mk(where, n))


def flat_top_designs():
    """single-level tops (only leaf devices below them) that have NOT been elaborated and use what elaboration resolves:
    arrays, port references, no-connects, bundles, instance pairs; the `invalid/` ones must be refused"""
    import hdl21 as h

    def mk(kind):
        def b():
            E2 = h.ExternalModule(name="FT2", port_list=[h.Inout(name="a", width=2), h.Inout(name="z")], desc="", domain="ft")
            m = h.Module(name="FlatTop")
            m.p, m.q = h.Port(), h.Port()
            m.w = h.Signal(width=2)
            m.r1 = h.R(r=1)(p=m.p)
            if kind == "array":
                m.r1.n = m.q
                m.arr = 2 * h.R(r=2)(p=m.w, n=m.q)
                m.e = E2()(a=m.w, z=m.p)
            elif kind == "port-ref":
                m.r2 = h.R(r=2)(p=m.r1.n, n=m.q)
                m.e = E2()(a=m.w, z=m.r2.p)
            elif kind == "noconn":
                m.r1.n = m.q
                m.c = h.C(c=1)(p=m.q, n=h.NoConn())
                m.e = E2()(a=m.w, z=h.NoConn())
            elif kind == "bundle":
                B = h.Bundle(name="FTB")
                B.add(h.Signal(name="x"))
                B.add(h.Signal(name="y", width=2))
                m.bb = B()
                m.r1.n = m.bb.x
                m.e = E2()(a=m.bb.y, z=m.bb.x)
            elif kind == "pair":
                m.r1.n = m.q
                m.pr = h.Pair(h.R(r=5))(p=h.AnonymousBundle(p=m.p, n=m.q), n=h.AnonymousBundle(p=m.q, n=m.p))
            elif kind == "invalid/missing-connection":
                m.e = E2()(a=m.w)
            elif kind == "invalid/width":
                m.r1.n = m.q
                m.e = E2()(a=m.q, z=m.p)
            elif kind == "invalid/array-width":
                m.r1.n = m.q
                m.w3 = h.Signal(width=3)
                m.arr = 2 * h.R(r=2)(p=m.w3, n=m.q)
            return m
        return b
    for kind in ("array", "port-ref", "noconn", "bundle", "pair", "invalid/missing-connection", "invalid/width", "invalid/array-width"):
        yield (f"flat-top/{kind}", mk(kind))


def check_flatten(case):
    import hdl21 as h
    from rtc.meaning import package_meaning, compare, Meaning
    desc, build = case
    w = {"design": desc}
    top = build()
    try:
        pkg0 = h.to_proto(top)
    except Exception:
        if desc.startswith("flat-top/invalid/"):
            # a design elaboration refuses is "a design it cannot flatten": rejected, never handed back
            try:
                from hdl21.flatten import flatten as _flatten
                res = _flatten(build())
            except Exception:
                return None
            return ("flatten.accepts-invalid", f"{desc}: flatten() returned {res} for a design that elaboration refuses", w)
        return None
    from rtc.meaning import InvalidPackage
    try:
        m0 = package_meaning(pkg0, top.name)
    except InvalidPackage:
        return None          # (the hierarchical export itself is broken: C06's business, nothing to compare with)
    try:
        from hdl21.flatten import flatten as _flatten
        flat = _flatten(build())
    except (NotImplementedError, RuntimeError, ValueError, TypeError) as e:
        # rejected with one of the documented exception kinds: acceptable only if the design really has something
        # flatten cannot express (slices, concats); plain scalar/bus hierarchies must flatten
        if desc.startswith("flat/") and "[(" not in desc:
            return ("flatten.rejects-plain-hierarchy", f"{desc}: {type(e).__name__}: {str(e)[:140]}", w)
        return None
    except Exception as e:
        return (f"flatten.raises.{type(e).__name__}", f"{desc}: {type(e).__name__}: {str(e)[:160]}", w)
    for i in flat.instances.values():
        if not isinstance(i.of, (h.PrimitiveCall, h.ExternalModuleCall)):
            return ("post.not-flat", f"{desc}: instance {i.name} of the result is not a leaf", w)
    # the RESULT AS RETURNED (before anything else elaborates it): leaf instances only - no arrays, instance bundles or
    # bundles left to expand - one per leaf device, each terminal on a net of the module (a signal, or bits of signals)
    leftovers = [k for k in ("instarrays", "instbundles", "bundles") if getattr(flat, k, None)]
    if leftovers:
        return ("post.not-flat", f"{desc}: the result still holds {leftovers}", w)
    if len(flat.instances) != len(m0.devices):
        return ("post.device-count", f"{desc}: {len(m0.devices)} leaf devices, the result has {len(flat.instances)} instances", w)
    for i in flat.instances.values():
        for pn, c in i.conns.items():
            if not isinstance(c, (h.Signal, h.Slice, h.Concat)):
                return ("post.not-flat", f"{desc}: {i.name}.{pn} of the result is on {type(c).__name__}, not on a net", w)
    try:
        pkg1 = h.to_proto(flat)
    except Exception as e:
        return ("post.unexportable", f"{desc}: flattened module cannot be exported: {type(e).__name__}: {str(e)[:140]}", w)
    try:
        m1 = package_meaning(pkg1, flat.name)
    except InvalidPackage as e:
        return ("post.unexportable", f"{desc}: the flattened module's package is not a circuit: {str(e)[:160]}", w)
    # map the original hierarchical paths onto flatten's ':'-joined names
    def joined(path):
        return (":".join(str(s) if isinstance(s, str) else f"{s[1]}_{s[2]}" for s in path),)
    devs0 = sorted((joined(p), ident, tuple(sorted((k, str(v)) for k, v in prm.items()))) for p, ident, prm in m0.devices)
    devs1 = sorted((tuple(p), ident, tuple(sorted((k, str(v)) for k, v in prm.items()))) for p, ident, prm in m1.devices)
    if len(devs0) != len(devs1):
        return ("post.device-count", f"{desc}: {len(devs0)} leaf devices, flattened module has {len(devs1)}", w)
    if devs0 != devs1:
        return ("post.devices", f"{desc}: leaf devices differ: {devs0[:2]} vs {devs1[:2]}", w)
    def norm(nets, f):
        out = set()
        for net in nets:
            out.add(frozenset((t[0], f(t[1]) if t[0] == "dev" else t[1], t[2], t[3]) if t[0] == "dev" else t for t in net))
        return out
    n0 = norm(m0.nets, joined)
    n1 = norm(m1.nets, lambda p: tuple(p))
    if n0 != n1:
        a = sorted(map(sorted, n0 - n1))[:1]
        b = sorted(map(sorted, n1 - n0))[:1]
        return ("post.nets", f"{desc}: nets differ: original {a} vs flattened {b}", w)
    if [(p[0], p[1], p[2]) for p in m0.ports] != [(p[0], p[1], p[2]) for p in m1.ports]:
        return ("post.ports", f"{desc}: ports differ: {m0.ports} vs {m1.ports}", w)
    return None


def flatten_assembly_audit():
    """Syntactic obligations on flatten()'s assembly ("one instance per leaf device" rests on them; walk() yields one node
    per leaf, contracts in c_flatten): (1) `nodes` is bound once, to the whole of walk(m, ...) - `list(walk(..))`, no
    filter, no slice; (2) the loop that adds instances runs over `nodes` itself; (3) its `add` is unconditional and is
    the loop's own statement (not under an `if` / `try` / `continue` before it).  -> offenders (empty = holds)"""
    import ast
    from pyvc import loader
    ext = loader.extract("hdl21.flatten:flatten")
    fn = ext.node if hasattr(ext, "node") else ast.parse(ext.source).body[0]
    off = []
    binds = [n for n in ast.walk(fn) if isinstance(n, (ast.Assign, ast.AnnAssign, ast.AugAssign)) and
             any(isinstance(t, ast.Name) and t.id == "nodes" for t in (n.targets if isinstance(n, ast.Assign) else [n.target]))]
    whole = lambda v: isinstance(v, ast.Call) and isinstance(v.func, ast.Name) and v.func.id == "list" and len(v.args) == 1 \
        and isinstance(v.args[0], ast.Call) and isinstance(v.args[0].func, ast.Name) and v.args[0].func.id == "walk"
    if len(binds) != 1 or not whole(binds[0].value):
        off.append(("nodes-is-all-of-walk", getattr(binds[0], "lineno", 0) if binds else 0))
    loops = [n for n in ast.walk(fn) if isinstance(n, ast.For) and any(
        isinstance(c, ast.Call) and isinstance(c.func, ast.Attribute) and c.func.attr == "add" and
        any(k.arg == "name" for k in c.keywords) for c in ast.walk(n))]
    if len(loops) != 1 or not (isinstance(loops[0].iter, ast.Name) and loops[0].iter.id == "nodes"):
        off.append(("instance-loop-over-nodes", getattr(loops[0], "lineno", 0) if loops else 0))
    else:
        first = loops[0].body[0]
        adds = isinstance(first, (ast.Assign, ast.Expr)) and any(
            isinstance(c, ast.Call) and isinstance(c.func, ast.Attribute) and c.func.attr == "add" for c in ast.walk(first))
        if not adds or any(isinstance(n, (ast.Continue, ast.Break)) for n in ast.walk(loops[0])):
            off.append(("unconditional-add", first.lineno))
    return off


def run(ctx):
    from contracts import c_flatten as cf
    ctx.verify(cf.engine(), cf.VERIFY)
    # flattened names: separator guards of walk(), make_name, and injectivity of the ':'-join over them
    for fn, minimum in ((cf.walk_guard_obligations, 4), (lambda: cf.make_name_obligations(5 if ctx.tier == "thorough" else 3), 3)):
        key, obs, info = fn()
        for u in info.get("unsupported", []):
            ctx.unsupported.append((key, u))
        if len(obs) < minimum and not info.get("unsupported"):
            ctx.checker_errors.append(f"only {len(obs)} obligations for {key}")
        ctx.discharge(obs, key + (" [separator guards]" if "walk" in key else " [paths of 1-3 instances]"), info)
    for name, asm, goal in cf.join_injective_lemmas():
        ctx.lemma(name + " (over walk's separator guards and make_name's contract)", asm, goal, timeout_ms=30000)
    ctx.assumptions.append("flattened-name injectivity is proved for paths of up to 3 instances (arity unrolled); walk() "
                           "itself (a recursive generator) and flatten()'s assembly loops are decided by the bounded part")
    ctx.frame_audit("hdl21.flatten:flatten/assembly", flatten_assembly_audit(),
                    "flatten() no longer turns every node walk() yields into one instance of the result", n=3)
    fam = [d for k, d in enumerate(design_family(ctx.tier, ctx.seed)) if ctx.tier == "thorough" or k % 3 == 0]
    cases = itertools.chain(hier_designs(ctx.tier, ctx.seed), flat_top_designs(), portless_leaf_designs(), shared_module_designs(), attribute_named_pin_designs(), sibling_name_designs(), fam)
    ctx.run_bounded("flatten-vs-original", cases, check_flatten,
                    rule="generated scalar/bus hierarchies (depth 1-3, primitive and external-module leaves, internal "
                         "nets at every level, ports passed through levels, names colliding with ':'-joined paths) plus "
                         "every third design of the shared family; leaf devices (with parameters), leaf-net partition "
                         "and ports of flatten(m) compared with m; a documented rejection is accepted only for designs "
                         "with slices/concats; single-level tops not elaborated before the call that use arrays, port references, "
                         "no-connects, bundles and pairs (the result as returned holds leaf instances on nets only), and "
                         "three that elaboration refuses (flatten must refuse them too); one module instantiated three times with different port "
                         "maps (two ports tied / separate / all on one net / crossed) in every order, one and two levels deep (48); leaf devices without terminals (fill cells) at every level and in cells of their own (16); distinct = distinct design; non-trivial = depth >= 2 or bus",
                    bound="depth<=3", key_of=lambda c: c[0], nontrivial=lambda c: "/d1/" not in c[0])
    return INFO


def replay(payload):
    want = (payload.get("input") or {}).get("design")
    for desc, b in itertools.chain(hier_designs("quick", 0), flat_top_designs(), shared_module_designs(), attribute_named_pin_designs(), sibling_name_designs(), design_family("thorough", 0)):
        if desc == want:
            r = check_flatten((desc, b))
            print("replay:", r)
            return 1 if r else 0
    return 2
