"""C07 - elaboration results do not depend on elaboration history."""
import io
import itertools
import random
from pyvc import *
from contracts.common import *

INFO = {
    "level": "other",
    "explanation": "hybrid: cache soundness of elaborate_module_base (a module done by a pass is returned untouched; "
                   "done only grows), the post-elaboration freeze (_add raises on an elaborated module) and "
                   "MarkModules proved by pyvc; call histories (which sub-modules were elaborated / exported / "
                   "netlisted before, alone or in lists, in which order; repeated calls; new parents over elaborated "
                   "children) evaluated at run time against the history-free result (bounded)",
    "trusted_base": ["fresh object graphs built by the same program are equivalent designs", "pyvc", "z3"],
}


def dag_designs():
    """(description, builder) of design DAGs with shared children, bundle-valued ports and port references."""
    import hdl21 as h

    def mk(variant):
        def b():
            @h.bundle
            class Bn:
                x = h.Signal()
                y = h.Signal(width=2)
            E = h.ExternalModule(name="HE", port_list=[h.Inout(name="a", width=2), h.Inout(name="z")], desc="", domain="hh")
            Leaf = h.Module(name="HLeaf")
            Leaf.p = h.Port(width=2)
            Leaf.q = h.Port()
            Leaf.e = E()(a=Leaf.p, z=Leaf.q)
            BLeaf = h.Module(name="HBLeaf")
            BLeaf.bp = Bn(port=True)
            BLeaf.o = h.Output()
            BLeaf.e = E()(a=BLeaf.bp.y, z=BLeaf.bp.x)
            BLeaf.e2 = E()(a=BLeaf.bp.y, z=BLeaf.o)
            Mid = h.Module(name="HMid")
            Mid.b = Bn(port=True)
            Mid.w = h.Port()
            Mid.l1 = BLeaf(bp=Mid.b, o=Mid.w)
            Mid.s = h.Signal(width=2)
            Mid.l2 = Leaf(p=Mid.s)
            Mid.l3 = Leaf(p=Mid.s, q=Mid.l2.q)
            Top = h.Module(name="HTop")
            Top.bb = Bn()
            Top.m1 = Mid(b=Top.bb)
            if variant >= 1:
                # shared child; port references to a scalar port and to a bundle-valued port
                Top.m2 = Mid(b=Top.m1.b if variant >= 2 else Top.bb, w=Top.m1.w)
            else:
                Top.t = h.Signal()
                Top.m1.w = Top.t
            if variant >= 2:
                Top.x = BLeaf(bp=Top.m1.b if False else Top.bb)   # child shared between Mid and Top
                Top.k = Leaf(p=Top.bb.y, q=Top.x.o)
            if variant >= 3:
                Top.arr = 2 * Leaf()(p=Top.bb.y, q=h.NoConn())
                Top.y = BLeaf(bp=h.AnonymousBundle(x=Top.bb.x, y=Top.bb.y), o=h.NoConn())
                Top.z = BLeaf(bp=h.NoConn(), o=h.NoConn())
            return Top, [Leaf, BLeaf, Mid]
        return b
    for v in range(4):
        yield (f"dag/v{v}", mk(v))


ACTIONS = ("elaborate", "to_proto", "netlist")


def histories(tier, rnd):
    """a history = sequence of (action, tuple of module indices (into [Leaf, BLeaf, Mid, Top]))"""
    mods = range(4)
    hs = []
    # exhaustive: one or two prior calls on single sub-modules / pairs, every action
    singles = [(a, (m,)) for a in ACTIONS for m in range(3)]
    lists = [(a, ms) for a in ("elaborate", "to_proto") for ms in ((0, 1), (1, 0), (2, 0), (0, 1, 2), (2, 1, 0))]
    for s in singles + lists:
        hs.append((s,))
    for s1 in singles:
        for s2 in singles + lists:
            hs.append((s1, s2))
    hs.append((("to_proto", (3,)),))
    # an unrelated look-alike design exported first / between the calls on the sub-modules
    hs.append((("lookalike", (0,)),))
    for s1 in singles:
        hs.append((("lookalike", (0,)), s1))
        hs.append((s1, ("lookalike", (0,))))
        hs.append((s1, ("lookalike", (0,)), s1))
    hs.append((("elaborate", (3,)), ("elaborate", (3,))))
    hs.append((("netlist", (3,)), ("to_proto", (2,))))
    # a list call that fails on its last member, after the good members went through; then the good ones again
    for how in ("elaborate", "to_proto"):
        for kind in ("array", "unnamed"):
            f = f"failing-list/{how}/{kind}"
            for ms in ((0,), (1,), (2,), (0, 1), (1, 2), (0, 1, 2), (3,)):
                hs.append(((f, ms),))
                for s1 in singles:
                    hs.append(((f, ms), s1))
                hs.append(((f, ms), ("elaborate", ms)))
    n = 1500 if tier == "thorough" else 150
    for _ in range(n):
        L = rnd.randint(2, 4)
        hs.append(tuple((rnd.choice(ACTIONS), tuple(rnd.sample(range(4), rnd.randint(1, 3)))) for _ in range(L)))
    return hs


def lookalike():
    """an UNRELATED design exported in between: modules with the same names and port names as the DAG's, but another
    bundle type behind `bp` / `b`, and designer names equal to the names elaboration invents (so that flatname has to add
    underscores here - which must not be remembered anywhere)"""
    import hdl21 as h

    @h.bundle
    class BnOther:
        y = h.Signal()
        z = h.Signal(width=3)
        x = h.Signal(width=2)
    E = h.ExternalModule(name="HE", port_list=[h.Inout(name="a", width=2), h.Inout(name="z")], desc="", domain="hh2")
    Leaf = h.Module(name="HLeaf")
    Leaf.p = h.Port(width=2)
    Leaf.q = h.Port()
    Leaf.e = E()(a=Leaf.p, z=Leaf.q)
    BLeaf = h.Module(name="HBLeaf")
    BLeaf.bp = BnOther(port=True)
    BLeaf.o = h.Output()
    BLeaf.e = E()(a=BLeaf.bp.x, z=BLeaf.bp.y)
    Mid = h.Module(name="HMid")
    Mid.b = BnOther(port=True)
    Mid.w = h.Port()
    Mid.l1 = BLeaf(bp=Mid.b, o=Mid.w)
    Mid.s = h.Signal(width=2)
    Mid.add(h.Signal(name="l2_q"))              # collides with the implicit signal behind `l2.q`
    Mid.add(h.Signal(name="b_x", width=1))      # collides with a flattened member of `b`
    Mid.l2 = Leaf(p=Mid.s)
    Mid.l3 = Leaf(p=Mid.s, q=Mid.l2.q)
    Top = h.Module(name="HTop")
    Top.bb = BnOther()
    Top.add(h.Signal(name="bb_y"))
    Top.add(h.Signal(name="m1_w"))
    Top.m1 = Mid(b=Top.bb)
    Top.m2 = Mid(b=Top.bb, w=Top.m1.w)
    Top.arr = 2 * Leaf()(p=Top.bb.x, q=h.NoConn())
    try:
        h.to_proto(Top)
    except Exception:
        pass


def bad_module(kind):
    """a module whose elaboration fails late: in the array pass (after bundles were flattened), or for want of a name"""
    import hdl21 as h
    E = h.ExternalModule(name="HBadLeaf", port_list=[h.Inout(name="a")], desc="", domain="hh3")
    m = h.Module(name="HBad") if kind == "array" else h.Module()
    m.s = h.Signal(width=3)
    if kind == "array":
        m.arr = 2 * E()(a=m.s)        # 3 bits over 2 one-bit ports
    else:
        m.i = E()(a=m.s[0])
    return m


def do(action, objs):
    import hdl21 as h
    if action == "lookalike":
        return lookalike()
    if action.startswith("failing-list/"):
        # a list call whose LAST member fails (the good members before it have been through the passes by then)
        _, how, kind = action.split("/")
        try:
            (h.elaborate if how == "elaborate" else h.to_proto)(list(objs) + [bad_module(kind)])
        except Exception:
            return
        raise AssertionError("the bad module was accepted")
    arg = objs[0] if len(objs) == 1 else list(objs)
    if action == "elaborate":
        h.elaborate(arg)
    elif action == "to_proto":
        h.to_proto(arg)
    else:
        for o in objs:
            h.netlist(o, io.StringIO(), fmt="spice")


def check_history(case, refs):
    import hdl21 as h
    desc, build, hist = case
    top, subs = build()
    mods = subs + [top]
    try:
        for action, idxs in hist:
            do(action, [mods[i] for i in idxs])
        pkg = h.to_proto(top)
        got = pkg.SerializeToString(deterministic=True)
        again = h.to_proto(top).SerializeToString(deterministic=True)
    except Exception as e:
        return (f"history.raises.{type(e).__name__}", f"{desc} after {hist!r}: {type(e).__name__}: {str(e)[-140:]}",
                {"design": desc, "history": repr(hist)})
    if got != refs[desc]:
        return ("history.differs", f"{desc}: package after history {hist!r} differs from the history-free package",
                {"design": desc, "history": repr(hist)})
    if again != got:
        return ("history.not-idempotent", f"{desc}: exporting again changed the package after {hist!r}",
                {"design": desc, "history": repr(hist)})
    return None


def check_failing_exports(kind):
    """an export that fails INSIDE the conversion of a module (a parameter value with no package form) fails the same way
    every time, for that module, for its parent and for any other parent of it - whatever was exported before"""
    import hdl21 as h

    def build():
        E = h.ExternalModule(name="FxLeafExt", port_list=[h.Inout(name="a")], paramtype=dict, desc="", domain="fx")
        bad = {"tuple": (1, 2), "set": {1}, "object": object()}[kind]
        Leaf = h.Module(name="FxLeaf")
        Leaf.p = h.Port()
        Leaf.first = E(ok=1)(a=Leaf.p)
        Leaf.second = E(bad=bad)(a=Leaf.p)
        Leaf.third = E(ok=3)(a=Leaf.p)
        tops = []
        for k in (1, 2):
            T = h.Module(name=f"FxTop{k}")
            T.s = h.Signal()
            T.pre = E(ok=k)(a=T.s)
            T.leaf = Leaf(p=T.s)
            T.post = E(ok=k + 10)(a=T.s)
            tops.append(T)
        return Leaf, tops

    def outcome(m):
        try:
            pkg = h.to_proto(m)
        except Exception as e:
            return ("raised", type(e).__name__)
        return ("package", [(pm.name, [i.name for i in pm.instances]) for pm in pkg.modules])
    fresh = {}
    for which in ("leaf", "top1", "top2"):
        Leaf, tops = build()
        fresh[which] = outcome({"leaf": Leaf, "top1": tops[0], "top2": tops[1]}[which])
    import itertools as it
    for order in it.permutations(("leaf", "top1", "top2", "top1", "leaf")):
        Leaf, tops = build()
        objs = {"leaf": Leaf, "top1": tops[0], "top2": tops[1]}
        for step, which in enumerate(order):
            got = outcome(objs[which])
            if got != fresh[which]:
                return ("failing-export.differs", f"{kind}: export of {which} after {order[:step]} gives {got}, without "
                                                  f"history {fresh[which]}", {"design": "failing-export", "history": kind})
    return None


PARENT_KINDS = ("same-type", "equal-type", "extra-signal", "extra-sub-bundle", "missing-signal", "wider-member",
                "anon-exact", "anon-extra", "anon-missing", "scalar-for-bundle", "bundle-for-scalar", "sub-bundle-ref",
                "sub-bundle-ref-of-bigger", "noconn", "port-ref", "missing-port", "wrong-width-scalar")
CHILD_HISTORIES = ("elaborate", "to_proto", "netlist", "below-other-parent", "in-list", "twice")


def check_new_parent(case):
    """a NEW parent (valid or not) over a child with a bundle-valued port: what exporting it gives - a package or an
    exception - is the same whether the child went through elaborate / to_proto / netlist before (alone, in a list, below
    another parent) or never"""
    import hdl21 as h
    kind, hist = case

    def build():
        @h.bundle
        class Sub:
            p = h.Signal()

        @h.bundle
        class Bt:
            x = h.Signal()
            y = h.Signal(width=2)
            s = Sub()
        E = h.ExternalModule(name="NPE", port_list=[h.Inout(name="a", width=2), h.Inout(name="z")], desc="", domain="np")
        Child = h.Module(name="NPChild")
        Child.b = Bt(port=True)
        Child.q = h.Port()
        Child.e = E()(a=Child.b.y, z=Child.b.x)
        Child.e2 = E()(a=Child.b.y, z=Child.b.s.p)
        Child.e3 = E()(a=Child.b.y, z=Child.q)
        Sc = h.Module(name="NPSubChild")
        Sc.s = Sub(port=True)
        Sc.e = E()(a=h.Concat(Sc.s.p, Sc.s.p), z=Sc.s.p)

        def parent():
            P = h.Module(name="NPParent")
            P.t = h.Signal()
            P.w2 = h.Signal(width=2)
            if kind == "same-type":
                P.bb = Bt()
            elif kind == "equal-type":
                B2 = h.Bundle(name="Bt")
                B2.add(h.Signal(name="x"))
                B2.add(h.Signal(name="y", width=2))
                B2.add(Sub(), name="s")
                P.bb = B2()
            elif kind in ("extra-signal", "extra-sub-bundle", "missing-signal", "wider-member", "sub-bundle-ref-of-bigger"):
                B2 = h.Bundle(name="Bigger")
                if kind != "missing-signal":
                    B2.add(h.Signal(name="x"))
                B2.add(h.Signal(name="y", width=3 if kind == "wider-member" else 2))
                if kind == "sub-bundle-ref-of-bigger":
                    S2 = h.Bundle(name="Sub2")
                    S2.add(h.Signal(name="p"))
                    S2.add(h.Signal(name="extra"))
                    B2.add(S2(), name="s")
                else:
                    B2.add(Sub(), name="s")
                if kind == "extra-signal":
                    B2.add(h.Signal(name="extra"))
                if kind == "extra-sub-bundle":
                    B2.add(Sub(), name="s2")
                P.bb = B2()
            if kind in ("anon-exact", "anon-extra", "anon-missing"):
                P.sb = Sub()
                members = dict(x=P.t, y=P.w2, s=P.sb)
                if kind == "anon-extra":
                    members["extra"] = P.t
                if kind == "anon-missing":
                    del members["x"]
                P.c = Child(b=h.AnonymousBundle(**members), q=P.t)
            elif kind == "scalar-for-bundle":
                P.c = Child(b=P.t, q=P.t)
            elif kind == "bundle-for-scalar":
                P.bb = Bt()
                P.c = Child(b=P.bb, q=P.bb)
            elif kind in ("sub-bundle-ref", "sub-bundle-ref-of-bigger"):
                if kind == "sub-bundle-ref":
                    P.bb = Bt()
                if kind == "sub-bundle-ref":
                    P.c = Child(b=P.bb, q=P.t)
                P.sc = Sc(s=P.bb.s)
            elif kind == "noconn":
                P.c = Child(b=h.NoConn(), q=h.NoConn())
            elif kind == "port-ref":
                P.bb = Bt()
                P.c = Child(b=P.bb, q=P.t)
                P.c2 = Child(b=P.c.b, q=P.c.q)
            elif kind == "missing-port":
                P.bb = Bt()
                P.c = Child(b=P.bb)
            elif kind == "wrong-width-scalar":
                P.bb = Bt()
                P.c = Child(b=P.bb, q=P.w2)
            else:
                P.c = Child(b=P.bb, q=P.t)
            return P
        return Child, Sc, parent

    def outcome(P):
        try:
            pkg = h.to_proto(P)
        except Exception as e:
            return ("raised", type(e).__name__)
        return ("package", pkg.SerializeToString(deterministic=True))
    w = {"new_parent": repr(case)}
    try:
        Child, Sc, parent = build()
        fresh = outcome(parent())
        Child, Sc, parent = build()
        for c in (Child, Sc):
            if hist == "elaborate":
                h.elaborate(c)
            elif hist == "to_proto":
                h.to_proto(c)
            elif hist == "netlist":
                h.netlist(c, io.StringIO(), fmt="spice")
            elif hist == "twice":
                h.elaborate(c)
                h.to_proto(c)
        if hist == "in-list":
            h.elaborate([Sc, Child])
        if hist == "below-other-parent":
            O = h.Module(name="NPOther")
            O.c = Child(b=h.NoConn(), q=h.NoConn())
            O.sc = Sc(s=h.NoConn())
            h.to_proto(O)
        got = outcome(parent())
    except Exception as e:
        return (f"new-parent.raises.{type(e).__name__}", f"{case!r}: {type(e).__name__}: {str(e)[-160:]}", w)
    if got != fresh:
        short = lambda o: o if o[0] == "raised" else ("package", f"{len(o[1])} bytes")
        return ("new-parent.differs", f"new parent `{kind}` after the child went through `{hist}` gives {short(got)}, "
                                      f"without history {short(fresh)}", w)
    return None


GEN_HISTORIES = ("elaborate-part", "to_proto-part", "netlist-part", "elaborate-leaf", "to_proto-leaf", "elaborate-list",
                 "failing-list", "export-twice")


def check_generated_parts(hist):
    """a design written in two parts which both call one generator with equal parameters, with something elaborated or
    exported BETWEEN the writing of the two parts: the package of the whole equals the one written in one go"""
    import hdl21 as h
    w = {"generated_parts": hist}

    def build(history):
        @h.paramclass
        class GP:
            w = h.Param(dtype=int, desc="w", default=1)

        @h.bundle
        class GB:
            x = h.Signal()
            y = h.Signal(width=2)

        @h.generator
        def GLeaf(p: GP) -> h.Module:
            m = h.Module()
            m.a = h.Port(width=p.w)
            m.b = GB(port=True)
            m.r = h.R(r=p.w)(p=m.a[0], n=m.b.x)
            return m

        @h.generator
        def GMid(p: GP) -> h.Module:
            m = h.Module()
            m.s = h.Signal(width=p.w)
            m.bb = GB()
            m.l = GLeaf(w=p.w)(a=m.s, b=m.bb)
            return m
        p1 = h.Module(name="GPart1")
        p1.s = h.Signal(width=2)
        p1.bb = GB()
        p1.l = GLeaf(w=2)(a=p1.s, b=p1.bb)
        p1.m = GMid(w=3)()
        if history == "elaborate-part":
            h.elaborate(p1)
        elif history == "to_proto-part":
            h.to_proto(p1)
        elif history == "netlist-part":
            h.netlist(p1, io.StringIO(), fmt="spice")
        elif history == "elaborate-leaf":
            h.elaborate(GLeaf(w=2))
        elif history == "to_proto-leaf":
            h.to_proto(GLeaf(w=3))
        elif history == "elaborate-list":
            h.elaborate([GLeaf(w=2), GMid(w=3)])
        elif history == "failing-list":
            try:
                h.elaborate([GLeaf(w=2), p1, bad_module("array")])
            except Exception:
                pass
        elif history == "export-twice":
            h.to_proto(p1)
            h.to_proto(GMid(w=3))
        p2 = h.Module(name="GPart2")
        p2.s = h.Signal(width=2)
        p2.bb = GB()
        p2.l = GLeaf(w=2)(a=p2.s, b=p2.bb)
        p2.m = GMid(w=3)()
        p2.m2 = GMid(w=2)()
        top = h.Module(name="GWhole")
        top.a = p1()
        top.b = p2()
        return top
    try:
        ref = h.to_proto(build("none")).SerializeToString(deterministic=True)
        got = h.to_proto(build(hist)).SerializeToString(deterministic=True)
    except Exception as e:
        return (f"generated-parts.raises.{type(e).__name__}", f"a design whose first part went through `{hist}` before the second "
                                                              f"was written: {type(e).__name__}: {str(e)[-160:]}", w)
    if got != ref:
        return ("generated-parts.differs", f"the package of a design whose first part went through `{hist}` before the second "
                                           f"was written differs from the one written in one go", w)
    return None


BUILTIN_CASES = [(gen, leaves, hist) for gen in ("Wrapper", "Series1", "Series2", "Series3") for leaves in (1, 2)
                 for hist in ("elaborate", "to_proto", "below-parent", "failed-parent")]


def check_builtin_over_used_unit(case):
    """Wrapper / Series over a unit with a bundle-valued port (of one leaf, of two): the generated module's package is the
    same whether the unit went through elaboration before (alone, below a parent, below a parent that FAILED) or never"""
    import hdl21 as h
    from hdl21.generators import Wrapper, Series
    gen, leaves, hist = case
    w = {"builtin_case": repr(case)}

    def build(history):
        B = h.Bundle(name="BuB")
        B.add(h.Signal(name="en"))
        if leaves == 2:
            B.add(h.Signal(name="d", width=2))
        u = h.Module(name="BuUnit")
        u.i, u.o = h.Port(), h.Port()
        u.ctl = B(port=True)
        u.r = h.R(r=1)(p=u.i, n=u.o)
        u.c = h.C(c=1)(p=u.ctl.en, n=u.o)
        if history == "elaborate":
            h.elaborate(u)
        elif history == "to_proto":
            h.to_proto(u)
        elif history in ("below-parent", "failed-parent"):
            p = h.Module(name="BuParent")
            p.s = h.Signal()
            p.bb = B()
            p.u = u(i=p.s, o=p.s, ctl=p.bb)
            if history == "failed-parent":
                p.w3 = h.Signal(width=3)
                p.arr = 2 * h.R(r=1)(p=p.w3, n=p.s)
                try:
                    h.elaborate(p)
                except Exception:
                    pass
                else:
                    raise AssertionError("the bad parent was accepted")
            else:
                h.to_proto(p)
        if gen == "Wrapper":
            return Wrapper(u)
        return Series(unit=u, conns=("i", "o"), nser=int(gen[-1]))

    def outcome(history):
        try:
            m = build(history)
            return ("package", h.to_proto(m).SerializeToString(deterministic=True))
        except AssertionError:
            raise
        except Exception as e:
            return ("raised", type(e).__name__ + ": " + str(e)[-120:])
    fresh, got = outcome("none"), outcome(hist)
    if fresh[0] != "package":
        return ("builtin.harness", f"{case!r}: without history: {fresh}", w)
    if got != fresh:
        return ("builtin.differs", f"{gen} over a unit that went through `{hist}`: "
                                   f"{got if got[0] == 'raised' else 'another package'}; without history it exports", w)
    return None


def check_refused_edits_and_handouts(kind):
    import hdl21 as h
    w = {"refused_or_handout": kind}
    if kind == "refused-edits":
        # every refused edit of an elaborated module leaves its export as it was (the C18 check of the same name, read
        # here as "exporting again changes nothing")
        from props import c18
        r = c18.check_misc(None)
        if r is not None and r[0].startswith("rejects.elaborated"):
            return ("frozen." + r[0], r[1], w)
        return None
    # a generator that hands out a PRE-EXISTING, hand-written module (which it names after its parameters): the design's
    # package is the same whether that module was elaborated / exported on its own before the generator call or not
    def build(history):
        @h.paramclass
        class HP:
            w = h.Param(dtype=int, desc="w", default=1)
        cell = h.Module(name="Cell")
        cell.a = h.Port()
        cell.r = h.R(r=1)(p=cell.a, n=cell.a)
        if history == "elaborate":
            h.elaborate(cell)
        elif history == "to_proto":
            h.to_proto(cell)
        elif history == "below-parent":
            p = h.Module(name="HoParent")
            p.s = h.Signal()
            p.c = cell(a=p.s)
            h.to_proto(p)

        @h.generator
        def HandsOut(p: HP) -> h.Module:
            return cell
        top = h.Module(name="HoTop")
        top.s = h.Signal()
        top.i = HandsOut(w=3)(a=top.s)
        return top
    try:
        want = h.to_proto(build("none")).SerializeToString(deterministic=True)
        got = h.to_proto(build(kind.split("/")[1])).SerializeToString(deterministic=True)
    except Exception as e:
        return ("handout.raises", f"{kind}: {type(e).__name__}: {str(e)[-140:]}", w)
    if got != want:
        return ("handout.differs", f"{kind}: a generator handing out a module that was used before names / exports it differently", w)
    return None


def check_misc(case, refs):
    try:
        return _check_misc(case, refs)
    except Exception as e:       # every step of this scenario is a valid use of the library
        return (f"late-parent.raises.{type(e).__name__}", f"{case[0]}: {type(e).__name__}: {str(e)[-200:]}",
                {"design": case[0], "history": "misc"})


def _check_misc(case, refs):
    """an elaborated module can still be instantiated by new parents (which see its bundle-level ports) and refuses
    additions; id-keyed caches survive address reuse"""
    import gc
    import hdl21 as h
    desc, build, _ = case
    top, subs = build()
    Leaf, BLeaf, Mid = subs
    # (a list call failing on its last member, and a repeat of the good members, must leave no trace either)
    for how in ("elaborate", "to_proto"):
        do(f"failing-list/{how}/array", [Leaf, BLeaf, Mid])
        h.elaborate([BLeaf, Mid])
    h.elaborate(top)
    # new parent over elaborated children, using their original (bundle-level) interface
    P = h.Module(name="LateParent")
    Bn = None
    for bi in (top.bundles or {}).values():
        Bn = bi.of
    P.s = h.Signal(width=2)
    P.t = h.Signal()
    P.l = Leaf(p=P.s, q=P.t)
    bundle_type = None
    io = getattr(BLeaf, "_pre_flattening_io", None) or {}
    for v in io.values():
        if isinstance(v, h.BundleInstance):
            bundle_type = v.of
    if bundle_type is None:
        return ("late-parent.no-bundle-io", f"{desc}: elaborated child lost its bundle-level interface", {"design": desc, "history": "misc"})
    P.b = bundle_type()
    P.x = BLeaf(bp=P.b, o=P.t)
    P.y = BLeaf(bp=h.AnonymousBundle(x=P.t, y=P.s), o=P.x.o)
    P.m = Mid(b=P.b, w=h.NoConn())
    P.z = BLeaf(bp=h.NoConn(), o=h.NoConn())          # bundle-valued port of an elaborated child left unconnected
    P.m2 = Mid(b=h.NoConn(), w=P.t)
    try:
        pk = h.to_proto(P)
    except Exception as e:
        return (f"late-parent.raises.{type(e).__name__}", f"{desc}: new parent over elaborated children rejected: "
                                                          f"{type(e).__name__}: {str(e)[-160:]}", {"design": desc, "history": "misc"})
    from rtc.wf import wf_package
    pr = wf_package(pk)
    if pr:
        return ("late-parent.ill-formed", f"{desc}: {pr[0][:200]}", {"design": desc, "history": "misc"})
    # the same parent built over fresh (never elaborated) children must export the same package
    top2, subs2 = build()
    L2, B2, M2 = subs2
    Q = h.Module(name="LateParent")
    Q.s = h.Signal(width=2)
    Q.t = h.Signal()
    Q.l = L2(p=Q.s, q=Q.t)
    Q.b = [v for v in B2.bundles.values()][0].of()
    Q.x = B2(bp=Q.b, o=Q.t)
    Q.y = B2(bp=h.AnonymousBundle(x=Q.t, y=Q.s), o=Q.x.o)
    Q.m = M2(b=Q.b, w=h.NoConn())
    Q.z = B2(bp=h.NoConn(), o=h.NoConn())
    Q.m2 = M2(b=h.NoConn(), w=Q.t)
    if h.to_proto(Q).SerializeToString(deterministic=True) != pk.SerializeToString(deterministic=True):
        return ("late-parent.differs", f"{desc}: parent over already-elaborated children exports differently from the "
                                       f"same parent over fresh children", {"design": desc, "history": "misc"})
    for f in (lambda: setattr(Mid, "late", h.Signal()), lambda: Leaf.add(h.Signal(name="late2"))):
        try:
            f()
            return ("freeze", f"{desc}: addition to an elaborated module accepted", {"design": desc, "history": "misc"})
        except RuntimeError:
            pass
    # ... and so do its instances: no connection made, changed or removed - under a port name already connected or a new one
    before = h.to_proto(top).SerializeToString(deterministic=True)
    for m in (top, Mid):
        for iname, inst in list(m.instances.items()):
            some = next(iter(inst.conns), None)
            sig = next(iter(m.signals.values()), None) or next(iter(m.ports.values()))
            edits = [lambda: inst.connect("brand_new_port", sig), lambda: setattr(inst, "another_new_port", sig),
                     lambda: inst(yet_another_port=sig)]
            if some is not None:
                edits += [lambda: inst.connect(some, sig), lambda: inst.replace(some, sig), lambda: inst.disconnect(some)]
            for k, f in enumerate(edits):
                try:
                    f()
                except RuntimeError:
                    continue
                except Exception as e:
                    return ("freeze", f"{desc}: edit {k} of instance {iname} of an elaborated module raised {type(e).__name__}, "
                                      f"not the refusal", {"design": desc, "history": "misc"})
                return ("freeze", f"{desc}: edit {k} of instance {iname} of an elaborated module accepted", {"design": desc, "history": "misc"})
    if h.to_proto(top).SerializeToString(deterministic=True) != before:
        return ("freeze", f"{desc}: refused edits changed the export", {"design": desc, "history": "misc"})
    # address reuse: create, export and drop many designs with anonymous bundles, then export this one again
    for k in range(30):
        t3, _ = build()
        h.to_proto(t3)
        del t3
        gc.collect()
    t4, _ = build()
    if h.to_proto(t4).SerializeToString(deterministic=True) != refs[desc]:
        return ("address-reuse", f"{desc}: export after create/export/delete cycles differs", {"design": desc, "history": "misc"})
    return None


def run(ctx):
    import hdl21 as h
    from contracts import c_elab as ce, c_module as cm, c_checkers as ck
    eng = mk_engine(contracts=ce.CONTRACTS, loops=ce.LOOPS, class_attrs=ce.CLASS_ATTRS, field_classes=ce.FIELD_CLASSES,
                    schema_extra=ce.SCHEMA_EXTRA)
    ctx.verify(eng, [ce.CONTRACTS[0]])
    eng2 = cm.engine()
    ctx.verify(eng2, [cm.CONTRACTS[0]])
    ctx.verify(ck.engine(), [ck.VERIFY[1]])
    from contracts import c_io
    ctx.verify(c_io.engine(), c_io.VERIFY)
    # the per-pass `done` sets only grow (proved for ElabPass above) because nothing outside ElabPass touches them
    bad, escapes = ce.audit_cache_ownership(with_escapes=True)
    for e_ in escapes:
        ctx.unsupported.append(("hdl21.elab:cache-ownership", f"the pass cache is bound to another name or handed to a call at {e_[0]}:{e_[1]}: the ownership audit cannot follow it"))
    ctx.frame_audit("hdl21.elab:cache-ownership", bad, "a class-level pass cache is written outside ElabPass")
    rnd = random.Random(ctx.seed)
    designs = list(dag_designs())
    refs = {}
    for desc, b in designs:
        top, _ = b()
        refs[desc] = h.to_proto(top).SerializeToString(deterministic=True)
    hs = histories(ctx.tier, rnd)
    cases = [(desc, b, hh) for desc, b in designs for hh in hs]
    ctx.run_bounded("call-histories", cases, lambda c: check_history(c, refs),
                    rule="4 design DAGs (shared children, bundle ports, port references, arrays, anonymous bundles) x "
                         "histories of elaborate/to_proto/netlist calls on sub-modules and lists of them before "
                         "exporting the top: exhaustive 1- and 2-call histories plus seeded random ones of 2-4 calls, and an unrelated "
                         "look-alike design (same module / port names, another bundle type, designer names forcing "
                         "underscore suffixes) exported first or in between; "
                         "oracle: the history-free export of a fresh build; then export again (idempotence); distinct = "
                         "(design, history); non-trivial = history touches a sub-module",
                    bound="<=4 modules, <=4 prior calls", key_of=lambda c: (c[0], c[2]),
                    nontrivial=lambda c: any(i != 3 for _, idxs in c[2] for i in idxs))
    ctx.run_bounded("late-parents-freeze-address-reuse", [(d, b, None) for d, b in designs],
                    lambda c: check_misc(c, refs),
                    rule="new parent over elaborated children == same parent over fresh children; additions refused; "
                         "30 create/export/delete cycles before a re-export (id-keyed caches)",
                    bound="4 designs", key_of=lambda c: c[0])
    ctx.run_bounded("failing-exports", ["tuple", "set", "object"], check_failing_exports,
                    rule="a module holding an instance whose parameter value has no package form, its two parents and itself "
                         "exported in every order (with repeats): each export raises as it does without history",
                    bound="3 kinds of value x 120 orders", key_of=repr)
    ctx.run_bounded("generated-parts", list(GEN_HISTORIES), check_generated_parts,
                    rule="a design in two parts that call one generator with equal parameters (directly and through another "
                         "generator; bundle-valued ports), with an elaborate / to_proto / netlist of the first part, of the "
                         "generated module, of a list, or a failing list call in between: package == the one written in one go",
                    bound="8 histories", key_of=repr)
    ctx.run_bounded("refused-edits-and-handed-out-modules", ["refused-edits", "handout/elaborate", "handout/to_proto", "handout/below-parent"],
                    check_refused_edits_and_handouts,
                    rule="nine kinds of refused edit of an elaborated module leave names, views and the exported package as they were; "
                         "a generator handing out a hand-written module that was elaborated / exported / used below a parent before: "
                         "package == the one without history", bound="1 + 3 programs", key_of=repr)
    ctx.run_bounded("built-in-generators-over-used-units", BUILTIN_CASES, check_builtin_over_used_unit,
                    rule="Wrapper / Series (nser 1-3) over a unit with a bundle-valued port of one or two leaves x the unit "
                         "elaborated, exported, used below a parent, or below a parent whose elaboration failed late: package == "
                         "the one without history", bound="4 generators x 2 bundles x 4 histories", key_of=repr)
    ctx.run_bounded("new-parents-over-used-children", [(k, hh) for k in PARENT_KINDS for hh in CHILD_HISTORIES], check_new_parent,
                    rule="17 new parents (valid: same / equal bundle type, anonymous bundle, sub-bundle reference, no-connect, "
                         "port reference; invalid: a bundle type with an extra or missing signal / extra sub-bundle / wider "
                         "member, anonymous bundle with an extra or missing member, scalar for bundle and back, missing port, "
                         "wrong width) over a child with a bundle-valued port x 6 earlier uses of the child: outcome (package "
                         "bytes or exception type) == the outcome without history",
                    bound="17 x 6", key_of=repr)
    ctx.assumptions.append("id-keyed caches (flatten_bundles.THE_CACHE) are not under a proved contract: address reuse "
                           "is only exercised by the bounded create/delete cycles")
    return INFO


def replay(payload):
    import hdl21 as h
    inp = payload.get("input") or {}
    if "refused_or_handout" in inp:
        r = check_refused_edits_and_handouts(inp["refused_or_handout"])
        print("replay:", r)
        return 1 if r else 0
    if "builtin_case" in inp:
        r = check_builtin_over_used_unit(eval(inp["builtin_case"]))
        print("replay:", r)
        return 1 if r else 0
    if "generated_parts" in inp:
        r = check_generated_parts(inp["generated_parts"])
        print("replay:", r)
        return 1 if r else 0
    if "new_parent" in inp:
        r = check_new_parent(eval(inp["new_parent"]))
        print("replay:", r)
        return 1 if r else 0
    if inp.get("design") == "failing-export":
        r = check_failing_exports(inp["history"])
        print("replay:", r)
        return 1 if r else 0
    if "design" in inp:
        for desc, b in dag_designs():
            if desc == inp["design"]:
                top, _ = b()
                refs = {desc: h.to_proto(top).SerializeToString(deterministic=True)}
                if inp.get("history") == "misc":
                    r = check_misc((desc, b, None), refs)
                else:
                    r = check_history((desc, b, eval(inp["history"])), refs)
                print("replay:", r)
                return 1 if r else 0
    print("nothing to replay natively; obligation:", payload.get("obligation"))
    return 2
