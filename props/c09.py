"""C09 - generator calls are memoised and their modules uniquely named."""
import itertools
import random
from decimal import Decimal
from enum import Enum
from typing import Optional

from pyvc import *
from contracts.common import *

INFO = {
    "level": "other",
    "explanation": "hybrid: generator.run proved (a cached call returns the stored module without running the body, "
                   "results are stored, pending/stack restored); injectivity of _unique_name's readable branch proved "
                   "relationally on two symbolic executions of the real function (z3 + cvc5 on strings) for "
                   "string / optional-string shapes; memoisation, naming and export-name uniqueness over param-class "
                   "shapes and values evaluated at run time (bounded)",
    "trusted_base": ["md5 collision-freeness and json.dumps injectivity on the encoded values (hashed branch)",
                     "pyvc string encoding", "z3", "cvc5"],
}


def replay_injectivity(con, ob):
    import z3
    from hdl21.params import _unique_name
    from contracts import c_naming as cn
    shape = ob.scenario
    cls, fields = cn.SHAPES[shape]
    m = ob.model

    def val(f, tag):
        kind = fields[f]
        if kind == "optstr" and z3.is_true(m.eval(z3.Bool(f"{f}{tag}_none"), model_completion=True)):
            return None
        if kind == "int":
            return solve.model_value(m, z3.Int(f"{f}{tag}"))
        return solve.model_value(m, z3.String(f"{f}{tag}"))
    p1 = cls(**{f: val(f, "1") for f in fields})
    p2 = cls(**{f: val(f, "2") for f in fields})
    n1, n2 = _unique_name(p1), _unique_name(p2)
    inp = {"params1": repr(p1), "params2": repr(p2), "name1": n1, "name2": n2}
    if p1 != p2 and n1 == n2:
        return (True, f"different parameter values {p1!r} and {p2!r} share the name {n1!r}", inp)
    return (False, "real code gives different names / equal params for this model", inp)


# ------------------------------------------------------------------------------------------------ bounded family
def shapes():
    import hdl21 as h

    class Color(Enum):
        RED = "red"
        BLUE = "blue"

    @h.paramclass
    class Inner:
        k = h.Param(dtype=int, desc="k", default=1)
        t = h.Param(dtype=str, desc="t", default="tt")

    @h.paramclass
    class Scal:
        a = h.Param(dtype=str, desc="a", default="x")
        b = h.Param(dtype=str, desc="b", default="y")

    @h.paramclass
    class Mixed:
        n = h.Param(dtype=int, desc="n", default=1)
        f = h.Param(dtype=float, desc="f", default=1.0)
        o = h.Param(dtype=Optional[str], desc="o", default=None)

    @h.paramclass
    class Rich:
        c = h.Param(dtype=Color, desc="c", default=Color.RED)
        i = h.Param(dtype=Inner, desc="i", default=Inner())
        p = h.Param(dtype=h.Scalar, desc="p", default=1)
        m = h.Param(dtype=Optional[h.Instantiable], desc="m", default=None)
    from typing import Union as _U, Any as _Any

    @h.paramclass
    class Loose:
        tag = h.Param(dtype=_U[int, str], desc="tag", default=0)
        w = h.Param(dtype=_Any, desc="w", default=1)
    @h.paramclass
    class Fact:
        k = h.Param(dtype=int, desc="k", default=0)
        u = h.Param(dtype=h.Instantiable, desc="u", default_factory=lambda: h.Nmos())
        t = h.Param(dtype=tuple, desc="t", default_factory=lambda: (1, 2))
    long_ = "L" * 70
    leafA = h.Module(name="LeafA")
    leafB = h.Module(name="LeafB")
    vals = {
        Scal: [dict(a="x b=y", b="z"), dict(a="x", b="y b=z"), dict(a="x", b="y"), dict(a="", b="x"), dict(a="x", b=""),
               dict(a="a=b", b="c"), dict(a="a", b="b=c"), dict(a=long_, b="1"), dict(a=long_ + "M", b=""),
               dict(a="None", b="q"), dict(a="x y", b="z"), dict(a="x", b="y z"), dict(a=long_[:62], b=long_[:61]),
               dict(a=long_[:61], b=long_[:62])],
        Mixed: [dict(n=1, f=1.0, o=None), dict(n=1, f=1.0, o="None"), dict(n=1, f=1.5, o="s"), dict(n=2, f=1.0, o=None),
                dict(n=1, f=0.1 + 0.2, o=None), dict(n=1, f=0.3, o=None), dict(n=10, f=1.0, o="a=b c")],
        Loose: [dict(tag=1, w=1), dict(tag="1", w=1), dict(tag=1, w="1"), dict(tag="a", w=None), dict(tag="a", w="None"),
                dict(tag=0, w=1.0), dict(tag=0, w=True)],
        Fact: [dict(), dict(u=h.Pmos()), dict(u=h.Nmos(w=2)), dict(t=(1, 3)), dict(k=1), dict(t=(1, 2), u=h.Nmos())],
        Rich: [dict(), dict(c=Color.BLUE), dict(i=Inner(k=2)), dict(i=Inner(t="ss")), dict(p=1000 * h.prefix.m),
               dict(p=1 * h.prefix.UNIT), dict(p="w/5"), dict(p=2), dict(p="3/2"), dict(p=1.5), dict(p="1/1"),
               dict(p="2/1"), dict(p=h.Literal("2")), dict(m=leafA), dict(m=leafB), dict(m=h.R(r=1)),
               dict(m=h.R(r=2))],
    }
    return vals


SHAPES = ("Scal", "Mixed", "Loose", "Fact", "Rich")


def check_family(only):
    import hdl21 as h
    vals = shapes()
    for P, plist in vals.items():
        if only in SHAPES and P.__name__ != only:
            continue
        calls = {"n": 0}

        def mk(P=P, calls=calls):
            @h.generator
            def Gen(params: P) -> h.Module:
                calls["n"] += 1
                m = h.Module()
                m.a = h.Port()
                m.r = h.R(r=1)(p=m.a, n=m.a)
                return m
            return Gen
        G = mk()

        @h.generator
        def Wrap(params: P) -> h.Module:
            m = h.Module()
            m.s = h.Signal()
            m.i = G(params)(a=m.s)
            return m
        seen = []      # (param object, module)
        w = {"case": P.__name__}
        for kw in plist:
            p = P(**kw)
            before = calls["n"]
            m1 = G(p)
            m2 = G(**kw)           # keyword form
            m3 = G(P(**kw))        # a second, equal instance
            wm = Wrap(p)
            inner = wm.instances["i"].of
            if not (m1 is m2 is m3 is inner):
                return ("memo.identity", f"{P.__name__}{kw}: equal parameters returned different modules", w)
            def vals_of(x):
                return tuple(getattr(x, f) for f in x.__params__)
            prior = [mm for pp, mm in seen if vals_of(pp) == vals_of(p)]
            if prior:
                if prior[0] is not m1 or calls["n"] != before:
                    return ("memo.equal-params", f"{P.__name__}{kw}: equal to an earlier call but rebuilt", w)
            else:
                if calls["n"] != before + 1:
                    return ("memo.body-runs", f"{P.__name__}{kw}: body ran {calls['n'] - before} times", w)
            for pp, mm in seen:
                if vals_of(pp) != vals_of(p) and mm is m1:
                    return ("memo.unequal-shared", f"{P.__name__}: {pp!r} and {p!r} share one module", w)
            seen.append((p, m1))
        # exported names: distinct modules have distinct names, one module one name; a design holding all of them exports
        top = h.Module(name=f"TopOf{P.__name__}")
        top.s = h.Signal()
        mods = []
        for pp, mm in seen:
            if not any(mm is x for x in mods):
                mods.append(mm)
        for k, mm in enumerate(mods):
            top.add(mm(a=top.s), name=f"u{k}")
        names = [mm.name for mm in mods]
        if len(set(names)) != len(names):
            dup = sorted(n for n in set(names) if names.count(n) > 1)
            return ("names.collide", f"{P.__name__}: different generated modules share the name {dup[0]!r}", w)
        try:
            pkg = h.to_proto(top)
        except Exception as e:
            return ("names.export", f"{P.__name__}: design with all generated modules not exportable: {str(e)[:160]}", w)
        exported = [m.name for m in pkg.modules]
        if len(set(exported)) != len(exported):
            return ("names.export-collide", f"{P.__name__}: duplicate exported module names", w)
        # equal parameter values written differently: the name must not depend on which spelling is called first
        import hdl21 as _h
        found = {}
        for i, (p1, m1_) in enumerate(seen):
            for p2, m2_ in seen[i + 1:]:
                if p1 == p2 and repr(p1) != repr(p2):
                    Ga, Gb = mk(), mk()
                    na = Ga(p1).name
                    nb = Gb(p2).name
                    if na != nb:
                        vals = [getattr(p, f) for p in (p1, p2) for f in p.__params__]
                        kind = "prefixed" if any(isinstance(v, _h.Prefixed) for v in vals) else "python-numeric-equality"
                        found.setdefault(kind, (f"names.order-dependent/{kind}",
                                                f"{P.__name__}: equal parameters {p1!r} / {p2!r} name the module {na!r} or "
                                                f"{nb!r} depending on which is called first", w))
        for kind in ("prefixed", "python-numeric-equality"):
            if kind in found:
                return found[kind]
        # names depend on the generator and the values only: a second generator object with the same function name
        G2 = mk()
        for pp, mm in seen[:4]:
            if G2(pp).name != mm.name:
                return ("names.unstable", f"{P.__name__}: same generator name and parameters, different module names "
                                          f"{G2(pp).name!r} vs {mm.name!r}", w)
    return None


def check_handed_on(case):
    """one module, one name: a module handed on by a generator (another one, the same one with normalised parameters, or
    a chain of them) keeps the name it was given and exported under"""
    import hdl21 as h
    w = {"case": case}
    if case == "handed-on":
        from hdl21.generators import MosStack, Series
        inner = Series(unit=h.Nmos(), conns=("d", "s"), nser=3)
        n0 = inner.name
        h.to_proto(inner)
        outer = MosStack(unit=h.Nmos(), nser=3)
        if outer is inner and inner.name != n0:
            return ("names.renamed-after-export", f"module exported as {n0!r} was renamed to {inner.name!r} when another "
                                                  f"generator handed it on", w)
        return None

    @h.paramclass
    class WP:
        width = h.Param(dtype=int, desc="width")

    @h.generator
    def EvenBus(p: WP) -> h.Module:
        if p.width % 2:
            return EvenBus(width=p.width + 1)      # normalisation: the same generator, other parameters
        m = h.Module()
        m.a = h.Port(width=p.width)
        return m

    @h.generator
    def Outer(p: WP) -> h.Module:
        return EvenBus(p)

    @h.generator
    def Outermost(p: WP) -> h.Module:
        return Outer(p)
    if case == "self-handed-on":
        orders = [(4, 3), (3, 4), (5, 6, 5)]
        for order in orders:
            names = {}
            for wd in order:
                m = EvenBus(width=wd)
                target = wd + wd % 2
                if m is not EvenBus(width=target):
                    return ("names.normalised-not-shared", f"EvenBus({wd}) is not the module of EvenBus({target})", w)
                pk = h.to_proto(m)
                exported = [x.name for x in pk.modules]
                prev = names.setdefault(id(m), (m.name, exported))
                if prev != (m.name, exported):
                    return ("names.renamed-after-export", f"module of EvenBus(width={target}) was {prev[0]!r} and is "
                                                          f"{m.name!r} after EvenBus(width={wd}) handed it along", w)
        return None
    if case == "used-before-returned":
        # the body looks at its (already named) result before handing it back: exports it, asks for its qualified name,
        # uses it as a Module-valued parameter - none of which may freeze the name it is exported under later
        from hdl21.qualname import qualname

        @h.paramclass
        class MP:
            m = h.Param(dtype=h.Instantiable, desc="m")

        @h.generator
        def Holder(p: MP) -> h.Module:
            mm = h.Module()
            mm.a = h.Port()
            mm.i = p.m(inp=mm.a, out=mm.a)
            return mm
        for how in ("to_proto", "qualname", "as-param"):
            @h.generator
            def Amp(p: WP) -> h.Module:
                @h.module
                class Amp:
                    inp, out = h.Input(), h.Output()
                    r = h.IdealResistor(r=p.width * h.prefix.K)(p=inp, n=out)
                if how == "to_proto":
                    h.to_proto(Amp)
                elif how == "qualname":
                    qualname(Amp)
                else:
                    Holder(m=Amp)
                return Amp
            a, b = Amp(width=1), Amp(width=2)
            if a is b or a.name == b.name:
                return ("names.collide", f"{how}: Amp(width=1) and Amp(width=2) are named {a.name!r} / {b.name!r}", w)
            top = h.Module(name=f"UsesBoth_{how.replace('-', '_')}")
            top.s = h.Signal()
            top.x = a(inp=top.s, out=top.s)
            top.y = b(inp=top.s, out=top.s)
            try:
                exported = [mm.name for mm in h.to_proto(top).modules]
            except Exception as e:
                return ("names.export", f"{how}: design using both modules not exportable: {str(e)[:140]}", w)
            for mod in (a, b):
                if sum(1 for n in exported if n.endswith(mod.name)) != 1:
                    return ("names.export-collide", f"{how}: module {mod.name!r} is exported as {exported}", w)
        return None
    if case == "chain":
        base = EvenBus(width=8)
        n0 = base.name
        a = Outermost(width=8)
        b = Outer(width=8)
        c = Outermost(width=7)
        if not (a is base and b is base and c is base) or base.name != n0:
            return ("names.renamed-after-export", f"chain of generators: module {n0!r} is now {base.name!r} "
                                                  f"(shared: {a is base}, {b is base}, {c is base})", w)
        return None
    return None


def check_hdl_valued(_):
    """HDL-object-valued parameters that differ only in where they come from: external modules of one name in two
    domains, generators / modules of one name written in two Python modules - all of which one design may hold side by side"""
    import hdl21 as h
    import importlib
    import shutil
    import sys
    import tempfile
    w = {"case": "hdl-valued"}
    d = tempfile.mkdtemp(prefix="c09mods")
    src = ("import hdl21 as h\n@h.generator\ndef Cell(p: h.HasNoParams) -> h.Module:\n    m = h.Module()\n    m.a = h.Port()\n"
           "    {extra}\n    return m\nUnit = h.Module(name='Unit')\nUnit.a = h.Port()\n{extra2}\n"
           "Ext = h.ExternalModule(name='Ext', port_list=[h.Inout(name='a'){extra3}], desc='', domain='dd')\n")
    try:
        for nm, extra, extra2, extra3 in (("c09_mod_a", "pass", "", ""),
                                          ("c09_mod_b", "m.b = h.Port()", "Unit.b = h.Port()", ", h.Inout(name='b')")):
            with open(f"{d}/{nm}.py", "w") as f:
                f.write(src.format(extra=extra, extra2=extra2, extra3=extra3))
        sys.path.insert(0, d)
        ma, mb = importlib.import_module("c09_mod_a"), importlib.import_module("c09_mod_b")
    finally:
        if d in sys.path:
            sys.path.remove(d)
        shutil.rmtree(d, ignore_errors=True)
    try:
        E1 = h.ExternalModule(name="E", port_list=[h.Inout(name="a")], desc="", domain="d1")
        E2 = h.ExternalModule(name="E", port_list=[h.Inout(name="a"), h.Inout(name="b")], desc="", domain="d2")

        @h.paramclass
        class HP:
            u = h.Param(dtype=object, desc="u", default=None)

        @h.generator
        def Over(p: HP) -> h.Module:
            m = h.Module()
            tgt = p.u
            if isinstance(tgt, h.Generator):
                tgt = tgt()
            elif isinstance(tgt, h.ExternalModule):
                tgt = tgt()
            for n in tgt.ports:
                m.add(h.Port(name=n))
            m.i = tgt(**{n: m.get(n) for n in tgt.ports})
            return m
        groups = {"external modules d1.E / d2.E": (E1, E2), "calls of d1.E / d2.E": (E1(), E2()),
                  "generators a.Cell / b.Cell": (ma.Cell, mb.Cell), "modules a.Unit / b.Unit": (ma.Unit, mb.Unit),
                  "external modules a.Ext / b.Ext (one domain: they clash themselves)": None}
        for what, pair in groups.items():
            if pair is None:
                continue
            a, b = Over(u=pair[0]), Over(u=pair[1])
            if a is b:
                return ("memo.unequal-shared", f"{what}: two different parameter values share one generated module", w)
            if a.name == b.name:
                return ("names.collide/hdl-valued", f"{what} as parameter values: two different generated modules are both "
                                                   f"named {a.name!r}", w)
            top = h.Module(name="HdlValuedTop")
            top.s, top.t = h.Signal(), h.Signal()
            top.x = a(**{n: (top.s if n == "a" else top.t) for n in a.ports})
            top.y = b(**{n: (top.s if n == "a" else top.t) for n in b.ports})
            try:
                h.to_proto(top)
            except Exception as e:
                return ("names.export", f"{what}: the design holding both generated modules does not export: {str(e)[:140]}", w)
    finally:
        for nm in ("c09_mod_a", "c09_mod_b"):
            sys.modules.pop(nm, None)
    return None


_CROSS = r'''
import sys, importlib, json
sys.path.insert(0, sys.argv[1])
order = sys.argv[2]
import hdl21 as h
from hdl21.qualname import qualname
from typing import FrozenSet, Any
mods = [importlib.import_module("c09x_" + c) for c in order]
out = {}
for c in sorted(order):
    m = sys.modules["c09x_" + c]
    out["series-called-from-" + c] = qualname(m.STACK)
    out["mosstack-called-from-" + c] = qualname(m.MSTACK)

@h.paramclass
class SP:
    tags = h.Param(dtype=Any, desc="tags", default=None)

@h.generator
def Tagged(p: SP) -> h.Module:
    m = h.Module()
    m.a = h.Port()
    return m
vals = {"strings": frozenset({"alpha", "beta", "gamma", "delta", "epsilon"}),
        "ints": frozenset({3, 1, 2 ** 40, -7}),
        "sets-of-strings": frozenset({frozenset({"a", "b"}), frozenset({"c"}), frozenset({"d", "e", "f"}), frozenset({"g"}), frozenset()}),
        "tuples": frozenset({("x", 1), ("y", 2), ("z", 3), ("w", 4)}),
        "mixed": frozenset({"one", 2, 3.5, ("four", 4)}),
        "nested-in-tuple": (frozenset({"p", "q", "r", "s"}), frozenset({frozenset({"t"}), frozenset({"u", "v"}), frozenset({"w", "x", "y"})}))}
for k, v in vals.items():
    out["set-valued/" + k] = Tagged(tags=v).name
print("NAMES" + json.dumps(out, sort_keys=True))
'''


def check_cross_process_names(_):
    """names that must be the same in every process and for every call order: set-valued parameters (sets of strings,
    of numbers, of sets, of tuples, mixed), and the modules built by the library's own generators when the first call
    comes from one user file or another"""
    import json
    import os
    import shutil
    import subprocess
    import sys
    import tempfile
    from pyvc import loader
    w = {"case": "cross-process-names"}
    d = tempfile.mkdtemp(prefix="c09x")
    try:
        for c in "ab":
            with open(f"{d}/c09x_{c}.py", "w") as f:
                f.write("import hdl21 as h\nfrom hdl21.generators import Series, MosStack\n"
                        "STACK = Series(unit=h.R(r=1), conns=('p', 'n'), nser=2)\nMSTACK = MosStack(nser=3)\n")
        with open(f"{d}/run.py", "w") as f:
            f.write(_CROSS)
        outs = {}
        for seed, order in (("1", "ab"), ("2", "ab"), ("3", "ba"), ("4", "ba")):
            env = dict(os.environ, PYTHONHASHSEED=seed, PYTHONPATH=loader.REPO)
            r = subprocess.run([sys.executable, f"{d}/run.py", d, order], capture_output=True, text=True, env=env, timeout=300)
            line = [l for l in r.stdout.splitlines() if l.startswith("NAMES")]
            if not line:
                return ("names.cross-process.harness", f"worker failed: {r.stderr[-300:]}", w)
            outs[(seed, order)] = json.loads(line[0][5:])
    finally:
        shutil.rmtree(d, ignore_errors=True)
    ref_key = ("1", "ab")
    for key, got in outs.items():
        for name, val in got.items():
            if val != outs[ref_key][name]:
                return ("names.cross-process", f"{name}: {outs[ref_key][name]!r} with PYTHONHASHSEED=1 / import order ab, "
                                               f"{val!r} with PYTHONHASHSEED={key[0]} / import order {key[1]}", w)
    check_cross_process_names.count = sum(len(v) for v in outs.values())
    return None


def check_string_pairs(alphabet):
    """names of a two-string parameter class over every pair of strings made of up to three pieces of `alphabet`: two
    different pairs never share a name (pieces: a letter, the ` b=` separator shape, a white-space / line-break
    character, `None`)"""
    import hdl21 as h
    import itertools as it
    from hdl21.params import _unique_name

    @h.paramclass
    class Two:
        a = h.Param(dtype=str, desc="a", default="x")
        b = h.Param(dtype=str, desc="b", default="y")
    strings = sorted({"".join(t) for n in range(0, 4) for t in it.product(alphabet, repeat=n)})
    seen = {}
    n = 0
    for a in strings:
        for b in strings:
            n += 1
            name = _unique_name(Two(a=a, b=b))
            other = seen.setdefault(name, (a, b))
            if other != (a, b):
                return ("names.collide/strings", f"Two(a={other[0]!r}, b={other[1]!r}) and Two(a={a!r}, b={b!r}) are both "
                                                 f"named {name!r}", {"case": "string-pairs", "alphabet": list(alphabet)})
    check_string_pairs.count = getattr(check_string_pairs, "count", 0) + n
    return None


ALPHABETS = [("1", " b=", "\n"), ("1", "=", " ", "\t"), ("b", " b=2", "\r\n", "None"), ("1", " b=", "\u2028", "\x0b"),
             ("None", " ", "\n", "a=")]


def check_long_session(n_other):
    """memoisation is total: a call repeated after `n_other` other cached calls (of this and of other generators, nested
    ones included) still returns the first module and does not run the body again"""
    import hdl21 as h
    runs = {"n": 0}

    @h.paramclass
    class LP:
        k = h.Param(dtype=int, desc="k", default=0)

    @h.generator
    def First(p: LP) -> h.Module:
        runs["n"] += 1
        m = h.Module()
        m.a = h.Port()
        return m

    @h.generator
    def Other(p: LP) -> h.Module:
        m = h.Module()
        m.a = h.Port()
        return m

    @h.generator
    def Nest(p: LP) -> h.Module:
        m = h.Module()
        m.s = h.Signal()
        m.i = Other(k=-p.k - 1)(a=m.s)
        return m
    w = {"case": "long-session", "n_other": n_other}
    first = First(k=7)
    held = Nest(k=3)
    for k in range(n_other // 2):
        Other(k=k)
        Nest(k=k + 10)
    if First(k=7) is not first or First(LP(k=7)) is not first or runs["n"] != 1:
        return ("memo.forgotten", f"First(k=7) repeated after {n_other} other generator calls is rebuilt "
                                  f"(body ran {runs['n']} times)", w)
    if Nest(k=3) is not held or Nest(k=3).instances["i"].of is not Other(k=-4):
        return ("memo.forgotten", f"a nested call repeated after {n_other} other generator calls is rebuilt", w)
    top = h.Module(name="LongTop")
    top.s = h.Signal()
    top.u0 = first(a=top.s)
    top.u1 = First(k=7)(a=top.s)
    try:
        h.to_proto(top)
    except Exception as e:
        return ("names.export", f"design holding First(k=7) from before and after {n_other} other calls does not "
                                f"export: {str(e)[:160]}", w)
    return None


def check_colliding_hashes(_):
    """unequal parameter values whose Python hashes are EQUAL (hash(-1) == hash(-2); hash(n) == hash(n + 2**61 - 1);
    hash(1.0) == hash(1) across fields; 0.0 / -0.0 aside): unequal calls -> distinct modules, each body run, names differ"""
    import hdl21 as h
    runs = []

    @h.paramclass
    class HP:
        off = h.Param(dtype=int, desc="offset", default=0)
        g = h.Param(dtype=float, desc="gain", default=0.0)

    @h.generator
    def Coll(p: HP) -> h.Module:
        runs.append((p.off, p.g))
        m = h.Module()
        m.a = h.Port()
        m.tag = h.Signal(width=(abs(p.off) % 5) + 1)
        return m
    M = 2 ** 61 - 1
    groups = [[dict(off=-1), dict(off=-2)], [dict(off=0), dict(off=M)], [dict(off=1), dict(off=M + 1)], [dict(off=5), dict(off=5 + M), dict(off=5 + 2 * M)],
              [dict(off=-1, g=2.0), dict(off=-2, g=2.0)], [dict(off=3, g=float(M)), dict(off=3, g=0.0)], [dict(off=-M), dict(off=2 * M)]]
    for grp in groups:
        w = {"case": f"colliding-hashes/{grp}"}
        if len({hash(HP(**kw)) for kw in grp}) != 1 and len({hash(tuple(sorted(kw.items()))) for kw in grp}) != 1:
            continue                    # (this interpreter does not collide them: nothing to learn here)
        mods = []
        for kw in grp:
            n0 = len(runs)
            m = Coll(**kw)
            if len(runs) != n0 + 1 or runs[-1] != (HP(**kw).off, HP(**kw).g):
                return ("memo.unequal-calls-shared", f"Coll({kw}) did not run its body (another call's module was handed out)", w)
            if Coll(HP(**kw)) is not m:
                return ("memo.forgotten", f"Coll({kw}) repeated returns another module", w)
            mods.append(m)
        if len({id(m) for m in mods}) != len(mods):
            return ("memo.unequal-calls-shared", f"unequal calls {grp} share a module", w)
        top = h.Module(name="CollTop")
        for k, m in enumerate(mods):
            top.add(h.Signal(name=f"s{k}"))
            top.add(m(a=top.get(f"s{k}")), name=f"u{k}")
        try:
            pkg = h.to_proto(top)
        except Exception as e:
            return ("names.export", f"design holding {grp} does not export: {str(e)[:140]}", w)
        names = [pm.name for pm in pkg.modules if "Coll(" in pm.name]
        if len(set(names)) != len(mods):
            return ("names.distinct", f"{len(mods)} unequal calls exported under {sorted(set(names))}", w)
    return None


def check_uncached_sweep(n):
    """a sweep over a generator declared without caching, every result dropped at once (so parameter objects and modules
    die and their addresses come back): each module's name is the name of ITS OWN parameters - the one a fresh call with
    those values in a long-lived setting gets - and unequal values never share a name"""
    import gc
    import hdl21 as h

    @h.paramclass
    class UP:
        n = h.Param(dtype=int, desc="n", default=0)

    try:
        @h.generator(enable_cache=False)
        def Fresh(p: UP) -> h.Module:
            m = h.Module()
            m.a = h.Port()
            m.tag = h.Signal(width=p.n + 1)
            return m
    except TypeError:
        return None                     # (this library version has no uncached generators)
    w = {"case": f"uncached-sweep/{n}"}
    names = {}
    for rnd in range(3):
        for k in range(n):
            m = Fresh(n=k) if rnd != 1 else Fresh(UP(n=k))
            if m.tag.width != k + 1:
                return ("memo.unequal-calls-shared", f"Fresh(n={k}) handed out a module built for other parameters", w)
            names.setdefault(k, set()).add(m.name)
            m = None
            gc.collect()
    multi = {k: v for k, v in names.items() if len(v) > 1}
    if multi:
        k = sorted(multi)[0]
        return ("names.one-module-two-names", f"calls with n={k} were named {sorted(multi[k], key=str)} over three sweeps", w)
    flat = [next(iter(v)) for v in names.values()]
    if None not in flat and len(set(flat)) != len(flat):
        return ("names.distinct", f"{len(flat)} unequal uncached calls carry {len(set(flat))} names", w)
    return None


def check_memo_after_failure(kind):
    """memoisation is for good: the module a call returned is returned again after its elaboration (alone / inside a
    parent / inside a generated parent) has failed; the body does not run again"""
    import hdl21 as h
    runs = {"n": 0}

    @h.paramclass
    class FP:
        w = h.Param(dtype=int, desc="w", default=1)

    Buf = h.Module(name="FBuf")
    Buf.i, Buf.o = h.Input(), h.Output()

    @h.generator
    def Chain(p: FP) -> h.Module:
        runs["n"] += 1
        m = h.Module()
        m.i, m.o = h.Input(), h.Output()
        m.mid = h.Signal(width=p.w)            # any width but 1 does not fit Buf's ports
        m.b0 = Buf(i=m.i, o=m.mid)
        m.b1 = Buf(i=m.mid, o=m.o)
        return m

    @h.generator
    def Over(p: FP) -> h.Module:
        m = h.Module()
        m.i, m.o = h.Input(), h.Output()
        m.c = Chain(p)(i=m.i, o=m.o)
        return m
    w = {"case": "memo-after-failure", "kind": kind}
    first = Chain(w=2)
    target = {"alone": lambda: first, "in-parent": lambda: _parent(h, first), "in-generated-parent": lambda: Over(w=2)}[kind]()
    for entry in (h.elaborate, h.to_proto):
        try:
            entry(target)
        except Exception:
            pass
        else:
            return ("memo.harness", "the ill-fitting chain was accepted", w)
        again = Chain(w=2)
        if again is not first or Chain(FP(w=2)) is not first or runs["n"] != 1:
            return ("memo.forgotten-after-failure", f"Chain(w=2) after its elaboration failed ({kind}, {entry.__name__}): a new "
                                                    f"module is made (body ran {runs['n']} times)", w)
        if kind == "in-generated-parent" and Over(w=2) is not target:
            return ("memo.forgotten-after-failure", "the generated parent is made anew after its elaboration failed", w)
    ok = Chain(w=1)
    try:
        h.to_proto(ok)
    except Exception as e:
        return ("memo.sound-sibling", f"Chain(w=1) does not export after Chain(w=2) failed: {str(e)[:120]}", w)
    return None


def check_call_contexts(ctx_kind):
    """equal calls of one CACHED generator from different contexts - module level, inside a cached generator's body,
    inside the body of a generator declared with enable_cache=False (directly and two levels down), after one result was
    elaborated, from a generator's fallback branch - return the identical Module; the body runs once; the design exports"""
    import hdl21 as h
    w = {"case": "call-contexts", "kind": ctx_kind}

    @h.paramclass
    class CP:
        width = h.Param(dtype=int, desc="w", default=1)
    runs = {"n": 0}

    @h.generator
    def CInner(p: CP) -> h.Module:
        runs["n"] += 1
        m = h.Module()
        m.a = h.Port(width=p.width)
        m.r = h.R(r=p.width)(p=m.a[0], n=m.a[0])
        return m

    @h.generator
    def CMid(p: CP) -> h.Module:
        m = h.Module()
        m.s = h.Signal(width=p.width)
        m.i = CInner(width=p.width)(a=m.s)
        return m

    def uncached_body(p: CP) -> h.Module:
        m = h.Module()
        m.s = h.Signal(width=p.width)
        if ctx_kind == "uncached-deep":
            m.i = CMid(width=p.width)()
        else:
            m.i = CInner(width=p.width)(a=m.s)
        return m
    uncached_body.__name__ = "CUncached"
    CUncached = h.generator(uncached_body, enable_cache=False)
    if ctx_kind == "library-result-handed-on":
        # a memoised module of a LIBRARY generator (defined in another Python module), returned as its own result by a user
        # generator: one module, one export name - before and after, alone and inside a design
        from hdl21.generators import Series, Wrapper
        from hdl21.qualname import qualname
        U = h.Module(name="CtxUnit")
        U.i, U.o = h.Port(), h.Port()
        U.r = h.R(r=1)(p=U.i, n=U.o)
        lib = {"series": Series(unit=U, conns=("i", "o"), nser=2), "wrapper": Wrapper(U)}
        before = {k: qualname(v) for k, v in lib.items()}
        pkg0 = [m.name for m in h.to_proto(lib["series"]).modules]

        @h.generator
        def CMine(p: CP) -> h.Module:
            return Series(unit=U, conns=("i", "o"), nser=2) if p.width == 2 else Wrapper(U)
        got = {"series": CMine(width=2), "wrapper": CMine(width=1)}
        for k in lib:
            if got[k] is not lib[k]:
                if k == "wrapper":
                    continue          # (Wrapper is a plain function, not a memoised generator)
                return ("memo.identity", f"{ctx_kind}: the library's generator was run again for equal parameters ({k})", w)
            if qualname(lib[k]) != before[k]:
                return ("names.two-names", f"{ctx_kind}: the module {before[k]} is called {qualname(lib[k])} once a user generator "
                                           f"has returned it", w)
        t2 = h.Module(name="CtxLibTop")
        t2.a, t2.b = h.Signal(), h.Signal()
        t2.x = lib["series"](i=t2.a, o=t2.b)
        t2.y = CMine(width=2)(i=t2.b, o=t2.a)
        names = [m.name for m in h.to_proto(t2).modules]
        if len(set(names)) != len(names) or not set(pkg0) <= set(names):
            return ("names.two-names", f"{ctx_kind}: exported alone the modules were {pkg0}, inside a design {names}", w)
        return None
    first = CInner(width=4)
    top = h.Module(name="CtxTop")
    top.s = h.Signal(width=4)
    top.direct = first(a=top.s)
    if ctx_kind == "cached-parent":
        top.p = CMid(width=4)()
    elif ctx_kind in ("uncached-parent", "uncached-deep"):
        top.p = CUncached(width=4)()      # (one call only: two results of an uncached generator are same-named twins)
    elif ctx_kind == "after-elaboration":
        h.elaborate(first)
        top.p = CMid(width=4)()
    elif ctx_kind == "after-export-of-user":
        h.to_proto(CMid(width=4))
    elif ctx_kind in ("inside-failing-call", "inside-failing-call-deep"):
        # the equal call is made (successfully) from inside a generator whose body raises afterwards: what it returned is
        # THE module for those parameters all the same
        held = []

        @h.generator
        def CFails(p: CP) -> h.Module:
            held.append(CMid(width=4) if ctx_kind.endswith("deep") else CInner(width=4))
            held.append(CInner(width=p.width + 7))
            raise ValueError("the enclosing body fails after its sub-calls returned")
        for _ in range(2):
            try:
                CFails(width=4)
            except ValueError:
                pass
            else:
                return ("memo.failing", f"{ctx_kind}: the failing generator returned", w)
        if not ctx_kind.endswith("deep") and held[0] is not first:
            return ("memo.identity", f"{ctx_kind}: the call made inside the failing body returned another module", w)
        if CInner(width=11) is not held[1]:
            return ("memo.identity", f"{ctx_kind}: a module first generated inside a body that failed later is generated anew by the next equal call", w)
        top.extra = held[1](a=h.Concat(top.s, top.s, top.s[0:3]))
        runs["n"] -= 1          # (width=11 ran once, on purpose)
    again = CInner(width=4)
    top.again = again(a=top.s)
    if again is not first:
        return ("memo.identity", f"{ctx_kind}: an equal call returned another module", w)
    if runs["n"] != 1:
        return ("memo.runs", f"{ctx_kind}: the body of the cached generator ran {runs['n']} times for equal parameters", w)
    try:
        pkg = h.to_proto(top)
    except Exception as e:
        return ("memo.export", f"{ctx_kind}: the design does not export: {type(e).__name__}: {str(e)[:120]}", w)
    names = [m.name for m in pkg.modules]
    if len(set(names)) != len(names) or sum("CInner(width=4)" in n for n in names) != 1:
        return ("names.collide", f"{ctx_kind}: exported module names {names}", w)
    return None


import hdl21 as _h9
from typing import Any as _Any9


@_h9.paramclass
class PickleP:
    tags = _h9.Param(dtype=_Any9, desc="tags", default=None)
    k = _h9.Param(dtype=int, desc="k", default=0)


@_h9.generator
def PickleGen(p: PickleP) -> _h9.Module:
    m = _h9.Module()
    m.a = _h9.Port()
    return m


def check_pickled_params(_):
    """parameters made - and hashed - in ANOTHER process (another string-hash seed), pickled and loaded here: equal to the
    locally made ones, hashing like them, hitting the same cache entry"""
    import os
    import pickle
    import subprocess
    import sys
    import hdl21 as h
    from pyvc import loader
    ROOT = os.path.dirname(os.path.dirname(os.path.abspath(__file__)))
    w = {"case": "pickled-params"}
    script = ("import sys, pickle\n"
              "import props.c09 as c\n"
              "ps = [c.PickleP(tags='alpha'), c.PickleP(tags=('beta', 'gamma')), c.PickleP(tags=None, k=2), c.PickleP(tags='two words')]\n"
              "for p in ps: hash(p)\n"
              "sys.stdout.write('PKL' + pickle.dumps(ps).hex())\n")
    env = dict(os.environ, PYTHONHASHSEED="4711", PYTHONPATH=os.pathsep.join([ROOT, loader.REPO]))
    r = subprocess.run([sys.executable, "-c", script], capture_output=True, text=True, env=env, cwd=ROOT, timeout=600)
    line = [l for l in r.stdout.splitlines() if l.startswith("PKL")]
    if not line:
        return ("pickled.harness", f"worker failed: {r.stderr[-300:]}", w)
    loaded = pickle.loads(bytes.fromhex(line[0][3:]))
    local = [PickleP(tags="alpha"), PickleP(tags=("beta", "gamma")), PickleP(tags=None, k=2), PickleP(tags="two words")]
    for q, p_ in zip(loaded, local):
        m_local = PickleGen(p_)
        if q != p_:
            return ("pickled.equal", f"{q!r} loaded from another process != {p_!r} made here", w)
        if hash(q) != hash(p_):
            return ("pickled.hash", f"{q!r} loaded from another process hashes differently from the equal {p_!r} made here", w)
        if PickleGen(q) is not m_local:
            return ("memo.identity", f"PickleGen({q!r}) with parameters loaded from another process is another module", w)
    return None


def _parent(h, child):
    p = h.Module(name="FParent")
    p.i, p.o = h.Input(), h.Output()
    p.c = child(i=p.i, o=p.o)
    return p


def check_paramclass_fields(_):
    """structural: every field of every paramclass takes part in == and hash (else unequal parameters share a cache
    entry): the library's own paramclasses and freshly declared ones with default / default_factory / required fields"""
    import dataclasses
    import importlib
    import pkgutil
    import hdl21 as h
    from hdl21.params import isparamclass
    classes = []
    for mi in pkgutil.walk_packages(h.__path__, "hdl21."):
        if ".tests" in mi.name or "examples" in mi.name:
            continue
        try:
            mod = importlib.import_module(mi.name)
        except Exception:
            continue
        for v in vars(mod).values():
            if isinstance(v, type) and isparamclass(v) and v not in classes:
                classes.append(v)
    classes += list(shapes().keys())
    if len(classes) < 15:
        raise RuntimeError(f"only {len(classes)} paramclasses found")
    for c in classes:
        for f in dataclasses.fields(c):
            if not f.compare or f.hash is False:
                return ("paramclass.field-not-compared", f"{c.__name__}.{f.name} is left out of ==/hash: calls differing "
                                                         f"only in it share one module", {"case": "paramclass-fields"})
    return None


def run(ctx):
    from contracts import c_generator as cg, c_naming as cn
    eng = mk_engine(contracts=cg.CONTRACTS, class_attrs=cg.CLASS_ATTRS, field_classes=cg.FIELD_CLASSES,
                    schema_extra=cg.SCHEMA_EXTRA)
    ctx.verify(eng, cg.VERIFY, min_obligations={"hdl21.generator:run": 10})
    obs, info = cn.injectivity_obligations()
    for u in info.get("unsupported", []):
        ctx.unsupported.append(("hdl21.params:_unique_name", u))
    if len(obs) < 6 and not info.get("unsupported") and not any(o.meta.get("havoc") for o in obs):
        ctx.checker_errors.append(f"only {len(obs)} injectivity obligations generated")
    ctx.discharge(obs, "hdl21.params:_unique_name", info, replay=replay_injectivity)
    ctx.assumptions += ["hashed branch of _unique_name: md5 is collision free and the JSON encoding is injective on "
                        "the field values (not proved)", "builtin calls on opaque values are assumed not to raise",
                        "int / float parameter fields: str() of different numbers differ (not proved: int-to-string "
                        "reasoning is out of reach of both solvers here; covered by the bounded family)"]
    ctx.run_bounded("param-shapes", list(SHAPES), check_family,
                    rule="4 param-class shapes (two strings; int/float/optional string; Union/Any typed; enum + nested param-class + "
                         "Scalar + Module/primitive valued) x 7-14 values each incl. strings with spaces and '=', "
                         "None vs 'None', names straddling the 128 limit, 0.1+0.2 vs 0.3, equal Prefixed written "
                         "differently; keyword / instance / nested-generator call forms; memo identity, body count, "
                         "distinct names, export of a design holding all of them, name stability, name independent of which "
                         "spelling of equal parameters is called first",
                    bound="33 parameter values", key_of=repr)
    ctx.bounded[-1]["evaluations"] = sum(len(v) for v in shapes().values()) * 4
    ctx.bounded[-1]["distinct_nontrivial"] = sum(len(v) for v in shapes().values())
    ctx.verify(cg.run_engine(), cg.VERIFY_RUN, min_obligations={"hdl21.generator:_run": 20})
    from contracts import c_qualname
    ctx.verify(c_qualname.engine(), c_qualname.VERIFY, min_obligations={c_qualname.KEY: 10})
    ctx.assumptions.append("generator bodies (user code) keep the cache bookkeeping and do not mutate Generator / "
                           "GeneratorCall objects (assumed contract GenBody); _unique_name / hasparams are abstracted "
                           "as functions of their argument in the proof of _run")
    ctx.run_bounded("handed-on-module", ["handed-on", "self-handed-on", "chain", "used-before-returned"], check_handed_on,
                    rule="a generator returning another generator's module, its own module for normalised parameters "
                         "(3 call orders), a chain of three generators; a named result exported / qualified / used as a parameter inside the "
                         "body; names and exported names before/after",
                    bound="4 programs", key_of=repr)
    ctx.run_bounded("hdl-valued-parameters", ["all"], check_hdl_valued,
                    rule="external modules of one name in two domains (and calls of them), generators and modules of one "
                         "name written in two Python modules, as parameter values of one generator: distinct modules, "
                         "distinct names, and the design holding both exports", bound="4 pairs", key_of=repr)
    ctx.run_bounded("cross-process-names", ["all"], check_cross_process_names,
                    rule="4 processes (PYTHONHASHSEED 1-4, two import orders of two user files): the names of modules generated "
                         "for set-valued parameters (strings, numbers, sets of sets, tuples, mixed) and of the modules the "
                         "library's own Series / MosStack build for equal calls coming first from one file or the other",
                    bound="4 processes x 10 names", key_of=repr)
    ctx.bounded[-1]["evaluations"] = getattr(check_cross_process_names, "count", 0)
    ctx.run_bounded("memo-after-failure", ["alone", "in-parent", "in-generated-parent"], check_memo_after_failure,
                    rule="a generated module whose elaboration fails (alone, inside a parent, inside a generated parent; "
                         "elaborate and to_proto): the same call returns the same module afterwards, the body runs once",
                    bound="3 placements x 2 entry points", key_of=repr)
    ctx.run_bounded("call-contexts", ["module-level", "cached-parent", "uncached-parent", "uncached-deep", "after-elaboration",
                                      "after-export-of-user", "inside-failing-call", "inside-failing-call-deep", "library-result-handed-on"], check_call_contexts,
                    rule="equal calls of one cached generator from module level, from a cached generator's body, from the body "
                         "of a generator with enable_cache=False (directly / two levels down), after its result was elaborated "
                         "or a user of it exported, from inside a body that raises afterwards: identical Module, body run once, one exported module",
                    bound="9 contexts", key_of=repr)
    ctx.run_bounded("pickled-parameters", ["all"], check_pickled_params,
                    rule="parameter objects made and hashed in a process with another string-hash seed, pickled, loaded here: equal "
                         "to, hashing like and memoised with the locally made ones", bound="4 parameter sets", key_of=repr)
    ctx.run_bounded("string-pair-names", ALPHABETS if ctx.tier == "thorough" else ALPHABETS[:3], check_string_pairs,
                    rule="every pair of strings built from up to three pieces of a small alphabet (a letter, the ` b=` "
                         "separator shape, `=`, blank, tab, line breaks, `None`): different pairs get different names",
                    bound="3 alphabets (5 thorough) x (1 + k + k^2 + k^3)^2 pairs", key_of=repr)
    ctx.bounded[-1]["evaluations"] = getattr(check_string_pairs, "count", 0)
    ctx.run_bounded("long-session", [3000, 20000] if ctx.tier == "thorough" else [3000], check_long_session,
                    rule="a generator call repeated after N other cached generator calls (plain and nested) returns the "
                         "first module, without running the body again; a design holding both exports",
                    bound="N = 3000 (20000 thorough)", key_of=repr)
    ctx.run_bounded("colliding-hashes", ["all"], check_colliding_hashes,
                    rule="unequal parameter values whose hashes are equal (-1 / -2; n / n + 2**61 - 1; in one and in two fields): "
                         "each call runs its body, modules distinct, export names distinct", bound="7 groups of 2-3 values", key_of=repr)
    ctx.run_bounded("uncached-sweep", [60], check_uncached_sweep,
                    rule="three sweeps over an uncached generator with every result dropped at once (addresses come back): "
                         "one value one name, unequal values unequal names", bound="60 values x 3 sweeps", key_of=repr)
    ctx.run_bounded("paramclass-fields", ["all"], check_paramclass_fields,
                    rule="dataclass fields of every paramclass importable from hdl21 + the family's shapes: compare and "
                         "hash flags", bound="all paramclasses of the library", key_of=repr)
    return INFO


def replay(payload):
    inp = payload.get("input") or (payload.get("replay") or {}).get("input") or {}
    if inp.get("case") in ("handed-on", "self-handed-on", "chain", "used-before-returned"):
        r = check_handed_on(inp["case"])
    elif inp.get("case") == "cross-process-names":
        r = check_cross_process_names(0)
    elif inp.get("case") == "memo-after-failure":
        r = check_memo_after_failure(inp["kind"])
    elif inp.get("case") == "pickled-params":
        r = check_pickled_params(0)
    elif inp.get("case") == "call-contexts":
        r = check_call_contexts(inp["kind"])
    elif inp.get("case") == "hdl-valued":
        r = check_hdl_valued(0)
    elif inp.get("case") == "string-pairs":
        r = check_string_pairs(tuple(inp["alphabet"]))
    elif inp.get("case") == "long-session":
        r = check_long_session(inp["n_other"])
    elif inp.get("case") == "paramclass-fields":
        r = check_paramclass_fields(0)
    elif "case" in inp:
        r = check_family(inp["case"])
    elif "params1" in inp:
        print("replay: see recorded names", inp)
        return 1 if inp.get("name1") == inp.get("name2") else 0
    else:
        return 2
    print("replay:", r)
    return 1 if r else 0
