"""C03 - indexing and concatenation follow Python sequence semantics."""
import itertools
import random

from pyvc import *
from contracts.common import *
from contracts import c_slice, c_width
from rtc.bitspec import bits, implbits, sel, Invalid

INFO = {
    "level": "other",
    "explanation": "hybrid: _slice_inner proved for all widths/starts/stops per constant step (pyvc, z3); "
                   "nested resolution and reference parents checked on a bounded exhaustive family",
    "trusted_base": ["pyvc encoding of CPython (cross-checked)", "z3", "rtc.bitspec reference semantics"],
}


# ------------------------------------------------------------------------------------------------ concrete contract
def check_index(w, idx, parent=None):
    """Run-time form of the _slice_inner contract on a Signal of width w (a fresh one, or `parent`, which may already
    have been indexed before). -> None | (clause, detail)"""
    import hdl21 as h
    from hdl21.slice import _slice_inner
    expect = None
    try:
        e = list(range(w))[idx]
        expect = [e] if isinstance(idx, int) else e
    except IndexError:
        expect = []
    except ValueError:      # zero step
        expect = []
    s = parent if parent is not None else h.Signal(width=w)
    try:
        sl = s[idx]
        inner = _slice_inner(sl)
    except ValueError:
        if expect:
            return ("reason.ValueError", f"Signal(width={w})[{idx!r}] rejected, Python selects {expect}")
        return None
    except Exception as e:
        return (f"raises.{type(e).__name__}", f"Signal(width={w})[{idx!r}] raised {type(e).__name__}: {e}")
    if not expect:
        return ("rejects.selects-nothing", f"Signal(width={w})[{idx!r}] accepted with width {inner.width}, "
                                          f"Python selects nothing")
    got = [inner.bot + k * inner.step for k in range(max(inner.width, 0))] if inner.step > 0 else \
          [inner.top - 1 + k * inner.step for k in range(max(inner.width, 0))]
    if inner.width != len(expect):
        return ("post.width", f"Signal(width={w})[{idx!r}].width == {inner.width}, Python selects {len(expect)}")
    if sl.parent is not s:
        # the Slice hangs off something else than what was indexed (say, what `s` is itself a piece of): it is the BITS
        # it selects that count, not where they are counted from
        try:
            from rtc.bitspec import bits
            pb_s, pb_p = bits(s), bits(sl.parent)
        except Exception:
            pb_s = None
        if pb_s is not None:
            if not all(0 <= g < len(pb_p) for g in got) or [pb_p[g] for g in got] != [pb_s[e_] for e_ in expect]:
                return ("post.sel", f"Signal(width={w})[{idx!r}] denotes {got} of {sl.parent}, Python selects {expect} of the indexed object")
            if sl.width != inner.width or sl.top != inner.top or sl.bot != inner.bot or sl.step != inner.step:
                return ("post.cached", f"Slice properties disagree with _slice_inner for {idx!r}")
            return None
    if got != expect:
        return ("post.sel", f"Signal(width={w})[{idx!r}] denotes {got}, Python selects {expect}")
    if not (0 <= inner.bot < inner.top <= w and all(inner.bot <= g < inner.top for g in got)):
        return ("post.inrange", f"Signal(width={w})[{idx!r}] has bounds [{inner.bot},{inner.top}) outside 0..{w}")
    if abs(inner.step) == 1 and inner.top - inner.bot != inner.width:
        return ("post.inrange", f"Signal(width={w})[{idx!r}]: unit step but top-bot = {inner.top - inner.bot} != width "
                                f"{inner.width}")
    if sl.width != inner.width or sl.top != inner.top or sl.bot != inner.bot or sl.step != inner.step:
        return ("post.cached", f"Slice properties disagree with _slice_inner for {idx!r}")
    return None


def same_parent_histories(W, rnd, nrandom):
    """(w, idx1, idx2): two indexings of ONE signal object, in this order"""
    def idxs(w):
        out = list(range(-w - 1, w + 1))
        bounds = [None] + list(range(-w, w + 1))
        for a in bounds:
            for b in bounds:
                for c in (None, 1, -1):
                    out.append(slice(a, b, c))
        return out
    for w in range(1, min(W, 2) + 1):
        ii = idxs(w)
        for a in ii:
            for b in ii:
                yield (w, a, b)
    for _ in range(nrandom):
        w = rnd.randint(3, max(3, W))
        ii = idxs(w)
        yield (w, rnd.choice(ii), rnd.choice(ii))


def check_same_parent(case):
    """the meaning of an index does not depend on what the same object was indexed with before"""
    import hdl21 as h
    w, i1, i2 = case
    s = h.Signal(width=w)
    for k, idx in enumerate((i1, i2)):
        r = check_index(w, idx, parent=s)
        if r is not None:
            return (f"hdl21.slice:_slice_inner/history.{r[0]}", f"after indexing the same signal with {i1!r}: {r[1]}"
                    if k else r[1], {"same_parent": repr(case)})
    return None


REF_KINDS = ("module-port", "external-port", "bundle-member", "nested-bundle-member", "signal", "slice-of-signal",
             "concat-of-signals", "piece-explicit-start", "piece-from-end", "piece-reversed", "piece-strided",
             "piece-of-piece", "piece-of-concat")
PIECES = {   # w bits of something wider: an index must be judged against the PIECE, not against what lies beneath it
    "piece-explicit-start": lambda h, w: h.Signal(name="s", width=w + 4)[2:2 + w],
    "piece-from-end": lambda h, w: h.Signal(name="s", width=w + 4)[-w - 1:-1],
    "piece-reversed": lambda h, w: h.Signal(name="s", width=w + 4)[w + 1:1:-1],
    "piece-strided": lambda h, w: h.Signal(name="s", width=2 * w + 3)[1:1 + 2 * w:2],
    "piece-of-piece": lambda h, w: h.Signal(name="s", width=w + 6)[1:w + 5][2:2 + w],
    "piece-of-concat": lambda h, w: h.Concat(h.Signal(name="s", width=w + 1), h.Signal(name="t", width=3))[1:1 + w],
}


def ref_parent(kind, w):
    """-> (sliceable parent of width w, resize(w2) changing the width of what it stands for)"""
    import hdl21 as h
    if kind in PIECES:
        return PIECES[kind](h, w), None
    if kind == "module-port":
        c = h.Module(name="RefChild")
        c.p = h.Port(width=w)
        m = h.Module(name="RefTop")
        m.i = c()
        return m.i.p, lambda w2: setattr(c.p, "width", w2)
    if kind == "external-port":
        port = h.Inout(name="p", width=w)
        E = h.ExternalModule(name="RefExt", port_list=[port], desc="", domain="c03")
        m = h.Module(name="RefTop")
        m.i = E()()
        return m.i.p, lambda w2: setattr(port, "width", w2)
    if kind in ("bundle-member", "nested-bundle-member"):
        B = h.Bundle(name="RefB")
        x = B.add(h.Signal(name="x", width=w))
        m = h.Module(name="RefTop")
        if kind == "bundle-member":
            m.b = B()
            return m.b.x, lambda w2: setattr(x, "width", w2)
        O = h.Bundle(name="RefO")
        O.add(B(), name="inner")
        m.o = O()
        return m.o.inner.x, lambda w2: setattr(x, "width", w2)
    s = h.Signal(name="s", width=w)
    if kind == "signal":
        return s, lambda w2: setattr(s, "width", w2)
    if kind == "slice-of-signal":
        return s[:], lambda w2: setattr(s, "width", w2)
    t = h.Signal(name="t", width=1)
    s.width = w - 1 if w > 1 else 1
    if w == 1:
        return h.Concat(s), lambda w2: setattr(s, "width", w2)
    return h.Concat(s, t), lambda w2: setattr(s, "width", w2 - 1) if w2 > 1 else None


def ref_parent_cases(W, rnd, n):
    """(kind, w, idx) - an index on a fresh parent of each kind; (kind, w, idx1, w2, idx2) - the parent indexed, what it
    stands for resized to w2, and the same parent object indexed again"""
    for kind in REF_KINDS:
        for w in range(1, min(W, 4) + 1):
            rng = list(range(-w - 1, w + 1))
            idxs = rng + [slice(a, b, c) for a in [None] + rng for b in [None] + rng for c in (None, 1, -1, 2)]
            for idx in idxs:
                yield (kind, w, idx)
            for _ in range(0 if kind in PIECES else n):
                w2 = rnd.randint(1, W)
                if w2 != w and not (kind == "concat-of-signals" and 1 in (w, w2)):
                    yield (kind, w, rnd.choice(idxs), w2, rnd.choice(idxs + list(range(-w2 - 1, w2 + 1))))


def check_ref_parent(case):
    kind, w, idx = case[:3]
    parent, resize = ref_parent(kind, w)
    r = check_index(w, idx, parent=parent)
    if r is not None:
        return (f"hdl21.slice:_slice_inner/{kind}/{r[0]}", r[1].replace("Signal(", f"<{kind}>("), {"ref_parent": repr(case)})
    if len(case) > 3:
        w2, idx2 = case[3:]
        resize(w2)
        r = check_index(w2, idx2, parent=parent)
        if r is not None:
            return (f"hdl21.slice:_slice_inner/{kind}/resized.{r[0]}",
                    f"after [{idx!r}] was read at width {w} and the {kind} resized to {w2}: " +
                    r[1].replace("Signal(", f"<{kind}>("), {"ref_parent": repr(case)})
    return None


def replay_slice_inner(con, ob):
    m = ob.model
    w = solve.model_value(m, c_width.W(z3.Int("parent")))
    sc = ob.scenario

    def val(name):
        return solve.model_value(m, z3.Int(name))
    if sc == "int":
        idx = val("i")
    elif sc == "slice[step=0]":
        idx = slice(val("start"), val("stop"), 0)
    else:
        parts = dict(p.split("=") for p in sc[len("slice["):-1].split(","))
        step = None if parts["step"] == "None" else int(parts["step"])
        idx = slice(val("start") if parts["start"] == "int" else None,
                    val("stop") if parts["stop"] == "int" else None, step)
    r = check_index(w, idx)
    inp = {"call": f"hdl21.Signal(width={w})[{idx!r}]", "width": w, "index": repr(idx)}
    if r is None:
        return (False, "real code satisfies the contract on this input", inp)
    return (True, r[1], inp)


def grid(W):
    for w in range(1, W + 1):
        rng = list(range(-2 * w, 2 * w + 1))
        for i in rng:
            yield (w, i)
        bounds = [None] + rng
        steps = [None] + [s for s in range(-w, w + 1) if s != 0] + [0]
        for a in bounds:
            for b in bounds:
                for c in steps:
                    yield (w, slice(a, b, c))


# ------------------------------------------------------------------------------------------------ nested family
def nested_cases(rnd, n, maxw=5, depth=3):
    """Random nested slice/concat expressions, as construction programs (tuples)."""
    def gen(d, nsig):
        k = rnd.random()
        if d == 0 or k < 0.25:
            return ("sig", rnd.randrange(nsig))
        if k < 0.65:
            sub = gen(d - 1, nsig)
            if rnd.random() < 0.4:
                return ("idx", sub, rnd.randint(-6, 6))
            pick = lambda: rnd.choice([None] + list(range(-6, 7)))
            return ("idx", sub, slice(pick(), pick(), rnd.choice([None, None, 1, 1, -1, 2, -2, 3])))
        return ("cat", tuple(gen(d - 1, nsig) for _ in range(rnd.randint(1, 3))))
    for _ in range(n):
        nsig = rnd.randint(1, 3)
        widths = tuple(rnd.randint(1, maxw) for _ in range(nsig))
        yield (widths, gen(depth, nsig))


def small_nested():
    """Exhaustive small family: slice-of-slice and slice-of-concat with every index pair on widths <= 3."""
    idxs = lambda w: list(range(-w, w)) + [slice(a, b, c) for a in [None] + list(range(-w, w + 1))
                                           for b in [None] + list(range(-w, w + 1)) for c in (None, -1, 2, -2)]
    for w in (2, 3):
        for i1 in idxs(w):
            try:
                n1 = len([list(range(w))[i1]] if isinstance(i1, int) else list(range(w))[i1])
            except IndexError:
                continue
            if n1 == 0:
                continue
            for i2 in idxs(n1):
                yield ((w,), ("idx", ("idx", ("sig", 0), i1), i2))
    for wa, wb in ((1, 2), (2, 2)):
        for i2 in idxs(wa + wb):
            yield ((wa, wb), ("idx", ("cat", (("sig", 0), ("sig", 1))), i2))
            yield ((wa, wb), ("cat", (("idx", ("cat", (("sig", 0), ("sig", 1))), i2),)))
            yield ((wa, wb), ("cat", (("sig", 1), ("idx", ("cat", (("sig", 0), ("sig", 1))), i2), ("sig", 0))))


def build(case):
    import hdl21 as h
    widths, expr = case
    sigs = [h.Signal(name=f"s{k}", width=w) for k, w in enumerate(widths)]

    def mk(e):
        if e[0] == "sig":
            return sigs[e[1]]
        if e[0] == "idx":
            return mk(e[1])[e[2]]
        return h.Concat(*[mk(p) for p in e[1]])
    return mk(expr)


def _non_unit(conn):
    from hdl21.slice import Slice
    from hdl21.concat import Concat
    if isinstance(conn, Slice):
        return conn if conn.step != 1 else None
    if isinstance(conn, Concat):
        for p in conn.parts:
            r = _non_unit(p)
            if r is not None:
                return r
    return None


def check_nested(case):
    from hdl21.elab.passes.slices import _resolve_sliceable
    from hdl21.elab.helpers.width import width
    try:
        conn = build(case)
    except (ValueError, TypeError) as e:
        conn = None
        build_err = e
    # designer-level meaning, by Python list operations only
    try:
        widths, expr = case
        import hdl21 as h
        expect = bits(conn) if conn is not None else None
    except Invalid:
        expect = "invalid"
    if conn is None:
        return None   # construction itself refused (e.g. TypeError for non-concatable): nothing to compare
    names = lambda bl: [(s.name, i) for s, i in bl]
    try:
        wd = width(conn)
        res = _resolve_sliceable(conn)
        got = implbits(res)
    except (ValueError, RuntimeError) as e:
        if expect == "invalid":
            return None
        return ("resolve.raises", f"{case!r}: valid expression (bits {names(expect)}) rejected with "
                                  f"{type(e).__name__}: {str(e)[:120]}", {"case": repr(case)})
    except Exception as e:
        return (f"resolve.raises.{type(e).__name__}", f"{case!r}: {type(e).__name__}: {str(e)[:160]}",
                {"case": repr(case)})
    if expect == "invalid":
        return ("resolve.accepts-invalid", f"{case!r}: selects nothing / out of range but resolves to "
                                           f"{names(got)}", {"case": repr(case)})
    bad = _non_unit(res)
    if bad is not None:
        # callee contract of the exporter (export_slice refuses any other step): the resolver's result is what is
        # exported, so a strided / reversed slice left in it turns a valid design into an export error
        return ("resolve.non-unit-step", f"{case!r}: resolved form still holds a slice with step {bad.step} "
                                         f"(index {bad.index!r})", {"case": repr(case)})
    if wd != len(expect):
        return ("width", f"{case!r}: width() == {wd}, expression denotes {len(expect)} bits", {"case": repr(case)})
    if [(id(s), i) for s, i in got] != [(id(s), i) for s, i in expect]:
        return ("resolve.bits", f"{case!r}: resolves to {names(got)}, means {names(expect)}", {"case": repr(case)})
    return None


def run(ctx):
    thorough = ctx.tier == "thorough"
    con = c_slice.SliceInnerContract()
    con.steps = c_slice.STEPS_THOROUGH if thorough else c_slice.STEPS_QUICK
    eng = mk_engine(contracts=[con] + c_width.CONTRACTS)
    ctx.verify(eng, [con], replay=replay_slice_inner, min_obligations={con.key: 100})
    # the same contract for every other sliceable parent (its width comes from the width helper's contract)
    from hdl21.bundle import BundleRef
    con2 = c_slice.SliceInnerContract()
    con2.steps = [None, 1, -1, 2, -3]
    con2.parent_classes = (Slice, Concat, PortRef, BundleRef)
    eng2 = mk_engine(contracts=[con2] + c_width.CONTRACTS)
    ctx.verify(eng2, [con2], replay=None, min_obligations={con2.key: 40})
    ctx.functions[-1]["function"] += " [parents: Slice, Concat, PortRef, BundleRef]"
    # width(): dispatch over the connectable kinds
    ctx.verify(c_width.verify_engine(), c_width.VERIFY_WIDTH, min_obligations={c_width.VERIFY_WIDTH[0].key: 30})
    # ref_width: the present width of the referent, whatever kind of instance the reference goes through
    ctx.verify(c_width.ref_width_engine(), c_width.VERIFY_REF_WIDTH, min_obligations={c_width.VERIFY_REF_WIDTH[0].key: 6})
    # Slice.top/bot/step/width (resolved anew on each read)
    from contracts import c_export
    ctx.verify(c_export.engine(), [c for c in c_export.VERIFY if c.key.startswith("hdl21.slice:")])
    # the positions a slice selects in its parent, in order (used by the resolver to peel strided / reversed slices)
    ctx.verify(c_export.engine(), c_export.VERIFY_INDICES, min_obligations={c_export.VERIFY_INDICES[0].key: 30})
    from contracts import c_sliceres
    ctx.verify(c_sliceres.engine(), c_sliceres.VERIFY, min_obligations={c_sliceres.KEY: 10})
    key, obs, info = c_sliceres.rewrite_obligations()
    for u in info.get("unsupported", []):
        ctx.unsupported.append((key, u))
    if len(obs) < 4 and not info.get("unsupported"):
        ctx.checker_errors.append(f"only {len(obs)} obligations for the slice resolver's rewrite loop")
    ctx.discharge(obs, key + " [per-connection loop body]", info)
    ctx.assumptions.append("slice steps: one scenario per constant step in [-%d, %d] (width, start, stop unbounded)"
                           % ((16, 16) if thorough else (4, 4)))

    W = 7 if thorough else 5
    ctx.run_bounded(
        "slice_inner-vs-python-list", grid(W),
        lambda c: (lambda r: None if r is None else (f"hdl21.slice:_slice_inner/concrete/{r[0]}", r[1],
                                                    {"width": c[0], "index": repr(c[1])}))(check_index(*c)),
        rule="every (width, index) with width<=W, int indices and slice bounds in [-2w,2w] or None, steps in "
             "{None,0,+-1..+-w}; distinct = distinct (width,index); all are non-trivial (each is a different index)",
        bound=f"W={W} exhaustive", key_of=lambda c: repr(c))
    rnd = random.Random(ctx.seed)
    ctx.run_bounded(
        "same-parent-histories", same_parent_histories(W, random.Random(ctx.seed + 5), 40000 if thorough else 6000),
        check_same_parent,
        rule="two indexings of ONE signal object in sequence (every ordered pair of ints / unit-step slices for widths 1-2, "
             "seeded random pairs for widths 3-W): each must mean what it means on a fresh signal",
        bound=f"widths<={W}, 2 indexings", key_of=repr)
    ctx.run_bounded(
        "reference-parents", ref_parent_cases(W, random.Random(ctx.seed + 9), 200 if thorough else 40), check_ref_parent,
        rule="the run-time form of the _slice_inner contract on parents of 13 kinds (six of them w-bit PIECES of something wider - from an explicit start, from the end, reversed, strided, of a piece, of a concatenation -; port reference through a module / an "
             "external module instance, bundle member and nested bundle member references, signal, full slice, "
             "concatenation) of widths 1-4, every int index and slice with bounds in [-w-1, w] and steps None, +-1, 2; "
             "plus histories: indexed, the referent resized, the same parent object indexed again (seeded)",
        bound="widths<=4 exhaustive; resize histories sampled", key_of=repr)
    # slices of port REFERENCES, resolved during elaboration once the reference is (update_ref_deps re-parents them):
    # the exported bits against the reference meaning of the design as written
    from props import c01 as _c01
    ctx.run_bounded(
        "portref-slice-resolution", _c01.portref_slice_designs(),
        lambda c: (lambda r: None if r is None else ("hdl21.elab.helpers.resolve_ref_types:update_ref_deps/" + r[0], r[1], r[2]))(_c01.check_design(c)),
        rule="a 4-bit child port tied to 7 kinds of referent (whole signal, low / high / middle / reversed piece of a bus, "
             "concatenation, nothing) and a device on `child.p[idx]` for every int index and every slice with steps +-1, +-2: "
             "exported bits == the bits the design denotes",
        bound="7 referents x ~115 indices", key_of=lambda c: c[0])
    ctx.run_bounded(
        "end-relative-indices", _c01.relative_index_designs(),
        lambda c: (lambda r: None if r is None else ("relative-index/" + r[0], r[1], r[2]))(_c01.check_design(c)),
        rule="negative and open-ended indices into concatenations, signals and slices whose parts were resized after a "
             "width query (slice taken before or after), and into same-named signals of different widths in several "
             "modules of one exported design: exported bits == the bits the same index selects from the Python list",
        bound="5 targets x 4 queries x 4 resizes x 6 indices x 2 orders + 14 same-name designs", key_of=lambda c: c[0])
    ctx.run_bounded(
        "array-shares-of-slices", _c01.array_share_designs(),
        lambda c: (lambda r: None if r is None else ("array-share/" + r[0], r[1], r[2]))(_c01.check_design(c)),
        rule="an n-array fed one part per element from a strided / reversed / nested slice or an unaligned concatenation: "
             "element k gets x[k*w:(k+1)*w] of the connection x as a Python list of bits",
        bound="11 connections x 4 array shapes", key_of=lambda c: c[0])
    cases = itertools.chain(small_nested(), nested_cases(rnd, 20000 if thorough else 3000))
    ctx.run_bounded(
        "nested-resolution", cases,
        lambda c: (lambda r: None if r is None else (f"hdl21.elab.passes.slices:_resolve_sliceable/{r[0]}", r[1], r[2]))(check_nested(c)),
        rule="exhaustive slice-of-slice / slice-of-concat on widths<=3 plus seeded random expressions of depth<=3 "
             "over <=3 signals of width<=5; distinct = distinct expression; non-trivial = contains a slice or concat",
        bound="depth<=3, widths<=5", key_of=lambda c: repr(c), nontrivial=lambda c: c[1][0] != "sig")
    return INFO


def replay(payload):
    inp = (payload.get("replay") or {}).get("input") or payload.get("input") or {}
    if "design" in inp:
        from props import c01 as _c01
        return _c01.replay(payload)
    if "ref_parent" in inp:
        r = check_ref_parent(eval(inp["ref_parent"]))
        print("replay:", r)
        return 1 if r else 0
    if "same_parent" in inp:
        r = check_same_parent(eval(inp["same_parent"]))
        print("replay:", r)
        return 1 if r else 0
    if "width" in inp and "index" in inp:
        r = check_index(inp["width"], eval(inp["index"], {"slice": slice}))
        print("replay:", r)
        return 1 if r else 0
    if "case" in inp:
        r = check_nested(eval(inp["case"], {"slice": slice}))
        print("replay:", r)
        return 1 if r else 0
    print("nothing to replay natively; obligation:", payload.get("obligation"))
    return 2
