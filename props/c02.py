"""C02 - ill-formed designs never yield a package or a netlist."""
import io
import itertools
from pyvc import *
from contracts.common import *

INFO = {
    "level": "other",
    "explanation": "hybrid: soundness contracts of the checking functions proved by pyvc where in reach "
                   "(check_signals_compatible, MarkModules.elaborate_module, Orphanage.assert_parentage, _slice_inner "
                   "bounds, elaborate_module_base visits every module once per pass class); every fault class of the "
                   "statement planted at every applicable site of a base design and run through elaborate / to_proto / "
                   "netlist (bounded fault enumeration)",
    "trusted_base": ["the fault catalogue in props/c02.py (trusted: each planted fault makes the design ill-formed)",
                     "pyvc", "z3"],
}


def faults():
    """(description, builder) - builder() returns the faulty *module*; it is then tried as top and wrapped one and
    two levels deep."""
    import hdl21 as h

    def E(*ports):
        return h.ExternalModule(name="FE" + "".join(f"{n}{w}" for n, w in ports),
                                port_list=[h.Inout(name=n, width=w) for n, w in ports], desc="", domain="f")

    def B2():
        @h.bundle
        class BB:
            x = h.Signal(width=2)
            y = h.Signal()
        return BB

    def B2other():
        @h.bundle
        class BO:
            x = h.Signal(width=3)
            y = h.Signal()
        return BO

    def child_with_bundle(B):
        L = E(("a", 2), ("b", 1))()
        C = h.Module(name="CWB")
        C.q = B(port=True)
        C.l = L(a=C.q.x, b=C.q.y)
        return C

    def base():
        m = h.Module(name="Faulty")
        m.s1 = h.Signal()
        m.s2 = h.Signal(width=2)
        m.s4 = h.Signal(width=4)
        return m
    L = lambda: E(("a", 2), ("b", 1))()      # an ExternalModuleCall (no parameters): calling it makes an Instance
    # ---- width mismatches
    conns = {
        "scalar-to-bus": lambda m: dict(a=m.s1, b=m.s1),
        "bus-to-scalar": lambda m: dict(a=m.s2, b=m.s2),
        "slice-too-wide": lambda m: dict(a=m.s4[0:3], b=m.s1),
        "slice-too-narrow": lambda m: dict(a=m.s4[0], b=m.s1),
        "concat-too-wide": lambda m: dict(a=h.Concat(m.s2, m.s1), b=m.s1),
        "concat-too-narrow": lambda m: dict(a=h.Concat(m.s1), b=m.s1),
        "strided-slice-width": lambda m: dict(a=m.s4[::3], b=m.s4[::2]),
    }
    for k, f in conns.items():
        def b(f=f):
            m = base()
            m.i = L()(**f(m))
            return m
        yield (f"width/{k}", b)

    def w_portref():
        m = base()
        m.i = L()(b=m.s1)
        m.j = L()(a=m.s2, b=m.i.a)       # i.a is 2 bits, j.b is 1 bit
        return m
    yield ("width/port-reference", w_portref)

    def w_bundle():
        m = base()
        m.bb = B2other()()
        m.c = child_with_bundle(B2())(q=m.bb)
        return m
    yield ("width/bundle-member", w_bundle)

    def w_anon():
        m = base()
        m.c = child_with_bundle(B2())(q=h.AnonymousBundle(x=m.s4[0:3], y=m.s1))
        return m
    yield ("width/anonymous-bundle-member", w_anon)

    def w_anon_dict():
        m = base()
        m.c = child_with_bundle(B2())(q=dict(x=m.s1, y=m.s1))
        return m
    yield ("width/anonymous-bundle-dict", w_anon_dict)

    def w_array():
        m = base()
        m.s3 = h.Signal(width=3)
        m.arr = 2 * L()(a=m.s3, b=m.s1)      # neither 2 nor 4
        return m
    yield ("width/array-broadcast", w_array)

    def w_array2():
        m = base()
        m.s3 = h.Signal(width=3)
        m.arr = 2 * L()(a=m.s2, b=m.s3)      # b: neither 1 nor 2
        return m
    yield ("width/array-per-element", w_array2)

    for nn, ww in ((2, 5), (3, 7), (2, 7)):
        def w_array3(nn=nn, ww=ww):
            m = base()
            m.sw = h.Signal(width=ww)
            m.arr = nn * L()(a=m.sw, b=m.s1)      # a is 2 bits wide: ww is neither 2 nor nn*2 (but more than nn*2)
            return m
        yield (f"width/array-wider-than-n-ports/{nn}x2<-{ww}", w_array3)

    def w_pair():
        m = base()
        m.d = h.Diff()
        m.pr = h.Pair(L())(a=m.s1, b=m.d)
        return m
    yield ("width/pair", w_pair)
    # ---- a connection made and taken away again: the port is open (a missing connection like any other)
    for target in ("instance", "array"):
        for how in ("call", "setattr", "replace"):
            for first in ("signal", "slice", "noconn", "portref"):
                def b(target=target, how=how, first=first):
                    m = base()
                    m.keep = L()(a=m.s2, b=m.s1)
                    i = L()(a=m.s2)
                    m.i = 2 * i if target == "array" else i
                    c = {"signal": lambda: m.s1, "slice": lambda: m.s4[1], "noconn": lambda: h.NoConn(), "portref": lambda: m.keep.b}[first]()
                    if how == "call":
                        m.i(b=c)
                    elif how == "setattr":
                        m.i.b = c
                    else:
                        m.i.b = m.s1
                        m.i.replace("b", c)
                    m.i.disconnect("b")
                    return m
                yield (f"ports/connected-then-disconnected/{target}/{how}/{first}", b)
    # ---- a connection to a port the target does not have - when the target has NO ports at all
    for target in ("module", "external", "empty-bundle-port-module"):
        for how in ("instance", "array", "two-conns"):
            def b(target=target, how=how):
                m = base()
                if target == "external":
                    T = h.ExternalModule(name="Portless", port_list=[], desc="", domain="c02")()
                else:
                    T = h.Module(name="PortlessM")
                    T.k = h.Signal()
                    T.r = h.R(r=1)(p=T.k, n=T.k)
                    if target == "empty-bundle-port-module":
                        T.e = h.Bundle(name="EmptyB")(port=True)
                conns = dict(x=m.s1) if how != "two-conns" else dict(x=m.s1, y=m.s2)
                if target == "empty-bundle-port-module":
                    conns["e"] = h.AnonymousBundle()
                m.i = (2 * T(**conns)) if how == "array" else T(**conns)
                return m
            yield (f"ports/extra-on-portless/{target}/{how}", b)
    # ---- missing / extra connections
    for k, f in {"missing": lambda m: dict(a=m.s2), "extra": lambda m: dict(a=m.s2, b=m.s1, c=m.s1),
                 "none": lambda m: dict()}.items():
        def b(f=f):
            m = base()
            m.i = L()(**f(m))
            return m
        yield (f"ports/{k}/instance", b)

        def b2(f=f):
            m = base()
            m.arr = 2 * L()(**f(m))
            return m
        yield (f"ports/{k}/array", b2)

        def b3(f=f):
            m = base()
            m.pr = h.Pair(L())(**f(m))
            return m
        yield (f"ports/{k}/pair", b3)

    def missing_bundle_port():
        m = base()
        m.c = child_with_bundle(B2())()
        return m
    yield ("ports/missing/bundle-port", missing_bundle_port)
    # ---- references to things that do not exist
    def ref_noport():
        m = base()
        m.i = L()(a=m.s2, b=m.s1)
        m.j = L()(a=m.s2, b=m.i.nope)
        return m
    yield ("noexist/port-reference", ref_noport)

    def ref_nomember():
        m = base()
        m.bb = B2()()
        m.i = L()(a=m.bb.nope, b=m.s1)
        return m
    yield ("noexist/bundle-member", ref_nomember)

    def anon_wrong_member():
        m = base()
        m.c = child_with_bundle(B2())(q=h.AnonymousBundle(x=m.s2, z=m.s1))
        return m
    yield ("noexist/anonymous-bundle-member", anon_wrong_member)
    # ---- indices
    for k, idx in {"out-of-range-int": 4, "out-of-range-neg": -5, "empty": slice(2, 2), "empty-rev": slice(1, 3, -1)}.items():
        def b(idx=idx):
            m = base()
            m.i = L()(a=m.s2, b=m.s4[idx])
            return m
        yield (f"index/{k}", b)

    # every index that selects nothing from a 4-bit signal, on a port of every width it could be mistaken for
    # (a slice [a:b:c] whose bounds oppose its stride has a "span" of |b-a| bits)
    bounds = [None, -5, -4, -2, 0, 1, 3, 4, 6]
    for a in bounds:
        for b_ in bounds:
            for c in (None, 1, -1, 2, -2, 3):
                if len(range(*slice(a, b_, c).indices(4))) != 0:
                    continue
                for pw in (1, 2, 3, 4):
                    def be(a=a, b_=b_, c=c, pw=pw):
                        m = base()
                        Lw = E(("a", 2), ("b", pw))
                        m.i = Lw()(a=m.s2, b=m.s4[a:b_:c])
                        return m
                    yield (f"index/empty[{a}:{b_}:{c}]->port{pw}", be)

    def idx_concat():
        m = base()
        m.i = L()(a=m.s2, b=h.Concat(m.s1, m.s2)[3])
        return m
    yield ("index/out-of-range-concat", idx_concat)
    # ---- ownership
    def own_signal():
        m = base()
        foreign = h.Signal(name="foreign")
        m.i = L()(a=m.s2, b=foreign)
        return m
    yield ("owner/signal-of-none", own_signal)

    def own_other():
        m = base()
        other = h.Module(name="Other")
        other.t = h.Signal()
        m.i = L()(a=m.s2, b=other.t)
        return m
    yield ("owner/signal-of-another-module", own_other)

    def own_in_concat():
        m = base()
        foreign = h.Signal(name="foreign")
        m.i = L()(a=h.Concat(m.s1, foreign), b=m.s1)
        return m
    yield ("owner/signal-inside-concat", own_in_concat)

    def own_in_slice():
        m = base()
        foreign = h.Signal(name="foreign", width=4)
        m.i = L()(a=foreign[0:2], b=m.s1)
        return m
    yield ("owner/signal-inside-slice", own_in_slice)

    def own_bundle():
        m = base()
        foreign = B2()(name="fb")
        m.c = child_with_bundle(B2())(q=foreign)
        return m
    yield ("owner/bundle-of-none", own_bundle)

    def own_instance():
        m = base()
        other = h.Module(name="Other2")
        other.s2 = h.Signal(width=2)
        other.s1 = h.Signal()
        other.i = L()(a=other.s2, b=other.s1)
        m.j = L()(a=m.s2, b=other.i.b)      # port reference into another module's instance
        return m
    yield ("owner/instance-of-another-module", own_instance)

    def own_shared_signal():
        m = base()
        other = h.Module(name="Other3")
        sig = h.Signal()
        other.sh = sig
        m.sh = sig                     # now owned by m, but still listed in Other3
        other.s2 = h.Signal(width=2)
        other.i = L()(a=other.s2, b=other.sh)
        m.o = other()
        m.i = L()(a=m.s2, b=m.sh)
        return m
    yield ("owner/signal-in-two-modules", own_shared_signal)
    for order in ("owner-first", "owner-last"):
        for how in ("signal", "slice", "concat"):
            def own_sibling(order=order, how=how):
                owner = h.Module(name="OwnerSib")
                owner.s2 = h.Signal(width=2)
                owner.s1 = h.Signal()
                owner.i = L()(a=owner.s2, b=owner.s1)
                thief = h.Module(name="ThiefSib")
                thief.t1 = h.Signal()
                conn = {"signal": owner.s2, "slice": owner.s2[0:2], "concat": h.Concat(owner.s1, owner.s1)}[how]
                thief.i = L()(a=conn, b=thief.t1)
                m = base()
                if order == "owner-first":
                    m.o = owner()
                    m.t = thief()
                else:
                    m.t = thief()
                    m.o = owner()
                return m
            yield (f"owner/sibling-module-signal/{order}/{how}", own_sibling)
    # ... a signal (port, bundle instance) that LOST its name to another object: it is no longer the module's
    for kind in ("signal", "port", "bundle"):
        for where in ("direct", "slice", "concat"):
            def displaced(kind=kind, where=where):
                m = base()
                old = {"signal": lambda: h.Signal(width=2), "port": lambda: h.Port(width=2), "bundle": lambda: B2()()}[kind]()
                m.a = old
                m.a = h.Signal(width=2)                    # `old` loses its name
                if kind == "bundle":
                    m.c = child_with_bundle(B2())(q=old)
                elif where == "direct":
                    m.i = L()(a=old, b=m.s1)
                elif where == "slice":
                    m.i = L()(a=m.s2, b=old[0])
                else:
                    m.i = L()(a=h.Concat(old[0], m.s1), b=m.s1)
                return m
            yield (f"owner/displaced-{kind}/{where}", displaced)
    # ... a COPY of one of the module's own signals, never added to it (copies start out owned by nobody)
    import copy as _copy
    for how in ("copy", "deepcopy"):
        for where in ("direct", "slice", "concat", "anon"):
            def own_copy(how=how, where=where):
                m = base()
                cp = (_copy.copy if how == "copy" else _copy.deepcopy)(m.s2)
                if where == "direct":
                    m.i = L()(a=cp, b=m.s1)
                elif where == "slice":
                    m.i = L()(a=m.s2, b=cp[0])
                elif where == "concat":
                    m.i = L()(a=h.Concat(cp[0], m.s1), b=m.s1)
                else:
                    m.c = child_with_bundle(B2())(q=h.AnonymousBundle(x=cp, y=m.s1))
                return m
            yield (f"owner/{how}-of-own-signal/{where}", own_copy)
    # ... two external modules of one domain and name whose definitions contradict each other in the WIDTH of a port only
    def ext_clash_widths():
        m = base()
        Ea = h.ExternalModule(name="ClashW", port_list=[h.Inout(name="a", width=2), h.Inout(name="b")], desc="", domain="f")
        Eb = h.ExternalModule(name="ClashW", port_list=[h.Inout(name="a", width=4), h.Inout(name="b")], desc="", domain="f")
        m.x = Ea()(a=m.s2, b=m.s1)
        m.y = Eb()(a=m.s4, b=m.s1)
        return m
    yield ("name/external-clash-widths", ext_clash_widths)

    def ext_clash_params():
        m = base()
        Ea = h.ExternalModule(name="ClashP", port_list=[h.Inout(name="a", width=2), h.Inout(name="b")], desc="one", domain="f")
        Eb = h.ExternalModule(name="ClashP", port_list=[h.Inout(name="b"), h.Inout(name="a", width=2)], desc="one", domain="f")
        m.x = Ea()(a=m.s2, b=m.s1)
        m.y = Eb()(a=m.s2, b=m.s1)
        return m
    yield ("name/external-clash-port-order", ext_clash_params)
    # ---- no-connect referenced elsewhere
    def nc_ref():
        m = base()
        m.i = L()(a=m.s2, b=h.NoConn())
        m.j = L()(a=m.s2, b=m.i.b)
        return m
    yield ("noconn/also-referenced", nc_ref)

    def nc_shared_ref():
        m = base()
        nc = h.NoConn()
        m.i = L()(a=m.s2, b=nc)
        m.j = L()(a=m.s2, b=m.i.b)
        m.k = L()(a=m.s2, b=m.j.b)
        return m
    yield ("noconn/chain-referenced", nc_shared_ref)
    # ... at the far end of a chain of three ports, for every order in which the instances are declared and the links made,
    #     and every position of the no-connect in the chain
    import itertools as _it
    for order in _it.permutations(range(3)):
        for links in _it.permutations(range(3)):
            for nc_at in range(3):
                def nc_chain(order=order, links=links, nc_at=nc_at):
                    m = base()
                    insts = {}
                    for k in order:
                        insts[k] = m.add(L()(a=m.s2), name=f"c{k}")
                    # chain: c0.b <- c1.b <- c2.b, one of the three tied to a no-connect as well / instead
                    todo = {0: lambda: insts[0].connect("b", insts[1].b), 1: lambda: insts[1].connect("b", insts[2].b),
                            2: lambda: insts[nc_at].connect("b", h.NoConn()) if nc_at == 2 else
                            (insts[2].connect("b", m.s1), insts[nc_at].connect("b", h.NoConn()))}
                    if nc_at != 2:
                        # the no-connect REPLACES that port's link: make the remaining chain refer to the no-connected port
                        todo = {0: lambda: insts[(nc_at + 1) % 3].connect("b", insts[nc_at].b),
                                1: lambda: insts[(nc_at + 2) % 3].connect("b", insts[(nc_at + 1) % 3].b),
                                2: lambda: insts[nc_at].connect("b", h.NoConn())}
                    for k in links:
                        todo[k]()
                    return m
                yield (f"noconn/chain3/{order}/{links}/nc{nc_at}", nc_chain)
    # ... referenced only through a concatenation / a slice of the port reference (never in the port-reference group)
    for how in ("concat", "slice", "concat-of-slice"):
        def nc_derived(how=how):
            m = base()
            m.i = L()(a=h.NoConn(), b=m.s1)
            ref = {"concat": lambda: h.Concat(m.i.a[0], m.s1), "slice": lambda: m.i.a[0:2],
                   "concat-of-slice": lambda: h.Concat(m.s1, m.i.a[1])}[how]()
            m.j = L()(a=ref, b=m.s1)
            return m
        yield (f"noconn/referenced-through-{how}", nc_derived)

    def nc_derived_scalar():
        m = base()
        m.i = L()(a=m.s2, b=h.NoConn())
        m.j = L()(a=h.Concat(m.i.b, m.s1), b=m.s1)
        return m
    yield ("noconn/referenced-through-concat-scalar", nc_derived_scalar)
    # ---- circular instantiation
    def circular():
        a = h.Module(name="CircA")
        bm = h.Module(name="CircB")
        a.b = bm()
        bm.a = a()
        return a
    yield ("circular/two", circular)

    def circular_self():
        a = h.Module(name="CircSelf")
        a.me = a()
        return a
    yield ("circular/self", circular_self)
    # ---- module naming
    def unnamed():
        m = h.Module()
        m.s2 = h.Signal(width=2)
        m.s1 = h.Signal()
        m.i = L()(a=m.s2, b=m.s1)
        return m
    yield ("name/unnamed", unnamed)

    # ---- a design that becomes ill-formed through an edit attempted after it was first elaborated / exported; the
    #      edit may well be refused (the exception is caught, as an interactive session would): whatever is left must be
    #      judged as it stands
    for first in ("elaborate", "to_proto", "netlist"):
        for op in ("disconnect", "replace-wide", "connect-wide", "setattr-wide", "call-wide"):
            for depth in (0, 1):
                def late(first=first, op=op, depth=depth):
                    leaf = h.Module(name="LateLeaf")
                    leaf.a, leaf.b = h.Input(width=2), h.Output()
                    leaf.r = E(("a", 2), ("b", 1))()(a=leaf.a, b=leaf.b)
                    mid = h.Module(name="LateMid")
                    mid.x, mid.y = h.Input(width=2), h.Output()
                    mid.u = leaf(a=mid.x, b=mid.y)
                    m = base()
                    m.m = mid(x=m.s2, y=m.s1)
                    {"elaborate": lambda: h.elaborate(m), "to_proto": lambda: h.to_proto(m),
                     "netlist": lambda: h.netlist(m, io.StringIO(), fmt="spice")}[first]()
                    inst, holder, wide = (m.m, m, m.s4) if depth == 0 else (mid.u, mid, mid.x)
                    port = "y" if depth == 0 else "b"
                    before = dict(inst.conns)
                    try:
                        if op == "disconnect":
                            inst.disconnect(port)
                        elif op == "replace-wide":
                            inst.replace(port, wide)
                        elif op == "connect-wide":
                            inst.connect(port, wide)
                        elif op == "setattr-wide":
                            setattr(inst, port, wide)
                        else:
                            inst(**{port: wide})
                    except Exception:
                        pass
                    if dict(inst.conns) == before:
                        raise NotAFault()      # the edit was refused and left nothing behind: the design is still valid
                    return m
                yield (f"late/{op}-after-{first}/depth{depth}", late)

    def clash():
        def mk(w):
            c = h.Module(name="SameName")
            c.p = h.Port(width=w)
            return c
        m = base()
        m.c1 = mk(1)(p=m.s1)
        m.c2 = mk(2)(p=m.s2)
        return m
    yield ("name/clash", clash)

    # a module that shares its qualified name with one of its own DESCENDANTS (child, grandchild, through an array)
    for depth in (1, 2, 3):
        def clash_descendant(depth=depth):
            def mk(w):
                c = h.Module(name="Faulty")          # `base()` is called Faulty too
                c.p = h.Port(width=w)
                return c
            m = base()
            inner = mk(1)
            cur, port = inner, "p"
            for k in range(depth - 1):
                mid = h.Module(name=f"Between{k}")
                mid.p = h.Port()
                mid.add(cur(p=mid.p), name="i") if k % 2 == 0 else mid.add(1 * cur(p=mid.p), name="arr")
                cur = mid
            m.c1 = cur(p=m.s1)
            return m
        yield (f"name/clash-with-own-descendant/depth{depth}", clash_descendant)

    # two DIFFERENT modules of one path-qualified name that came in through from_proto (two packages, or one package read
    # twice and one copy edited), meeting in one design
    for how in ("two-packages", "one-package-read-twice", "imported-and-written"):
        def clash_imported(how=how):
            def pkg_of(w):
                c = h.Module(name="ImportedCell")
                c.p = h.Port(width=w)
                c.r = h.R(r=w)(p=c.p[0], n=c.p[0])
                return h.to_proto(c)

            def cell(ns):
                import types
                for v in vars(ns).values():
                    if isinstance(v, h.Module):
                        return v
                    if isinstance(v, types.SimpleNamespace):
                        r = cell(v)
                        if r is not None:
                            return r
                return None
            one = cell(h.from_proto(pkg_of(1)))
            if how == "two-packages":
                two = cell(h.from_proto(pkg_of(2)))
            elif how == "one-package-read-twice":
                two = cell(h.from_proto(pkg_of(1)))
                two.extra = h.Port()                  # the second copy goes its own way
                two.r2 = h.R(r=5)(p=two.extra, n=two.extra)
            else:
                two = h.Module(name="ImportedCell")
                two.p = h.Port(width=2)
                two, one = one, two                   # the hand-written one first, the imported one second
            m = base()
            m.c1 = one(p=m.s1) if "p" in one.ports and one.ports["p"].width == 1 else one(p=m.s2)
            if how == "one-package-read-twice":
                m.c2 = two(p=m.s1, extra=m.s1)
            else:
                m.c2 = two(p=m.s2) if two.ports["p"].width == 2 else two(p=m.s1)
            return m
        yield (f"name/clash-imported/{how}", clash_imported)

    # two DIFFERENT modules made by equal generator calls (an uncached generator; a cached one across a cache reset)
    for how in ("uncached", "cache-reset"):
        def clash_gen(how=how):
            @h.paramclass
            class GP:
                w = h.Param(dtype=int, desc="w", default=1)
            state = {"n": 0}

            def body(p: GP) -> h.Module:
                state["n"] += 1
                c = h.Module()
                c.p = h.Port(width=p.w + (state["n"] > 1))     # the second module really is another one
                return c
            body.__name__ = "ClashGen"
            G = h.generator(body, enable_cache=False) if how == "uncached" else h.generator(body)
            m = base()
            a = G(w=1)
            if how == "cache-reset":
                h.generator.cache.reset() if hasattr(getattr(h.generator, "cache", None), "reset") else \
                    __import__("hdl21.generator", fromlist=["Generator"]).Generator.Cache.done.clear()
            b = G(w=1)
            assert a is not b and a.name == b.name
            m.c1 = a(p=m.s1)
            m.c2 = b(p=m.s2)
            return m
        yield (f"name/clash-generated/{how}", clash_gen)

    # ---- a sound child, edited into an ill-formed one after the elaboration of a parent failed LATE (the child had been
    #      through every checking pass by then; it is not elaborated, so the edit is accepted)
    for how in ("missing-connection", "wide-connection", "foreign-signal"):
        def after_failed_parent(how=how):
            B = B2()
            cb = child_with_bundle(B)
            ch = h.Module(name="SoundChild")
            ch.p = h.Port()
            ch.e = E(("a", 1), ("b", 1))()(a=ch.p, b=ch.p)
            par = base()
            par.c = ch(p=par.s1)
            par.k = cb(q=h.AnonymousBundle(x=par.s1, y=par.s1))      # x is 2 bits wide: refused by the repeated check
            try:
                h.elaborate(par)
            except Exception:
                pass
            else:
                raise AssertionError("the parent was accepted")
            try:
                if how == "missing-connection":
                    ch.late = E(("a", 1), ("b", 1))()(a=ch.p)
                elif how == "wide-connection":
                    ch.add(h.Signal(width=3), name="wide")
                    ch.late = E(("a", 1), ("b", 1))()(a=ch.p, b=ch.wide)
                else:
                    ch.late = E(("a", 1), ("b", 1))()(a=ch.p, b=h.Signal(name="nobodys"))
            except Exception:
                raise NotAFault()
            return ch
        yield (f"late/child-edited-after-parent-failed/{how}", after_failed_parent)

    # ---- a signal resized after a slice / concatenation of it was made and its width looked at: the design as it
    #      stands has an empty or out-of-range index, or a connection of the wrong width
    def resized(kind, query):
        def b():
            m = base()
            if kind == "slice-now-empty":
                x, port_w = m.s4[2:4], 2
                resize = lambda: setattr(m.s4, "width", 2)
            elif kind == "slice-now-narrower":
                x, port_w = m.s4[1:3], 2
                resize = lambda: setattr(m.s4, "width", 2)
            elif kind == "index-now-out-of-range":
                x, port_w = m.s4[3], 1
                resize = lambda: setattr(m.s4, "width", 3)
            elif kind == "concat-now-wider":
                x, port_w = h.Concat(m.s2, m.s1), 3
                resize = lambda: setattr(m.s2, "width", 3)
            else:   # slice of a concatenation whose part shrinks
                x, port_w = h.Concat(m.s2, m.s1)[1:3], 2
                resize = lambda: setattr(m.s2, "width", 1)
            if query == "width":
                assert x.width == port_w
            elif query == "sliced-again":
                assert x[0].width == 1
            elif query == "top-bot" and hasattr(x, "top"):
                assert x.top - x.bot >= 1
            m.i = E(("a", port_w), ("b", 1))()(a=x, b=m.s1)
            resize()
            return m
        return b
    for kind in ("slice-now-empty", "slice-now-narrower", "index-now-out-of-range", "concat-now-wider", "slice-of-concat"):
        for query in ("none", "width", "sliced-again", "top-bot"):
            yield (f"resized/{kind}/queried-{query}", resized(kind, query))


def sites(build, wrapfree=False):
    """the faulty module as top, and one / two levels below a clean parent"""
    import hdl21 as h
    yield ("top", build)
    if wrapfree:
        return

    def deep(n):
        def b():
            cur = build()
            for k in range(n):
                if cur.ports or getattr(cur, "bundle_ports", None):
                    return cur
                p = h.Module(name=f"Wrap{k}")
                p.add(h.Instance(of=cur, name="inner"))
                cur = p
            return cur
        return b
    yield ("deep1", deep(1))
    yield ("deep2", deep(2))


class NotAFault(Exception):
    """the builder found that its design is well-formed after all (a refused edit left no trace)"""


def fault_cases():
    for desc, build in faults():
        for site, b in sites(build, wrapfree=desc.startswith(("index/empty[", "late/", "noconn/chain3/"))):
            for entry in ("to_proto", "elaborate", "netlist"):
                yield (f"{desc}@{site}", entry, b)


def check_fault(case):
    import hdl21 as h
    desc, entry, build = case
    try:
        top = build()
    except NotAFault:
        check_fault.not_a_fault = getattr(check_fault, "not_a_fault", 0) + 1
        return None
    except (ValueError, TypeError, RuntimeError):
        check_fault.at_construction = getattr(check_fault, "at_construction", 0) + 1
        return None       # rejected at construction time: fine
    try:
        if entry == "to_proto":
            h.to_proto(top)
        elif entry == "elaborate":
            h.elaborate(top)
            return ("accepted.elaborate/" + desc.split("@")[0], f"{desc}: elaborate() accepted an ill-formed design",
                    {"fault": desc, "entry": entry})
        else:
            h.netlist(top, io.StringIO(), fmt="spice")
    except RecursionError as e:
        return ("raises.RecursionError/" + desc.split("@")[0], f"{desc}: {entry} died with RecursionError",
                {"fault": desc, "entry": entry})
    except Exception:
        return None
    return (f"accepted.{entry}/" + desc.split("@")[0], f"{desc}: {entry}() returned a result for an ill-formed design",
            {"fault": desc, "entry": entry})


def run(ctx):
    from contracts import c_elab as ce
    eng = mk_engine(contracts=ce.CONTRACTS, loops=ce.LOOPS, class_attrs=ce.CLASS_ATTRS, field_classes=ce.FIELD_CLASSES,
                    schema_extra=ce.SCHEMA_EXTRA)
    ctx.verify(eng, [ce.CONTRACTS[0], ce.CONTRACTS[3]])
    from contracts import c_checkers as ck
    ctx.verify(ck.engine(), ck.VERIFY)
    ctx.verify(ck.compat_engine(), ck.VERIFY_COMPAT, min_obligations={ck.VERIFY_COMPAT[0].key: 16})
    ctx.assumptions.append("check_bundles_compatible and resolve_bundleref_type are abstracted (assumed contracts: Valid "
                           "only for compatible bundle types); check_instance's loops over the port dictionary are "
                           "decided by the fault family")
    for key, obs, info in ck.orphanage_loop_obligations():
        for u in info.get("unsupported", []):
            ctx.unsupported.append((key, u))
        if len(obs) < 3 and not info.get("unsupported"):
            ctx.checker_errors.append(f"only {len(obs)} loop obligations for {key}")
        ctx.discharge(obs, key + " [every member / every connection is checked]", info)
    from contracts import c_arrays
    aobs, ainfo = c_arrays.obligations()
    for u in ainfo.get("unsupported", []):
        ctx.unsupported.append((c_arrays.KEY, u))
    ctx.discharge([o for o in aobs if "per-element-guard" in o.name], c_arrays.KEY + " [guard of the per-element branch]", ainfo)
    ck.pass_list_obligations(ctx)
    from contracts import c_portrefs
    ctx.verify(c_portrefs.engine(), [c_portrefs.VERIFY[1]])
    from contracts import c_slice, c_width
    from props.c03 import replay_slice_inner
    rej = c_slice.SliceRejects()
    ctx.verify(mk_engine(contracts=[rej] + c_width.CONTRACTS), [rej], replay=replay_slice_inner,
               min_obligations={rej.key: 20})
    ctx.functions[-1]["function"] += " [rejection clauses: an index selecting nothing raises]"
    check_fault.at_construction = 0
    ctx.run_bounded("fault-enumeration", fault_cases(), check_fault,
                    rule="13 fault classes of the statement planted on scalar/bus/slice/concat/port-reference/bundle/"
                         "anonymous-bundle/array/pair connections of a base module; each tried as the top module and "
                         "one and two hierarchy levels deep; each through to_proto, elaborate and netlist; distinct = "
                         "(fault, site, entry point); all non-trivial",
                    bound="single faults, depth<=2", key_of=lambda c: (c[0], c[1]))
    ctx.bounded[-1]["rejected_at_construction"] = check_fault.at_construction
    if check_fault.at_construction * 4 > ctx.bounded[-1]["evaluations"]:
        ctx.checker_errors.append(f"{check_fault.at_construction} of {ctx.bounded[-1]['evaluations']} faulted designs "
                                  f"were refused while being built: the fault family does not reach the elaborator")
    return INFO


def replay(payload):
    inp = payload.get("input") or {}
    for c in fault_cases():
        if c[0] == inp.get("fault") and c[1] == inp.get("entry"):
            r = check_fault(c)
            print("replay:", r)
            return 1 if r else 0
    print("nothing to replay natively; obligation:", payload.get("obligation"))
    return 2
