#!/bin/sh
# Build the overlay venv used by every check. Offline: wheels from /opt/veriftools/wheels only.
set -e
cd "$(dirname "$0")"
V=.venv
if [ -x "$V/bin/python" ] && "$V/bin/python" -c "import z3, hdl21" 2>/dev/null; then
  exit 0
fi
rm -rf "$V"
/venv/bin/python -m venv "$V" --without-pip
SP=$("$V/bin/python" -c "import sysconfig; print(sysconfig.get_paths()['purelib'])")
printf "import site; site.addsitedir('/venv/lib/python3.12/site-packages')\n" > "$SP/_base_venv.pth"
PIP_NO_INDEX=1 /venv/bin/python -m pip install -q --no-index --find-links /opt/veriftools/wheels \
   --target "$SP" z3-solver cvc5 jsonschema >/dev/null 2>&1 || \
PIP_NO_INDEX=1 /venv/bin/python -m pip install --no-index --find-links /opt/veriftools/wheels \
   --target "$SP" z3-solver cvc5 jsonschema
"$V/bin/python" -c "import z3, cvc5, hdl21, vlsir, vlsirtools; print('verif venv ok', z3.get_version_string())"
