"""Reference interpreter ("oracle") for the electrical meaning of Hdl21 designs.

Two independent readings of a circuit are computed here and compared:

* ``meaning(top)``            - directly from the *un-elaborated*, designer-visible Hdl21 object graph;
* ``package_meaning(pkg, n)`` - from an exported ``vlsir.circuit.Package`` alone, read the way the vlsirtools
                                netlisters read it.

The oracle never calls an elaboration pass or helper (nothing from ``hdl21.elab``, no ``width()``, no
``resolve_*``, no ``flatname``, no ``Slice.top/.bot/.width``, no ``Concat.width``).  Widths and selections
come from Python list indexing on explicit bit lists; only the plain data fields of the Hdl21 objects are read
(and they are read through ``object.__getattribute__`` so that the attribute magic of Instance/Bundle objects can
never create references, i.e. the design is not mutated).

A *Meaning* is
  ports    ordered [(name, width, direction-name)] of the top module, bundle-valued ports expanded;
  devices  [(hierarchical path, identity, params)] of the leaf devices (primitives / external modules);
  nets     the partition {frozenset(terminal)} of all terminals, a terminal being ("port", name, bit) or
           ("dev", path, device port name, bit).  Singleton nets are included.
"""
from __future__ import annotations

import os
import re
import sys
from dataclasses import dataclass, field, fields as _dc_fields, is_dataclass
from decimal import Decimal, InvalidOperation
from enum import Enum
from typing import Any, Dict, List, Optional, Tuple

_ROOT = os.path.dirname(os.path.dirname(os.path.abspath(__file__)))
if _ROOT not in sys.path:
    sys.path.insert(0, _ROOT)
from pyvc import loader  # noqa: E402

loader.ensure_paths()

# Data model only.
from hdl21.module import Module  # noqa: E402
from hdl21.instance import Instance, InstanceArray, InstanceBundle  # noqa: E402
from hdl21.signal import Signal, Visibility, PortDir  # noqa: E402
from hdl21.slice import Slice  # noqa: E402
from hdl21.concat import Concat  # noqa: E402
from hdl21.portref import PortRef  # noqa: E402
from hdl21.noconn import NoConn  # noqa: E402
from hdl21.bundle import Bundle, BundleInstance, BundleRef, AnonymousBundle  # noqa: E402
from hdl21.primitives import PrimitiveCall  # noqa: E402
from hdl21.external_module import ExternalModuleCall  # noqa: E402


class InvalidDesign(Exception):
    """The design has no meaning (width mismatch, missing / extra port, bad index, foreign signal, ...)."""


class Unsupported(Exception):
    """The documented rules do not define a meaning for this construct; the oracle declines to judge."""


class InvalidPackage(Exception):
    """The exported package is not a well-formed circuit (dangling names, width mismatch, missing connection, ...)."""


def _ga(obj, name):
    """Plain attribute read that can never trigger the PortRef / BundleRef generating ``__getattr__`` magic."""
    return object.__getattribute__(obj, name)


# ----------------------------------------------------------------------------------------------------------------------
# Meaning
# ----------------------------------------------------------------------------------------------------------------------


@dataclass
class Meaning:
    ports: List[Tuple[str, int, str]]
    devices: List[Tuple[tuple, tuple, Dict[str, Any]]]
    nets: set
    # The first `n_plain_ports` entries of `ports` are plain Signal ports (order is part of the meaning); the rest
    # come from expanding bundle-valued ports (compared order-insensitively, see `compare`).
    n_plain_ports: int = -1

    def __post_init__(self):
        if self.n_plain_ports < 0:
            self.n_plain_ports = len(self.ports)

    def net_of(self, terminal):
        for n in self.nets:
            if terminal in n:
                return n
        return None

    def summary(self) -> str:
        return f"Meaning({len(self.ports)} ports, {len(self.devices)} devices, {len(self.nets)} nets)"


class _UF:
    def __init__(self):
        self.p = {}

    def find(self, x):
        p = self.p
        if x not in p:
            p[x] = x
            return x
        r = x
        while p[r] != r:
            r = p[r]
        while p[x] != r:
            p[x], x = r, p[x]
        return r

    def union(self, a, b):
        ra, rb = self.find(a), self.find(b)
        if ra != rb:
            self.p[ra] = rb


def _partition(uf: _UF, terminals) -> set:
    groups: Dict[Any, list] = {}
    for t in terminals:
        groups.setdefault(uf.find(t), []).append(t)
    return {frozenset(g) for g in groups.values()}


# ----------------------------------------------------------------------------------------------------------------------
# Parameter values: a loose canonical form (numbers as Decimal, everything else as str; None omitted)
# ----------------------------------------------------------------------------------------------------------------------


def _canon_value(v):
    if v is None:
        return None
    if isinstance(v, bool):
        return Decimal(int(v))
    if isinstance(v, Enum):
        return _canon_value(v.value)
    if isinstance(v, int):
        return Decimal(v)
    if isinstance(v, float):
        return Decimal(repr(v))
    if isinstance(v, Decimal):
        return v
    if isinstance(v, str):
        return v
    d = getattr(v, "__dict__", {})
    if "number" in d and "prefix" in d:  # hdl21.prefix.Prefixed: Decimal number x 10**prefix
        exp = d["prefix"].value if isinstance(d["prefix"], Enum) else getattr(d["prefix"], "value", d["prefix"])
        try:
            return Decimal(d["number"]).scaleb(int(exp))
        except (TypeError, ValueError, InvalidOperation):
            return str(v)
    if "text" in d and len(d) <= 2:  # hdl21.Literal
        return str(d["text"])
    return str(v)


def _design_params(params) -> Dict[str, Any]:
    out = {}
    if params is None:
        return out
    if isinstance(params, dict):
        items = params.items()
    elif is_dataclass(params):
        items = [(f.name, getattr(params, f.name)) for f in _dc_fields(params)]
    else:
        return {"<params>": str(params)}
    for k, v in items:
        c = _canon_value(v)
        if c is not None:
            out[str(k)] = c
    return out


def _same_value(a, b) -> bool:
    def num(x):
        if isinstance(x, Decimal):
            return x
        try:
            return Decimal(str(x))
        except (InvalidOperation, ValueError):
            return None

    na, nb = num(a), num(b)
    if na is not None and nb is not None:
        if na == nb:
            return True
        scale = max(abs(na), abs(nb))
        return abs(na - nb) <= scale * Decimal("1e-12")
    return str(a) == str(b)


# ----------------------------------------------------------------------------------------------------------------------
# Design side
# ----------------------------------------------------------------------------------------------------------------------

_NOCONN = object()  # marker for "this connection is a NoConn"


def _bundle_leaves(b: Bundle, _stack=()) -> Dict[tuple, Signal]:
    """{leaf path: leaf Signal} of a bundle definition tree, recursively through sub-bundles."""
    if not isinstance(b, Bundle):
        raise InvalidDesign(f"bundle instance of non-Bundle {b!r}")
    if id(b) in _stack:
        raise InvalidDesign(f"recursive bundle definition {_ga(b, 'name')}")
    out: Dict[tuple, Signal] = {}
    for name, sig in _ga(b, "signals").items():
        out[(name,)] = sig
    for name, sub in _ga(b, "bundles").items():
        for path, sig in _bundle_leaves(_ga(sub, "of"), _stack + (id(b),)).items():
            out[(name,) + path] = sig
    return out


def _bundle_tree(b: Bundle, mk, prefix=()) -> dict:
    """Nested {member: bitlist | subtree} for a bundle definition; `mk(path, width)` makes the leaf bit list."""
    tree = {}
    for name, sig in _ga(b, "signals").items():
        tree[name] = mk(prefix + (name,), sig.width)
    for name, sub in _ga(b, "bundles").items():
        tree[name] = _bundle_tree(_ga(sub, "of"), mk, prefix + (name,))
    return tree


def _flatten_tree(tree: dict, prefix=()) -> Dict[tuple, list]:
    out = {}
    for k, v in tree.items():
        if isinstance(v, dict):
            out.update(_flatten_tree(v, prefix + (k,)))
        else:
            out[prefix + (k,)] = v
    return out


def _is_port_bundle(b: BundleInstance) -> bool:
    port = _ga(b, "port")
    return port is True or port == Visibility.PORT


class _PortTable:
    """Ports of an instantiable: name -> ("sig", width) | ("bundle", Bundle)."""

    def __init__(self, of):
        self.kind = None
        self.entries: Dict[str, tuple] = {}
        if isinstance(of, Module):
            self.kind = "module"
            for name, sig in _ga(of, "ports").items():
                self.entries[name] = ("sig", sig.width)
            for name, b in _ga(of, "bundles").items():
                if _is_port_bundle(b):
                    if name in self.entries:
                        raise InvalidDesign(f"port name {name} used twice in {of.name}")
                    self.entries[name] = ("bundle", _ga(b, "of"))
        elif isinstance(of, PrimitiveCall):
            self.kind = "leaf"
            for sig in of.prim.port_list:
                self.entries[sig.name] = ("sig", sig.width)
        elif isinstance(of, ExternalModuleCall):
            self.kind = "leaf"
            for sig in of.module.port_list:
                self.entries[sig.name] = ("sig", sig.width)
        else:
            raise InvalidDesign(f"instance of non-instantiable {of!r}")


def _identity(of):
    if isinstance(of, PrimitiveCall):
        return ("primitive", of.prim.name)
    if isinstance(of, ExternalModuleCall):
        return ("external", of.module.name)
    raise TypeError(of)


class _Env:
    """Per-(module, context) lookup tables (by object identity) and the PortRef reference log."""

    def __init__(self, m: Module):
        self.m = m
        self.sig_name = {}
        for name, s in list(_ga(m, "ports").items()) + list(_ga(m, "signals").items()):
            self.sig_name[id(s)] = name
        self.bundle_name = {id(b): name for name, b in _ga(m, "bundles").items()}
        self.inst_kind = {}
        for name, i in _ga(m, "instances").items():
            self.inst_kind[id(i)] = ("inst", name, i)
        for name, i in _ga(m, "instarrays").items():
            self.inst_kind[id(i)] = ("arr", name, i)
        for name, i in _ga(m, "instbundles").items():
            self.inst_kind[id(i)] = ("bundle", name, i)
        # {(id(target inst), port): set of referrers (id(inst), port)}
        self.referenced: Dict[tuple, set] = {}
        self.referrer = None


class _DesignInterp:
    def __init__(self):
        self.uf = _UF()
        self.devices = []
        self.terminals = []

    # -- nodes ---------------------------------------------------------------------------------------------------------
    @staticmethod
    def sig_nodes(ctx, name, width):
        return [("sig", ctx, name, i) for i in range(width)]

    @staticmethod
    def bundle_nodes(ctx, bname, b: Bundle):
        return _bundle_tree(b, lambda path, w: [("bnd", ctx, bname, path, i) for i in range(w)])

    def port_nodes(self, ctx, seg, table: _PortTable, pname):
        """portnode(I, p, .): the child's own port nodes (Module target) or the device terminals (leaf target)."""
        kind = table.entries[pname]
        sub = ctx + (seg,)
        if table.kind == "leaf":
            return [("dev", sub, pname, k) for k in range(kind[1])]
        if kind[0] == "sig":
            return self.sig_nodes(sub, pname, kind[1])
        return self.bundle_nodes(sub, pname, kind[1])

    # -- connectable values --------------------------------------------------------------------------------------------
    def value(self, c, ctx, env: _Env):
        """bitlist(c) (a list of nodes, index 0 = LSB) or, for bundle-like connectables, a {member: ...} tree."""
        if isinstance(c, Signal):
            name = env.sig_name.get(id(c))
            if name is None:
                raise InvalidDesign(f"signal {c.name!r} is not a signal of module {env.m.name}")
            return self.sig_nodes(ctx, name, c.width)

        if isinstance(c, Slice):
            pb = self.value(c.parent, ctx, env)
            if isinstance(pb, dict):
                raise InvalidDesign("slice of a bundle-valued connectable")
            idx = c.index
            if isinstance(idx, bool) or not isinstance(idx, (int, slice)):
                raise InvalidDesign(f"bad slice index {idx!r}")
            try:
                got = pb[idx]  # Python's own list semantics
            except (IndexError, ValueError, TypeError) as e:
                raise InvalidDesign(f"bad index {idx!r} into {len(pb)} bits: {e}")
            if isinstance(idx, int):
                return [got]
            if not got:
                raise InvalidDesign(f"{idx!r} selects nothing of {len(pb)} bits")
            return got

        if isinstance(c, Concat):
            out = []
            for part in c.parts:
                pv = self.value(part, ctx, env)
                if isinstance(pv, dict):
                    raise InvalidDesign("bundle-valued part in a Concat")
                out.extend(pv)
            if not out:
                raise InvalidDesign("empty Concat")
            return out

        if isinstance(c, PortRef):
            ent = env.inst_kind.get(id(c.inst))
            if ent is None:
                raise InvalidDesign(f"port reference {c.portname!r} to an instance outside module {env.m.name}")
            kind, name, inst = ent
            if kind != "inst":
                raise Unsupported(f"port reference into instance {kind} {name}: no rule defines its bit list")
            table = _PortTable(_ga(inst, "of"))
            if c.portname not in table.entries:
                raise InvalidDesign(f"port reference to non-existent port {name}.{c.portname}")
            env.referenced.setdefault((id(inst), c.portname), set()).add(env.referrer)
            return self.port_nodes(ctx, name, table, c.portname)

        if isinstance(c, NoConn):
            raise Unsupported("NoConn nested inside another connectable (it has no width of its own)")

        if isinstance(c, BundleInstance):
            name = env.bundle_name.get(id(c))
            if name is None:
                raise InvalidDesign(f"bundle instance {_ga(c, 'name')!r} is not in module {env.m.name}")
            return self.bundle_nodes(ctx, name, _ga(c, "of"))

        if isinstance(c, BundleRef):
            path = []
            cur = c
            while isinstance(cur, BundleRef):
                path.append(_ga(cur, "attrname"))
                cur = _ga(cur, "parent")
            if not isinstance(cur, BundleInstance):
                raise InvalidDesign("bundle reference without a root bundle instance")
            v = self.value(cur, ctx, env)
            for seg in reversed(path):
                if not isinstance(v, dict) or seg not in v:
                    raise InvalidDesign(f"bundle reference to non-existent member {'.'.join(reversed(path))}")
                v = v[seg]
            return v

        if isinstance(c, AnonymousBundle):
            return {k: self.value(v, ctx, env) for k, v in _ga(c, "_namespace").items()}

        if isinstance(c, dict):
            return {k: self.value(v, ctx, env) for k, v in c.items()}

        raise InvalidDesign(f"non-connectable {type(c).__name__} used as a connection")

    def unify(self, pn, v, what):
        if isinstance(pn, dict) != isinstance(v, dict):
            raise InvalidDesign(f"{what}: bundle-valued vs. scalar connection")
        if isinstance(pn, dict):
            fp, fv = _flatten_tree(pn), _flatten_tree(v)
            if set(fp) != set(fv):
                raise InvalidDesign(f"{what}: bundle members differ: port has {sorted(fp)}, connection {sorted(fv)}")
            for path in fp:
                self.unify(fp[path], fv[path], f"{what}.{'.'.join(path)}")
            return
        if len(pn) != len(v):
            raise InvalidDesign(f"{what}: port width {len(pn)} != connection width {len(v)}")
        for a, b in zip(pn, v):
            self.uf.union(a, b)

    # -- B-typed connection test for instance bundles ------------------------------------------------------------------
    @staticmethod
    def _memberwise(c, b: Bundle) -> bool:
        names = set(_ga(b, "namespace").keys())
        if isinstance(c, BundleInstance):
            return _ga(c, "of") is b
        if isinstance(c, AnonymousBundle):
            return set(_ga(c, "_namespace").keys()) == names
        if isinstance(c, BundleRef):  # reference to a B-typed sub-bundle instance
            chain = []
            cur = c
            while isinstance(cur, BundleRef):
                chain.append(_ga(cur, "attrname"))
                cur = _ga(cur, "parent")
            if not isinstance(cur, BundleInstance):
                return False
            bdef = _ga(cur, "of")
            for seg in reversed(chain):
                sub = _ga(bdef, "bundles").get(seg)
                if sub is None:
                    return False
                bdef = _ga(sub, "of")
            return bdef is b
        return False

    # -- modules -------------------------------------------------------------------------------------------------------
    def module(self, m: Module, ctx: tuple, stack: tuple):
        if not isinstance(m, Module):
            raise InvalidDesign(f"not a Module: {m!r}")
        if id(m) in stack:
            raise InvalidDesign(f"module {m.name} instantiates itself")
        env = _Env(m)

        # 1. evaluate every live connection (logging which ports are referred to through PortRefs)
        raw: Dict[int, Dict[str, Any]] = {}
        order = []
        for kind, name, inst in list(env.inst_kind.values()):
            order.append((kind, name, inst))
            vals = {}
            for pname, c in _ga(inst, "conns").items():
                env.referrer = (id(inst), pname)
                vals[pname] = _NOCONN if isinstance(c, NoConn) else self.value(c, ctx, env)
            raw[id(inst)] = vals

        # 2. expand instance-likes into element instances: (path segment, target, {port: value})
        elements = []
        for kind, name, inst in order:
            of = _ga(inst, "of")
            table = _PortTable(of)
            vals = raw[id(inst)]
            conns = _ga(inst, "conns")
            for pname in vals:
                if pname not in table.entries:
                    raise InvalidDesign(f"{m.name}.{name}: connection to non-existent port {pname!r}")
            if kind == "inst":
                elements.append((name, name, inst, of, table, vals))
            elif kind == "arr":
                n = _ga(inst, "n")
                if not isinstance(n, int) or n < 1:
                    raise InvalidDesign(f"{m.name}.{name}: array size {n!r}")
                for k in range(n):
                    ev = {}
                    for pname, v in vals.items():
                        if v is _NOCONN or isinstance(v, dict):
                            ev[pname] = v  # bundle-valued connections (and no-connects) go to every element
                            continue
                        pk = table.entries[pname]
                        if pk[0] != "sig":
                            raise InvalidDesign(f"{m.name}.{name}.{pname}: scalar connection to a bundle port")
                        w = pk[1]
                        if len(v) == w:
                            ev[pname] = v
                        elif len(v) == n * w:
                            ev[pname] = v[k * w : (k + 1) * w]
                        else:
                            raise InvalidDesign(
                                f"{m.name}.{name}.{pname}: width {len(v)} is neither {w} (broadcast) nor {n}*{w}"
                            )
                    elements.append((("arr", name, k), name, inst, of, table, ev))
            else:  # instance bundle
                b = type(inst).bundle  # plain class attribute of the InstanceBundle sub-type
                if not isinstance(b, Bundle):
                    raise InvalidDesign(f"{m.name}.{name}: instance bundle without a bundle type")
                if _ga(b, "bundles"):
                    raise Unsupported(f"{m.name}.{name}: instance bundle over a nested bundle type")
                for s in _ga(b, "signals"):
                    ev = {}
                    for pname, v in vals.items():
                        if v is not _NOCONN and self._memberwise(conns[pname], b):
                            if s not in v:
                                raise InvalidDesign(f"{m.name}.{name}.{pname}: no member {s!r} in the connection")
                            ev[pname] = v[s]
                        else:
                            ev[pname] = v
                    elements.append((("bundle", name, s), name, inst, of, table, ev))

        # 3. connect + recurse
        for seg, name, inst, of, table, vals in elements:
            for pname in table.entries:
                refs = env.referenced.get((id(inst), pname), set()) - {(id(inst), pname)}
                if pname in vals:
                    v = vals[pname]
                    if v is _NOCONN:
                        # fresh private nodes: nothing to union; but the net must contain nothing else
                        if refs:
                            raise InvalidDesign(f"{m.name}.{name}.{pname}: a no-connected port is referred to elsewhere")
                        continue
                    self.unify(self.port_nodes(ctx, seg, table, pname), v, f"{m.name}.{name}.{pname}")
                elif not refs:
                    raise InvalidDesign(f"{m.name}.{name}: port {pname!r} is not connected")
            sub = ctx + (seg,)
            if table.kind == "module":
                self.module(of, sub, stack + (id(m),))
            else:
                params = _design_params(of.params)
                self.devices.append((sub, _identity(of), params))
                for pname, pk in table.entries.items():
                    self.terminals.extend(("dev", sub, pname, k) for k in range(pk[1]))


def _expand_bundle_port(b: BundleInstance, names: list, flips: int, out: list, leaves: list):
    """Scalar ports of a bundle-valued port, with the documented direction rules."""
    bdef = _ga(b, "of")
    role = _ga(b, "role")
    for sname, sig in _ga(bdef, "signals").items():
        if sig.vis == Visibility.PORT:
            d = sig.direction
            if flips % 2 == 1:
                d = {PortDir.INPUT: PortDir.OUTPUT, PortDir.OUTPUT: PortDir.INPUT}.get(d, d)
        elif role is not None and sig.src is not None and role == sig.src:
            d = PortDir.OUTPUT
        elif role is not None and sig.dest is not None and role == sig.dest:
            d = PortDir.INPUT
        else:
            d = PortDir.NONE
        out.append(("_".join(names + [sname]), sig.width, d.name))
        leaves.append(tuple(names[1:] + [sname]))
    for subname, sub in _ga(bdef, "bundles").items():
        _expand_bundle_port(sub, names + [subname], flips + (1 if _ga(sub, "flipped") else 0), out, leaves)


def meaning(top) -> Meaning:
    """Electrical meaning of the un-elaborated module `top`. Does not mutate the design."""
    if not isinstance(top, Module):
        raise TypeError(f"meaning() needs an hdl21.Module, got {type(top).__name__}")
    it = _DesignInterp()
    it.module(top, (), ())

    ports: List[Tuple[str, int, str]] = []
    port_terms = []
    for name, sig in _ga(top, "ports").items():
        ports.append((name, sig.width, sig.direction.name))
        for i in range(sig.width):
            t = ("port", name, i)
            it.uf.union(t, ("sig", (), name, i))
            port_terms.append(t)
    n_plain = len(ports)
    for bname, b in _ga(top, "bundles").items():
        if not _is_port_bundle(b):
            continue
        exp, leaves = [], []
        _expand_bundle_port(b, [bname], 1 if _ga(b, "flipped") else 0, exp, leaves)
        for (pname, w, d), path in zip(exp, leaves):
            ports.append((pname, w, d))
            for i in range(w):
                t = ("port", pname, i)
                it.uf.union(t, ("bnd", (), bname, path, i))
                port_terms.append(t)
    seen = set()
    for name, _, _ in ports:
        if name in seen:
            raise InvalidDesign(f"top-level port name {name!r} arises twice")
        seen.add(name)
    paths = [d[0] for d in it.devices]
    if len(set(paths)) != len(paths):
        raise InvalidDesign("two instances share a name")
    terminals = port_terms + it.terminals
    return Meaning(ports=ports, devices=it.devices, nets=_partition(it.uf, terminals), n_plain_ports=n_plain)


# ----------------------------------------------------------------------------------------------------------------------
# Package side (what the vlsirtools netlisters would write)
# ----------------------------------------------------------------------------------------------------------------------

# vlsir.primitives name -> (Hdl21 primitive name, ports)   [vlsir spec]
_VLSIR_PRIMS = {
    "resistor": ("IdealResistor", ("p", "n")),
    "capacitor": ("IdealCapacitor", ("p", "n")),
    "inductor": ("IdealInductor", ("p", "n")),
    "vdc": ("DcVoltageSource", ("p", "n")),
    "vpulse": ("PulseVoltageSource", ("p", "n")),
    "vsin": ("SineVoltageSource", ("p", "n")),
    "isource": ("CurrentSource", ("p", "n")),
    "vcvs": ("VoltageControlledVoltageSource", ("p", "n", "cp", "cn")),
    "ccvs": ("CurrentControlledVoltageSource", ("p", "n", "cp", "cn")),
    "vccs": ("VoltageControlledCurrentSource", ("p", "n", "cp", "cn")),
    "cccs": ("CurrentControlledCurrentSource", ("p", "n", "cp", "cn")),
}
# Hdl21 physical primitives -> ports   [readme table]
_HDL21_PRIMS = {
    "Mos": ("d", "g", "s", "b"),
    "PhysicalResistor": ("p", "n"),
    "ThreeTerminalResistor": ("p", "n", "b"),
    "PhysicalCapacitor": ("p", "n"),
    "ThreeTerminalCapacitor": ("p", "n", "b"),
    "PhysicalInductor": ("p", "n"),
    "ThreeTerminalInductor": ("p", "n", "b"),
    "PhysicalShort": ("p", "n"),
    "Bipolar": ("c", "b", "e"),
    "Diode": ("p", "n"),
}
for _name, (_hname, _ports) in list(_VLSIR_PRIMS.items()):
    _HDL21_PRIMS.setdefault(_hname, _ports)
# Parameter names of the pulse source differ between Hdl21 and vlsir.primitives.vpulse
_PARAM_ALIASES = {
    "PulseVoltageSource": {"delay": "td", "rise": "tr", "fall": "tf", "width": "tpw", "period": "tper"},
}
_SI_EXP = {
    "YOCTO": -24, "ZEPTO": -21, "ATTO": -18, "FEMTO": -15, "PICO": -12, "NANO": -9, "MICRO": -6, "MILLI": -3,
    "CENTI": -2, "DECI": -1, "DECA": 1, "HECTO": 2, "KILO": 3, "MEGA": 6, "GIGA": 9, "TERA": 12, "PETA": 15,
    "EXA": 18, "ZETTA": 21, "YOTTA": 24, "UNIT": 0,
}  # fmt: skip
_DIRS = {0: "INPUT", 1: "OUTPUT", 2: "INOUT", 3: "NONE"}


def _pkg_param_value(pv):
    which = pv.WhichOneof("value")
    if which is None:
        return None
    if which == "bool_value":
        return Decimal(int(pv.bool_value))
    if which == "int64_value":
        return Decimal(pv.int64_value)
    if which == "double_value":
        return Decimal(repr(pv.double_value))
    if which in ("string_value", "literal"):
        return getattr(pv, which)
    if which == "prefixed":
        pre = pv.prefixed
        import vlsir.utils_pb2 as vutils

        exp = _SI_EXP[vutils.SIPrefix.Name(pre.prefix)]
        nw = pre.WhichOneof("number")
        if nw == "int64_value":
            num = Decimal(pre.int64_value)
        elif nw == "double_value":
            num = Decimal(repr(pre.double_value))
        elif nw == "string_value":
            try:
                num = Decimal(pre.string_value)
            except InvalidOperation:
                return f"{pre.string_value}e{exp}"
        else:
            return None
        return num.scaleb(exp)
    return str(pv)


class _PkgInterp:
    def __init__(self, pkg, concat_msb_first: bool):
        self.uf = _UF()
        self.devices = []
        self.terminals = []
        self.msb_first = concat_msb_first
        self.mods = {}
        for m in pkg.modules:
            if m.name in self.mods:
                raise InvalidPackage(f"two modules named {m.name}")
            self.mods[m.name] = m
        self.exts = {}
        for e in pkg.ext_modules:
            self.exts[(e.name.domain, e.name.name)] = e

    @staticmethod
    def widths(pm) -> Dict[str, int]:
        out = {}
        for s in pm.signals:
            if s.name in out:
                raise InvalidPackage(f"{pm.name}: two signals named {s.name}")
            if s.width < 1:
                raise InvalidPackage(f"{pm.name}: signal {s.name} of width {s.width}")
            out[s.name] = s.width
        return out

    def port_widths(self, pm) -> Dict[str, int]:
        w = self.widths(pm)
        out = {}
        for p in pm.ports:
            if p.signal not in w:
                raise InvalidPackage(f"{pm.name}: port {p.signal} has no signal")
            if p.signal in out:
                raise InvalidPackage(f"{pm.name}: port {p.signal} listed twice")
            out[p.signal] = w[p.signal]
        return out

    def target_bits(self, t, ctx, w, where):
        kind = t.WhichOneof("stype")
        if kind == "sig":
            if t.sig not in w:
                raise InvalidPackage(f"{where}: no signal {t.sig}")
            return [("sig", ctx, t.sig, i) for i in range(w[t.sig])]
        if kind == "slice":
            s = t.slice
            if s.signal not in w:
                raise InvalidPackage(f"{where}: no signal {s.signal}")
            if not (0 <= s.bot <= s.top < w[s.signal]):
                raise InvalidPackage(f"{where}: slice {s.signal}[{s.top}:{s.bot}] outside width {w[s.signal]}")
            return [("sig", ctx, s.signal, i) for i in range(s.bot, s.top + 1)]
        if kind == "concat":
            parts = [self.target_bits(p, ctx, w, where) for p in t.concat.parts]
            if self.msb_first:  # netlisters write parts in listed order, buses MSB first => part 0 is the MSB end
                parts = list(reversed(parts))
            out = []
            for p in parts:
                out.extend(p)
            if not out:
                raise InvalidPackage(f"{where}: empty concatenation")
            return out
        raise InvalidPackage(f"{where}: empty connection target")

    def module(self, pm, ctx, stack):
        if pm.name in stack:
            raise InvalidPackage(f"module {pm.name} instantiates itself")
        w = self.widths(pm)
        self.port_widths(pm)
        seen = set()
        for inst in pm.instances:
            if inst.name in seen:
                raise InvalidPackage(f"{pm.name}: two instances named {inst.name}")
            seen.add(inst.name)
            where = f"{pm.name}.{inst.name}"
            sub = ctx + (inst.name,)
            to = inst.module.WhichOneof("to")
            child = None
            ident = None
            if to == "local":
                child = self.mods.get(inst.module.local)
                if child is None:
                    raise InvalidPackage(f"{where}: undefined module {inst.module.local}")
                pw = self.port_widths(child)
            elif to == "external":
                dom, nm = inst.module.external.domain, inst.module.external.name
                if (dom, nm) in self.exts:
                    e = self.exts[(dom, nm)]
                    pw = self.port_widths(e)
                    ident = ("external", nm)
                elif dom == "vlsir.primitives" and nm in _VLSIR_PRIMS:
                    hname, pports = _VLSIR_PRIMS[nm]
                    pw = {p: 1 for p in pports}
                    ident = ("primitive", hname)
                elif dom in ("hdl21.primitives", "hdl21.ideal") and nm in _HDL21_PRIMS:
                    pw = {p: 1 for p in _HDL21_PRIMS[nm]}
                    ident = ("primitive", nm)
                else:
                    raise InvalidPackage(f"{where}: undefined external module {dom}/{nm}")
            else:
                raise InvalidPackage(f"{where}: instance without a module reference")

            done = set()
            for conn in inst.connections:
                p = conn.portname
                if p in done:
                    raise InvalidPackage(f"{where}: port {p} connected twice")
                done.add(p)
                if p not in pw:
                    raise InvalidPackage(f"{where}: connection to non-existent port {p}")
                bits = self.target_bits(conn.target, ctx, w, f"{where}.{p}")
                if len(bits) != pw[p]:
                    raise InvalidPackage(f"{where}.{p}: port width {pw[p]} != connection width {len(bits)}")
                for k, b in enumerate(bits):
                    node = ("sig", sub, p, k) if child is not None else ("dev", sub, p, k)
                    self.uf.union(node, b)
            missing = [p for p in pw if p not in done]
            if missing:
                raise InvalidPackage(f"{where}: unconnected port(s) {missing}")

            if child is not None:
                self.module(child, sub, stack + (pm.name,))
            else:
                params = {}
                for prm in inst.parameters:
                    v = _pkg_param_value(prm.value)
                    if v is not None:
                        params[prm.name] = v
                self.devices.append((sub, ident, params))
                for p, wd in pw.items():
                    self.terminals.extend(("dev", sub, p, k) for k in range(wd))


def package_meaning(pkg, top_name: str, concat_msb_first: bool = True) -> Meaning:
    """Meaning of module `top_name` of an exported package, read as the vlsirtools netlisters read it.

    `top_name` may be the exported (path-qualified) name or its unqualified tail.
    `concat_msb_first=False` gives the *other* reading of vlsir Concat (part 0 least significant); it exists only so
    that callers can classify a disagreement as "explained by the Concat part-order convention".
    """
    it = _PkgInterp(pkg, concat_msb_first)
    if top_name in it.mods:
        top = it.mods[top_name]
    else:
        cands = [m for n, m in it.mods.items() if n.endswith("." + top_name)]
        if len(cands) != 1:
            raise InvalidPackage(f"top module {top_name!r}: {len(cands)} candidates among {sorted(it.mods)}")
        top = cands[0]
    it.module(top, (), ())
    w = it.widths(top)
    ports, port_terms = [], []
    for p in top.ports:
        ports.append((p.signal, w[p.signal], _DIRS.get(p.direction, str(p.direction))))
        for i in range(w[p.signal]):
            t = ("port", p.signal, i)
            it.uf.union(t, ("sig", (), p.signal, i))
            port_terms.append(t)
    return Meaning(ports=ports, devices=it.devices, nets=_partition(it.uf, port_terms + it.terminals))


# ----------------------------------------------------------------------------------------------------------------------
# Comparison
# ----------------------------------------------------------------------------------------------------------------------


def _seg_matches(dseg, pname: str) -> bool:
    if isinstance(dseg, str):
        return dseg == pname
    kind, name, sub = dseg
    if kind in ("arr", "bundle"):
        return re.fullmatch(re.escape(f"{name}_{sub}") + "_*", pname) is not None
    return False


def _match_children(dsegs, pnames):
    """One-to-one matching of design path segments to exported instance names (exact names first)."""
    dsegs = sorted(dsegs, key=lambda s: (not isinstance(s, str), repr(s)))
    pnames = sorted(pnames, key=lambda n: (len(n), n))
    match_p: Dict[str, Any] = {}

    def try_assign(d, seen):
        for p in pnames:
            if p in seen or not _seg_matches(d, p):
                continue
            seen.add(p)
            if p not in match_p or try_assign(match_p[p], seen):
                match_p[p] = d
                return True
        return False

    unmatched_d = [d for d in dsegs if not try_assign(d, set())]
    inv = {repr(d): p for p, d in match_p.items()}
    unmatched_p = [p for p in pnames if p not in match_p]
    return inv, unmatched_d, unmatched_p


def _match_paths(dpaths, ppaths, diffs):
    """Map design device paths onto package device paths, level by level (i.e. per instantiated module)."""
    mapping = {}

    def rec(dprefix, pprefix, dset, pset):
        dkids: Dict[str, list] = {}
        dseg_of = {}
        for path in dset:
            seg = path[len(dprefix)]
            dkids.setdefault(repr(seg), []).append(path)
            dseg_of[repr(seg)] = seg
        pkids: Dict[str, list] = {}
        for path in pset:
            pkids.setdefault(path[len(pprefix)], []).append(path)
        inv, und, unp = _match_children(list(dseg_of.values()), list(pkids))
        for d in und:
            diffs.append(f"design instance {_fmt_path(dprefix + (d,))} has no counterpart in the package")
        for p in unp:
            diffs.append(f"package instance {'.'.join(pprefix + (p,))} has no counterpart in the design")
        for dkey, pname in inv.items():
            seg = dseg_of[dkey]
            dsub, psub = dkids[dkey], pkids[pname]
            dleaf = [x for x in dsub if len(x) == len(dprefix) + 1]
            pleaf = [x for x in psub if len(x) == len(pprefix) + 1]
            if dleaf and pleaf:
                mapping[dleaf[0]] = pleaf[0]
            elif dleaf or pleaf:
                diffs.append(f"{_fmt_path(dprefix + (seg,))}: leaf device on one side, hierarchy on the other")
                continue
            drest = [x for x in dsub if len(x) > len(dprefix) + 1]
            prest = [x for x in psub if len(x) > len(pprefix) + 1]
            if drest or prest:
                rec(dprefix + (seg,), pprefix + (pname,), drest, prest)

    rec((), (), list(dpaths), list(ppaths))
    return mapping


def _fmt_path(path) -> str:
    out = []
    for s in path:
        out.append(s if isinstance(s, str) else f"{s[1]}[{s[2]}]")
    return ".".join(out)


def _fmt_term(t) -> str:
    if t[0] == "port":
        return f"port {t[1]}[{t[2]}]"
    return f"{_fmt_path(t[1])}.{t[2]}[{t[3]}]"


def _fmt_net(net) -> str:
    return "{" + ", ".join(sorted(_fmt_term(t) for t in net)) + "}"


def compare(m_design: Meaning, m_pkg: Meaning, max_net_diffs: int = 6) -> List[str]:
    """[] when both meanings are the same circuit, else human-readable differences.

    Plain ports are compared in order (port order is observable in netlists). Hdl21 appends the scalar ports of
    expanded bundle-valued ports in an order of its own (bundle instances are popped last-first, sub-bundle leaves
    after direct leaves), which the documentation does not fix: bundle-expanded ports are therefore compared as a set.
    Design path segments ("arr", name, k) / ("bundle", name, s) are matched one-to-one against exported instance
    names ^name_k_*$ / ^name_s_*$ within each instantiated module.
    """
    diffs: List[str] = []

    # ports
    n = m_design.n_plain_ports
    dp, pp = m_design.ports, m_pkg.ports
    if dp[:n] != pp[:n]:
        diffs.append(f"plain ports differ: design {dp[:n]} vs package {pp[:n]}")
    if sorted(dp[n:]) != sorted(pp[n:]):
        diffs.append(f"bundle-expanded ports differ: design {sorted(dp[n:])} vs package {sorted(pp[n:])}")

    # devices
    ddev = {d[0]: d for d in m_design.devices}
    pdev = {d[0]: d for d in m_pkg.devices}
    mapping = _match_paths(list(ddev), list(pdev), diffs)
    for dpath, ppath in mapping.items():
        _, dident, dparams = ddev[dpath]
        _, pident, pparams = pdev[ppath]
        if dident != pident:
            diffs.append(f"device {_fmt_path(dpath)}: design {dident} vs package {pident}")
            continue
        alias = _PARAM_ALIASES.get(dident[1], {}) if dident[0] == "primitive" else {}
        dpar = {alias.get(k, k): v for k, v in dparams.items()}
        for k in sorted(set(dpar) | set(pparams)):
            if k not in dpar or k not in pparams:
                diffs.append(
                    f"device {_fmt_path(dpath)}: param {k}: design {dpar.get(k, '<absent>')} vs "
                    f"package {pparams.get(k, '<absent>')}"
                )
            elif not _same_value(dpar[k], pparams[k]):
                diffs.append(f"device {_fmt_path(dpath)}: param {k}: design {dpar[k]} vs package {pparams[k]}")

    # nets: express the package partition in design path names, on the terminals both sides have
    back = {p: d for d, p in mapping.items()}

    def to_design(t):
        if t[0] == "port":
            return t
        d = back.get(t[1])
        return None if d is None else ("dev", d, t[2], t[3])

    pnets = set()
    for net in m_pkg.nets:
        tr = frozenset(x for x in (to_design(t) for t in net) if x is not None)
        if tr:
            pnets.add(tr)
    dterms = set().union(*m_design.nets) if m_design.nets else set()
    pterms = set().union(*pnets) if pnets else set()
    for t in sorted(dterms - pterms, key=repr)[:max_net_diffs]:
        if t[0] == "port" or t[1] in mapping:
            diffs.append(f"terminal {_fmt_term(t)} exists only in the design")
    for t in sorted(pterms - dterms, key=repr)[:max_net_diffs]:
        diffs.append(f"terminal {_fmt_term(t)} exists only in the package")
    common = dterms & pterms
    dn = {frozenset(n & common) for n in m_design.nets} - {frozenset()}
    pn = {frozenset(n & common) for n in pnets} - {frozenset()}
    if dn != pn:
        p_of = {}
        for net in pn:
            for t in net:
                p_of[t] = net
        shown = 0
        for net in sorted(dn - pn, key=lambda s: sorted(map(repr, s))):
            if shown >= max_net_diffs:
                diffs.append(f"... and {len(dn - pn) - shown} more differing nets")
                break
            others = {p_of[t] for t in net}
            diffs.append(
                f"net differs: design {_fmt_net(net)} vs package " + " + ".join(sorted(_fmt_net(o) for o in others))
            )
            shown += 1
    return diffs
