"""Reference semantics of connectables as explicit bit lists (trusted specification, independent of Hdl21's width /
top / bot arithmetic: only Python list operations on explicit lists)."""
from pyvc import loader
loader.ensure_paths()
import hdl21 as h
from hdl21.signal import Signal
from hdl21.slice import Slice
from hdl21.concat import Concat


class Invalid(Exception):
    """The connectable has no meaning (index out of range, empty selection)."""


def bits(conn):
    """List of (signal, bit index) with position 0 least significant - the designer-level meaning."""
    if isinstance(conn, Signal):
        return [(conn, i) for i in range(conn.width)]
    if isinstance(conn, Slice):
        pb = bits(conn.parent)
        idx = conn.index
        if isinstance(idx, int) and not isinstance(idx, bool):
            if not (-len(pb) <= idx < len(pb)):
                raise Invalid(f"index {idx} out of range of {len(pb)} bits")
            return [pb[idx]]
        if isinstance(idx, slice):
            if idx.step == 0:
                raise Invalid("zero step")
            r = pb[idx]
            if not r:
                raise Invalid(f"{idx} selects nothing of {len(pb)} bits")
            return r
        raise Invalid(f"bad index {idx!r}")
    if isinstance(conn, Concat):
        out = []
        for p in conn.parts:
            out.extend(bits(p))
        return out
    ref = getattr(conn, "resolved", None)
    if ref is not None:
        return bits(ref)
    raise TypeError(f"bits() of {type(conn).__name__}")


def sel(slize):
    """Positions a Slice denotes as the *consumers* of SliceInner read it (top exclusive, bot inclusive;
    positive steps run up from bot, negative steps run down from top-1)."""
    top, bot, step, width = slize.top, slize.bot, slize.step, slize.width
    if step > 0:
        return [bot + k * step for k in range(width)]
    return [top - 1 + k * step for k in range(width)]


def implbits(conn):
    """Meaning of a *resolved* connectable: Signal | Slice-of-Signal | Concat of those, read through sel()."""
    if isinstance(conn, Signal):
        return [(conn, i) for i in range(conn.width)]
    if isinstance(conn, Slice):
        if not isinstance(conn.parent, Signal):
            raise AssertionError(f"resolved slice has non-Signal parent {type(conn.parent).__name__}")
        return [(conn.parent, i) for i in sel(conn)]
    if isinstance(conn, Concat):
        out = []
        for p in conn.parts:
            out.extend(implbits(p))      # nested concatenations are legal for the exporter (exported recursively)
        return out
    raise AssertionError(f"resolved connectable of type {type(conn).__name__}")
