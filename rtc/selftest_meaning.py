"""Self-test of the reference interpreter (rtc/meaning.py) against Hdl21's own export.

Part 1: hand-verified tiny designs - the expected ports / devices / net partition are written out by hand and asserted.
Part 2: for every design of designs(seed=0, n_random=300):
            m1 = meaning(builder());  pkg = h.to_proto(builder());  m2 = package_meaning(pkg, top);  compare(m1, m2)
        one line per disagreement / exception, then a per-feature summary.

Disagreement classes
  CONCAT-ORDER   the only difference is the vlsir Concat part order (vanishes when parts are read LSB-first)
  DIFF           the circuits differ (also with the other Concat reading)
  HDL21-REJECT   Hdl21 refused a design the oracle accepts
  ORACLE-REJECT  the oracle says InvalidDesign although the family is meant to be valid
  PKG-INVALID    the exported package is not a well-formed circuit
  UNSUPPORTED / ORACLE-ERROR   the oracle declined / crashed
  ORACLE-MUTATED the design object read by the oracle exports differently from a fresh build (oracle changed it)

Two sanity checks ride along: (a) the object the oracle has read is exported too and must give the same circuit as
the fresh build (the oracle must not mutate designs); (b) on agreeing designs the package is perturbed (two
connections of an instance swapped) and compare() must notice.

Usage: selftest_meaning.py [-v] [--n N] [--seed S] [--only SUBSTR] [--big]
"""
import argparse
import os
import sys
import time
import traceback
from collections import Counter, defaultdict

_ROOT = os.path.dirname(os.path.dirname(os.path.abspath(__file__)))
if _ROOT not in sys.path:
    sys.path.insert(0, _ROOT)

from rtc.meaning import (  # noqa: E402
    InvalidDesign,
    InvalidPackage,
    Meaning,
    Unsupported,
    compare,
    meaning,
    package_meaning,
)
from rtc.designs import designs, KNOWN_TROUBLE  # noqa: E402
import hdl21 as h  # noqa: E402
import vlsir.circuit_pb2 as vckt  # noqa: E402


# ----------------------------------------------------------------------------------------------------------------------
# Part 1: hand-verified designs
# ----------------------------------------------------------------------------------------------------------------------


def P(name, bit=0):
    return ("port", name, bit)


def D(path, port, bit=0):
    if isinstance(path, str):
        path = (path,)
    return ("dev", tuple(path), port, bit)


def nets(*groups):
    return {frozenset(g) for g in groups}


def ext(name, **ports):
    return h.ExternalModule(name=name, port_list=[h.Port(name=k, width=w) for k, w in ports.items()], paramtype=dict)


def hand_tests():
    R = h.R(r=1000)

    # H1  one resistor between two ports
    m = h.Module(name="H1")
    m.p, m.n = h.Input(), h.Output()
    m.r = R(p=m.p, n=m.n)
    got = meaning(m)
    assert got.ports == [("p", 1, "INPUT"), ("n", 1, "OUTPUT")], got.ports
    assert got.devices == [(("r",), ("primitive", "IdealResistor"), {"r": 1000})], got.devices
    assert got.nets == nets([P("p"), D("r", "p")], [P("n"), D("r", "n")]), got.nets

    # H2  reversed and strided slices of a 4-bit bus on a 4-bit / 2-bit external port
    E4, E2 = ext("E4", a=4), ext("E2", a=2)
    m = h.Module(name="H2")
    m.bus = h.Port(width=4)
    m.e = E4()(a=m.bus[::-1])
    m.f = E2()(a=m.bus[1::2])
    got = meaning(m)
    assert got.nets == nets(
        [P("bus", 0), D("e", "a", 3)],
        [P("bus", 1), D("e", "a", 2), D("f", "a", 0)],
        [P("bus", 2), D("e", "a", 1)],
        [P("bus", 3), D("e", "a", 0), D("f", "a", 1)],
    ), got.nets

    # H3  Concat: part 0 is the least significant; negative index; slice of a concat
    E3 = ext("E3", a=3)
    m = h.Module(name="H3")
    m.x = h.Port()
    m.y = h.Port(width=2)
    m.e = E3()(a=h.Concat(m.x, m.y))
    m.f = E2()(a=h.Concat(m.y, m.x)[1:])  # bits (y1, x)
    m.r = R(p=m.y[-1], n=m.x)
    got = meaning(m)
    assert got.nets == nets(
        [P("x"), D("e", "a", 0), D("f", "a", 1), D("r", "n")],
        [P("y", 0), D("e", "a", 1)],
        [P("y", 1), D("e", "a", 2), D("f", "a", 0), D("r", "p")],
    ), got.nets

    # H4  port-reference chain without any explicit signal: an implicit net
    m = h.Module(name="H4")
    m.a, m.b = h.Ports(2)
    m.r0 = R(p=m.a)
    m.r1 = R(p=m.r0.n, n=m.b)
    m.r2 = R(p=m.r0.n, n=m.b)
    got = meaning(m)
    assert got.nets == nets(
        [P("a"), D("r0", "p")],
        [D("r0", "n"), D("r1", "p"), D("r2", "p")],
        [P("b"), D("r1", "n"), D("r2", "n")],
    ), got.nets

    # H5  port reference to a port that is tied to a slice keeps that connection; mutual references form one net
    m = h.Module(name="H5")
    m.bus = h.Port(width=2)
    m.i0 = R(p=m.bus[0])
    m.i1 = R(p=m.i0.p)
    m.i0.n = m.i1.n
    m.i1.n = m.i0.n
    got = meaning(m)
    assert got.nets == nets(
        [P("bus", 0), D("i0", "p"), D("i1", "p")],
        [P("bus", 1)],
        [D("i0", "n"), D("i1", "n")],
    ), got.nets

    # H6  no-connects are private per connection, also when one object (or one name) is shared
    m = h.Module(name="H6")
    m.s = h.Signal()
    nc = h.NoConn(name="s")
    m.i0 = R(p=nc, n=m.s)
    m.i1 = R(p=nc, n=m.s)
    m.i2 = R(p=h.NoConn(), n=h.NoConn())
    got = meaning(m)
    assert got.ports == []
    assert got.nets == nets(
        [D("i0", "p")], [D("i1", "p")], [D("i0", "n"), D("i1", "n")], [D("i2", "p")], [D("i2", "n")]
    ), got.nets

    # H7  instance array: per-element wiring of a 2-bit bus, broadcast of a scalar
    m = h.Module(name="H7")
    m.bus = h.Port(width=2)
    m.vss = h.Port()
    m.ar = 2 * R(p=m.bus, n=m.vss)
    got = meaning(m)
    a0, a1 = (("arr", "ar", 0),), (("arr", "ar", 1),)
    assert [d[0] for d in got.devices] == [a0, a1]
    assert got.nets == nets(
        [P("bus", 0), D(a0, "p")], [P("bus", 1), D(a1, "p")], [P("vss"), D(a0, "n"), D(a1, "n")]
    ), got.nets
    # ... and of a 2-bit external device over a 4-bit concat
    m = h.Module(name="H7b")
    m.x, m.y = h.Port(width=2), h.Port(width=2)
    m.ar = 2 * E2()(a=h.Concat(m.x, m.y))
    got = meaning(m)
    assert got.nets == nets(
        [P("x", 0), D(a0, "a", 0)], [P("x", 1), D(a0, "a", 1)], [P("y", 0), D(a1, "a", 0)], [P("y", 1), D(a1, "a", 1)]
    ), got.nets

    # H8  Pair over a Diff bundle: member-wise for the bundle, all members for a scalar
    m = h.Module(name="H8")
    m.vss = h.Port()
    m.d = h.Diff(port=True, role=h.Diff.Roles.SINK)
    m.pr = h.Pair(R)(p=m.d, n=m.vss)
    got = meaning(m)
    pp, pn = (("bundle", "pr", "p"),), (("bundle", "pr", "n"),)
    assert got.ports == [("vss", 1, "NONE"), ("d_p", 1, "INPUT"), ("d_n", 1, "INPUT")], got.ports
    assert got.n_plain_ports == 1
    assert got.nets == nets([P("d_p"), D(pp, "p")], [P("d_n"), D(pn, "p")], [P("vss"), D(pp, "n"), D(pn, "n")]), got.nets

    # H9  hierarchy: child port nodes are the child's own signals; shared child interpreted once per path
    c = h.Module(name="H9c")
    c.p = h.Port(width=2)
    c.r = R(p=c.p[0], n=c.p[1])
    m = h.Module(name="H9")
    m.bus = h.Port(width=3)
    m.u = c(p=m.bus[::-2])  # (bus2, bus0)
    m.v = c(p=h.Concat(m.bus[1], m.u.p[0]))  # (bus1, bus2)
    got = meaning(m)
    assert got.nets == nets(
        [P("bus", 0), D(("u", "r"), "n")],
        [P("bus", 1), D(("v", "r"), "p")],
        [P("bus", 2), D(("u", "r"), "p"), D(("v", "r"), "n")],
    ), got.nets

    # H10  bundle-valued ports: expansion, flips, roles; anonymous bundle / dict / bundle-ref connections
    @h.bundle
    class In:
        i = h.Input()
        o = h.Output(width=2)

    @h.bundle
    class Out:
        a = In()
        b = h.flipped(In())
        c = h.Inout()

    ch = h.Module(name="H10c")
    ch.bp = In(port=True)
    ch.e = E2()(a=ch.bp.o)
    ch.r = R(p=ch.bp.i, n=ch.bp.o[1])
    m = h.Module(name="H10")
    m.x = Out(port=True, flipped=True)
    m.u = ch(bp=m.x.a)
    m.v = ch(bp=h.bundlize(i=m.x.c, o=h.Concat(m.x.b.i, m.x.c)))
    m.w = ch(bp={"i": m.x.b.o[0], "o": m.x.b.o})
    got = meaning(m)
    assert sorted(got.ports) == sorted(
        [
            ("x_a_i", 1, "OUTPUT"), ("x_a_o", 2, "INPUT"), ("x_b_i", 1, "INPUT"), ("x_b_o", 2, "OUTPUT"),
            ("x_c", 1, "INOUT"),
        ]
    ), got.ports  # fmt: skip
    assert got.n_plain_ports == 0
    assert got.nets == nets(
        [P("x_a_i"), D(("u", "r"), "p")],
        [P("x_a_o", 0), D(("u", "e"), "a", 0)],
        [P("x_a_o", 1), D(("u", "e"), "a", 1), D(("u", "r"), "n")],
        [P("x_c"), D(("v", "r"), "p"), D(("v", "e"), "a", 1), D(("v", "r"), "n")],
        [P("x_b_i"), D(("v", "e"), "a", 0)],
        [P("x_b_o", 0), D(("w", "r"), "p"), D(("w", "e"), "a", 0)],
        [P("x_b_o", 1), D(("w", "e"), "a", 1), D(("w", "r"), "n")],
    ), got.nets

    # H11  roles
    from enum import Enum, auto

    class HD(Enum):
        HOST = auto()
        DEV = auto()

    @h.bundle
    class J:
        roles = h.RoleSet.from_enum(HD)
        tck = h.Signal(src=roles.HOST, dest=roles.DEV)
        tdo = h.Signal(width=2, src=roles.DEV, dest=roles.HOST)
        aux = h.Signal()

    m = h.Module(name="H11")
    m.jd = J(port=True, role=J.roles.DEV)
    m.jh = J(port=True, role=J.roles.HOST)
    m.jn = J(port=True)
    got = meaning(m)
    assert sorted(got.ports) == sorted(
        [
            ("jd_tck", 1, "INPUT"), ("jd_tdo", 2, "OUTPUT"), ("jd_aux", 1, "NONE"),
            ("jh_tck", 1, "OUTPUT"), ("jh_tdo", 2, "INPUT"), ("jh_aux", 1, "NONE"),
            ("jn_tck", 1, "NONE"), ("jn_tdo", 2, "NONE"), ("jn_aux", 1, "NONE"),
        ]
    ), got.ports  # fmt: skip
    assert len(got.nets) == 12 and all(len(n) == 1 for n in got.nets)

    # H12  designs without a meaning
    def invalid(build, why):
        try:
            meaning(build())
        except InvalidDesign:
            return
        raise AssertionError(f"InvalidDesign expected: {why}")

    def b1():
        m = h.Module(name="X1")
        m.bus = h.Port(width=2)
        m.r = R(p=m.bus, n=m.bus[0])
        return m

    def b2():
        m = h.Module(name="X2")
        m.a = h.Port()
        m.r = R(p=m.a)
        return m

    def b3():
        m = h.Module(name="X3")
        m.a = h.Port()
        m.r = R(p=m.a, n=m.a, q=m.a)
        return m

    def b4():
        m = h.Module(name="X4")
        m.bus = h.Port(width=2)
        m.r = R(p=m.bus[2], n=m.bus[0])
        return m

    def b5():
        m = h.Module(name="X5")
        m.bus = h.Port(width=2)
        m.e = E2()(a=m.bus[5:9])
        return m

    def b6():
        m = h.Module(name="X6")
        m.a = h.Port()
        m.r0 = R(p=h.NoConn(), n=m.a)
        m.r1 = R(p=m.r0.p, n=m.a)
        return m

    def b7():
        m = h.Module(name="X7")
        m.bus = h.Port(width=3)
        m.ar = 2 * R(p=m.bus, n=m.bus[0])
        return m

    def b8():
        other = h.Module(name="Other")
        other.s = h.Signal()
        m = h.Module(name="X8")
        m.r = R(p=other.s, n=other.s)
        return m

    def b9():
        ch = h.Module(name="X9c")
        ch.bp = In(port=True)
        m = h.Module(name="X9")
        m.a = h.Port()
        m.u = ch(bp=h.bundlize(i=m.a, o=m.a))
        return m

    for b, why in [
        (b1, "2-bit connection to a 1-bit port"), (b2, "unconnected port"), (b3, "non-existent port"),
        (b4, "index out of range"), (b5, "empty slice"), (b6, "no-connected port referred to"),
        (b7, "array width neither w nor n*w"), (b8, "foreign signal"), (b9, "bundle leaf width mismatch"),
    ]:  # fmt: skip
        invalid(b, why)

    # H13  package side, on a hand-written package: Concat part 0 is the MOST significant, Slice(top, bot) inclusive
    pkg = vckt.Package(domain="hand")
    pm = pkg.modules.add(name="hand.Top")
    pm.signals.add(name="s", width=3)
    pm.signals.add(name="t", width=1)
    pm.ports.add(signal="s", direction=vckt.Port.Direction.INOUT)
    em = pkg.ext_modules.add()
    em.name.name = "E3"
    em.signals.add(name="a", width=3)
    em.ports.add(signal="a")
    pi = pm.instances.add(name="e")
    pi.module.external.name = "E3"
    conn = pi.connections.add(portname="a")
    part0 = conn.target.concat.parts.add()
    part0.sig = "t"
    part1 = conn.target.concat.parts.add()
    part1.slice.signal, part1.slice.top, part1.slice.bot = "s", 2, 1
    pr = pm.instances.add(name="r")
    pr.module.external.domain, pr.module.external.name = "vlsir.primitives", "resistor"
    c1 = pr.connections.add(portname="p")
    c1.target.sig = "t"
    c2 = pr.connections.add(portname="n")
    c2.target.slice.signal, c2.target.slice.top, c2.target.slice.bot = "s", 0, 0
    # netlisted: e ( t s_2 s_1 ) against port order a_2 a_1 a_0
    got = package_meaning(pkg, "Top")
    assert got.ports == [("s", 3, "INOUT")]
    assert got.nets == nets(
        [P("s", 0), D("r", "n")], [P("s", 1), D("e", "a", 0)], [P("s", 2), D("e", "a", 1)], [D("e", "a", 2), D("r", "p")]
    ), got.nets
    assert got.devices[1][1] == ("primitive", "IdealResistor")
    other = package_meaning(pkg, "hand.Top", concat_msb_first=False)
    assert frozenset([D("e", "a", 0), D("r", "p")]) in other.nets

    # H14  compare(): equal circuits incl. invented array / bundle names; and a detected difference
    md = Meaning(
        ports=[("a", 1, "NONE")],
        devices=[((("arr", "x", 0),), ("primitive", "R"), {"r": 1}), ((("arr", "x", 1),), ("primitive", "R"), {"r": 1})],
        nets=nets([P("a"), D((("arr", "x", 0),), "p")], [D((("arr", "x", 1),), "p")]),
    )
    mp = Meaning(
        ports=[("a", 1, "NONE")],
        devices=[(("x_0_",), ("primitive", "R"), {"r": 1}), (("x_1",), ("primitive", "R"), {"r": 1.0})],
        nets=nets([P("a"), D("x_0_", "p")], [D("x_1", "p")]),
    )
    assert compare(md, mp) == [], compare(md, mp)
    mp.nets = nets([P("a"), D("x_0_", "p"), D("x_1", "p")])
    assert any("net differs" in d for d in compare(md, mp))
    mp.ports = [("a", 1, "INPUT")]
    assert any("plain ports differ" in d for d in compare(md, mp))

    # H15  the oracle does not mutate the design: no references are created, meaning is repeatable
    m = h.Module(name="H15")
    m.a = h.Port()
    m.i0 = R(p=m.a)
    m.i1 = R(p=m.i0.n, n=m.a)
    before = (dict(m.i0._refs.all), dict(m.i1._refs.all), dict(m.i0.conns), dict(m.i1.conns))
    g1, g2 = meaning(m), meaning(m)
    after = (dict(m.i0._refs.all), dict(m.i1._refs.all), dict(m.i0.conns), dict(m.i1.conns))
    assert before == after and g1.nets == g2.nets and m._elaborated is None
    return 15


# ----------------------------------------------------------------------------------------------------------------------
# Part 2: the design family against h.to_proto
# ----------------------------------------------------------------------------------------------------------------------


def feature_keys(desc):
    parts = desc.split("/")
    if parts[0] == "random":
        return ["random"] + [f"random:{t}" for t in parts[2].split("+")]
    return [parts[0]]


def short(msg, n=230):
    msg = " ".join(str(msg).split())
    return msg if len(msg) <= n else msg[: n - 3] + "..."


PERTURB = Counter()


def perturb_check(m1, pkg, name):
    """Swap the targets of two equally wide connections of one instance of the top module; compare() must notice
    whenever the swap changes the circuit (judged by the package-side partition itself)."""
    import copy as _copy

    base = package_meaning(pkg, name)
    tops = [m for m in pkg.modules if m.name == name or m.name.endswith("." + name)]
    if len(tops) != 1:
        return
    idx = list(pkg.modules).index(tops[0])
    for ii, inst in enumerate(tops[0].instances):
        conns = list(inst.connections)
        for a in range(len(conns)):
            for b in range(a + 1, len(conns)):
                if conns[a].target == conns[b].target:
                    continue
                p2 = _copy.deepcopy(pkg)
                ca, cb = p2.modules[idx].instances[ii].connections[a], p2.modules[idx].instances[ii].connections[b]
                ta, tb = _copy.deepcopy(ca.target), _copy.deepcopy(cb.target)
                ca.target.CopyFrom(tb)
                cb.target.CopyFrom(ta)
                try:
                    alt = package_meaning(p2, name)
                except InvalidPackage:
                    continue  # widths differ
                changed = alt.nets != base.nets
                noticed = bool(compare(m1, alt))
                PERTURB["swaps"] += 1
                if changed:
                    PERTURB["changed"] += 1
                    if noticed:
                        PERTURB["noticed"] += 1
                elif noticed:
                    PERTURB["false-alarm"] += 1
                return


def run_one(desc, builder):
    """-> (class, detail list)"""
    cls, detail, top, m1, pkg, name = _run_one(desc, builder)
    if cls in ("OK", "CONCAT-ORDER", "DIFF") and top is not None:
        # (a) the oracle must not have changed the object it read
        try:
            m_same = package_meaning(h.to_proto(top), name)
            m_fresh = package_meaning(pkg, name)
            if m_same.nets != m_fresh.nets or m_same.ports != m_fresh.ports:
                return "ORACLE-MUTATED", ["export of the object read by the oracle differs from a fresh build"]
        except Exception as e:
            return "ORACLE-MUTATED", [short(f"export of the object read by the oracle fails: {type(e).__name__}: {e}")]
    if cls == "OK":
        perturb_check(m1, pkg, name)  # (b)
    return cls, detail


def _run_one(desc, builder):
    return _run_core(desc, builder)


def _run_core(desc, builder):
    top = pkg = name = None
    try:
        top = builder()
        m1 = meaning(top)
    except InvalidDesign as e:
        m1, oracle = None, ("ORACLE-REJECT", [short(e)])
    except Unsupported as e:
        return "UNSUPPORTED", [short(e)], None, None, None, None
    except Exception as e:
        return "ORACLE-ERROR", [short(f"{type(e).__name__}: {e}"), traceback.format_exc()], None, None, None, None
    try:
        top2 = builder()
        name = top2.name
        pkg = h.to_proto(top2)
    except Exception as e:
        if m1 is None:
            return "BOTH-REJECT", [oracle[1][0], short(f"{type(e).__name__}: {e}")], None, None, None, None
        return "HDL21-REJECT", [short(f"{type(e).__name__}: {e}")], None, None, None, None
    if m1 is None:
        return oracle + (None, None, None, None)
    try:
        m2 = package_meaning(pkg, name)
    except InvalidPackage as e:
        return "PKG-INVALID", [short(e)], None, None, None, None
    diffs = compare(m1, m2)
    if not diffs:
        return "OK", [], top, m1, pkg, name
    try:
        alt = compare(m1, package_meaning(pkg, name, concat_msb_first=False))
    except InvalidPackage:
        alt = ["?"]
    if not alt:
        return "CONCAT-ORDER", diffs, top, m1, pkg, name
    extra = ["  (with Concat parts read LSB-first:) " + alt[0]] if alt != diffs else []
    return "DIFF", diffs + extra, top, m1, pkg, name


def main(argv=None):
    ap = argparse.ArgumentParser()
    ap.add_argument("-v", "--verbose", action="store_true", help="print every difference line")
    ap.add_argument("--n", type=int, default=300, help="number of random designs")
    ap.add_argument("--seed", type=int, default=0)
    ap.add_argument("--only", default=None, help="only designs whose description contains this")
    ap.add_argument("--big", action="store_true", help="random designs with widths <= 8 and <= 6 instances per module")
    args = ap.parse_args(argv)

    t0 = time.time()
    n_hand = hand_tests()
    print(f"hand-verified designs: {n_hand} groups passed")

    per_feature = defaultdict(Counter)
    classes = Counter()
    n_sys = n_rand = 0
    examples = defaultdict(list)
    for desc, builder in designs(seed=args.seed, n_random=args.n, small=not args.big):
        if args.only and args.only not in desc:
            continue
        if desc.startswith("random/"):
            n_rand += 1
        else:
            n_sys += 1
        cls, detail = run_one(desc, builder)
        classes[cls] += 1
        for k in feature_keys(desc):
            per_feature[k][cls] += 1
        if cls != "OK":
            examples[cls].append(desc)
            known = KNOWN_TROUBLE.get(desc.split("/")[0])
            tag = f"  [known: {known}]" if known else ""
            if desc.startswith("random/"):
                trig = [t for t in ("portref_of_slice_or_concat", "portref_of_bundle_ref") if t in desc]
                tag = f"  [contains known trigger: {', '.join(trig)}]" if trig else ""
            first = detail[0] if detail else ""
            print(f"{cls:13s} {desc}: {first}{tag}")
            if args.verbose or cls == "ORACLE-ERROR":
                for d in detail[1:]:
                    print(f"{'':13s}   {d}")

    print()
    print(f"designs: {n_sys} systematic + {n_rand} random = {n_sys + n_rand};  {time.time() - t0:.1f} s")
    print("classes:", ", ".join(f"{k}={v}" for k, v in sorted(classes.items())))
    print(
        f"perturbation check on agreeing designs: {PERTURB['swaps']} swaps, {PERTURB['changed']} change the circuit, "
        f"{PERTURB['noticed']} of those noticed by compare(), {PERTURB['false-alarm']} false alarms"
    )
    assert PERTURB["noticed"] == PERTURB["changed"] and PERTURB["false-alarm"] == 0, "compare() missed a perturbation"
    assert classes.get("ORACLE-MUTATED", 0) == 0 and classes.get("ORACLE-ERROR", 0) == 0
    print()
    print(f"{'feature':38s} {'total':>5s} {'OK':>5s}  other")
    for k in sorted(per_feature, key=lambda s: (s.startswith("random"), s)):
        c = per_feature[k]
        other = ", ".join(f"{cls}={n}" for cls, n in sorted(c.items()) if cls != "OK")
        print(f"{k:38s} {sum(c.values()):5d} {c.get('OK', 0):5d}  {other}")
    return 0


if __name__ == "__main__":
    sys.exit(main())
