"""wf_package: the closure / self-consistency conditions of C06 as an executable predicate over a vlsir Package
(trusted specification; reads the protobuf only)."""
import io


def _primitive_ports():
    """name -> ordered [(port, width)] for the vlsir.primitives domain, read from vlsirtools' own definitions."""
    import vlsirtools.primitives as vp
    out = {}
    for em in vp.package.ext_modules:
        widths = {s.name: s.width for s in em.signals}
        out[("vlsir.primitives", em.name.name)] = [(p.signal, widths.get(p.signal, 1)) for p in em.ports]
    # Hdl21's own technology-independent ("physical") primitives: referenced by name in domain `hdl21.primitives`
    import hdl21.primitives as hp
    for obj in vars(hp).values():
        if isinstance(obj, hp.Primitive):
            out[("hdl21.primitives", obj.name)] = [(s.name, s.width) for s in obj.port_list]
    return out


_PRIMS = None


def target_width(t, widths, problems, where):
    kind = t.WhichOneof("stype")
    if kind == "sig":
        if t.sig not in widths:
            problems.append(f"{where}: undeclared signal {t.sig!r}")
            return None
        return widths[t.sig]
    if kind == "slice":
        s = t.slice
        if s.signal not in widths:
            problems.append(f"{where}: slice of undeclared signal {s.signal!r}")
            return None
        if not (0 <= s.bot <= s.top < widths[s.signal]):
            problems.append(f"{where}: slice {s.signal}[{s.top}:{s.bot}] outside width {widths[s.signal]}")
            return None
        return s.top - s.bot + 1
    if kind == "concat":
        tot = 0
        if not t.concat.parts:
            problems.append(f"{where}: empty concatenation")
            return None
        for p in t.concat.parts:
            w = target_width(p, widths, problems, where)
            if w is None:
                return None
            tot += w
        return tot
    problems.append(f"{where}: empty connection target")
    return None


def wf_package(pkg, netlisters=("spice", "spectre"), roundtrip=True):
    """-> list of problems (empty == well-formed)"""
    global _PRIMS
    if _PRIMS is None:
        _PRIMS = _primitive_ports()
    problems = []
    names = [m.name for m in pkg.modules]
    if len(set(names)) != len(names):
        problems.append(f"duplicate module names: {sorted(n for n in set(names) if names.count(n) > 1)}")
    exts = {}
    for em in pkg.ext_modules:
        key = (em.name.domain, em.name.name)
        if key in exts:
            problems.append(f"duplicate external module {key}")
        widths = {s.name: s.width for s in em.signals}
        exts[key] = [(p.signal, widths.get(p.signal, 1)) for p in em.ports]
        for p in em.ports:
            if p.signal not in widths:
                problems.append(f"external module {key}: port {p.signal} names no declared signal")
    seen = {}
    physical = False
    for m in pkg.modules:
        widths = {}
        for s in m.signals:
            if s.name in widths:
                problems.append(f"module {m.name}: duplicate signal {s.name!r}")
            if s.width < 1:
                problems.append(f"module {m.name}: signal {s.name!r} has width {s.width}")
            widths[s.name] = s.width
        pnames = [p.signal for p in m.ports]
        if len(set(pnames)) != len(pnames):
            problems.append(f"module {m.name}: duplicate ports {pnames}")
        for p in m.ports:
            if p.signal not in widths:
                problems.append(f"module {m.name}: port {p.signal!r} names no declared signal")
        inames = [i.name for i in m.instances]
        if len(set(inames)) != len(inames):
            problems.append(f"module {m.name}: duplicate instance names {sorted(n for n in set(inames) if inames.count(n) > 1)}")
        clash = set(inames) & set(widths)
        if clash:
            problems.append(f"module {m.name}: names used for both a signal and an instance: {sorted(clash)}")
        for i in m.instances:
            where = f"module {m.name} instance {i.name}"
            ref = i.module.WhichOneof("to")
            if ref == "local":
                if i.module.local not in seen:
                    problems.append(f"{where}: refers to module {i.module.local!r} not defined earlier in the package")
                    continue
                tports = seen[i.module.local]
            elif ref == "external":
                key = (i.module.external.domain, i.module.external.name)
                if key in exts:
                    tports = exts[key]
                elif key in _PRIMS:
                    tports = _PRIMS[key]
                    if key[0] == "hdl21.primitives":
                        physical = True
                else:
                    problems.append(f"{where}: refers to undeclared external module {key}")
                    continue
            else:
                problems.append(f"{where}: no target")
                continue
            pnames_ = [q.name for q in i.parameters]
            if len(set(pnames_)) != len(pnames_):
                problems.append(f"{where}: duplicate parameters {sorted(n for n in set(pnames_) if pnames_.count(n) > 1)}")
            for q in i.parameters:
                if q.value.WhichOneof("value") is None:
                    problems.append(f"{where}: parameter {q.name!r} carries no value")
            cnames = [c.portname for c in i.connections]
            want = [p for p, _ in tports]
            if sorted(cnames) != sorted(want):
                problems.append(f"{where}: connects ports {sorted(cnames)} but the target has {sorted(want)}")
            tw = dict(tports)
            for c in i.connections:
                w = target_width(c.target, widths, problems, f"{where} port {c.portname}")
                if w is not None and c.portname in tw and w != tw[c.portname]:
                    problems.append(f"{where}: port {c.portname} has width {tw[c.portname]} but is fed {w} bits")
        seen[m.name] = [(p.signal, widths.get(p.signal, 1)) for p in m.ports]
    if problems:
        return problems
    if roundtrip:
        try:
            import hdl21 as h
            h.from_proto(pkg)
        except Exception as e:
            problems.append(f"from_proto rejects the package: {type(e).__name__}: {str(e)[:200]}")
    import vlsirtools
    if physical:
        netlisters = ()     # technology-independent devices need a PDK compile before they can be netlisted
    for fmt in netlisters:
        try:
            vlsirtools.netlist(pkg=pkg, dest=io.StringIO(), fmt=fmt)
        except Exception as e:
            problems.append(f"vlsirtools {fmt} netlister rejects the package: {type(e).__name__}: {str(e)[:200]}")
    return problems
