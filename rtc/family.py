"""Shared bounded family of design programs and helpers to run contracts over them."""
import sys
from pyvc import loader
loader.ensure_paths()


def design_family(tier, seed):
    """(description, builder) pairs; builder() makes a fresh un-elaborated top Module."""
    from rtc.designs import designs
    n = 2500 if tier == "thorough" else 250
    return designs(seed, n, small=(tier != "thorough"))


def feature_of(desc):
    return desc.split("/")[0]


def nontrivial(desc):
    # everything except single-scalar-signal designs exercises at least one connectable feature
    return not desc.startswith("sig/scalar")


RULE = ("design programs from rtc/designs.py: 711 systematic designs (81 feature functions: buses, slices, concats, "
        "port-reference chains/fans/cycles, no-connects, bundles incl. nested/flipped/roles, bundle references, "
        "anonymous bundles, arrays, Pair, shared children, class/procedural/generator styles; each on primitive and "
        "external-module leaves at hierarchy depth 1-3) plus seeded random designs mixing the features; "
        "distinct = distinct description; non-trivial = anything beyond a scalar-signal-only design")
