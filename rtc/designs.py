"""Family of small, VALID-by-construction Hdl21 design programs for the reference interpreter (rtc/meaning.py).

``designs(seed, n_random, small=True)`` yields ``(description, builder)``; every ``builder()`` call constructs a FRESH
design (new Module / Bundle / ExternalModule / Generator objects) and returns its top Module.

Descriptions
  systematic:  "<feature>/<variant>/<leaf>/d<depth>"   leaf in {prim, ext}; depth = levels of hierarchy above the leaves
  random:      "random/<index>/<tag>+<tag>+..."        tags name the features the grammar happened to use; the first
                                                       tag is the grammar profile (see RandomDesign)

The systematic part wraps a feature-carrying ``Core`` module (standard ports vss, a, bus[4], o[2]) in 0-2 pass-through
levels: level 1 is written class-style (``@h.module``) when the core has only the standard ports (procedurally
otherwise), level 2 is produced by an ``@h.generator``.  Cores are mostly procedural; the ``style_*`` features cover
class-style and generator-built cores explicitly.

A few features are *valid by the documented rules* but are known / suspected to be mishandled by Hdl21
(``KNOWN_TROUBLE`` lists them); they are kept so that the comparison finds them.
"""
import os
import random
import sys
from typing import Callable, Iterator, List, Tuple

_ROOT = os.path.dirname(os.path.dirname(os.path.abspath(__file__)))
if _ROOT not in sys.path:
    sys.path.insert(0, _ROOT)
from pyvc import loader  # noqa: E402

loader.ensure_paths()
import hdl21 as h  # noqa: E402
from hdl21.prefix import K as KILO, n as NANO, µ as MICRO, p as PICO  # noqa: E402

# features whose designs are well-formed by the documented rules but exercise known / suspected Hdl21 defects
KNOWN_TROUBLE = {
    "pref_of_slice": "port reference to a port tied to a Slice loses that connection",
    "pref_of_concat": "port reference to a port tied to a Concat loses that connection",
    "nc_collide": "named NoConn sharing a name with a signal is shorted to it",
    "nc_shared_named": "one named NoConn on two ports becomes one net",
    "arr_noconn": "NoConn on an array port is broadcast as one shared net",
    "b_copies": "2*B() copies share their connection tables: the two bundles are merged into one",
    "b_copies_refs": "2*B() copies share their reference tables",
    "pref_of_bundle_ref": "port reference to a port tied to a bundle reference crashes elaboration "
    "(BundleRef.__eq__/__hash__ read a non-existent `.inst`, which spawns a bogus nested reference)",
    "arr_pref_of_slice": "port reference (from an array) to a port tied to a Slice: lost connection / crash / bogus width",
}


@h.paramclass
class ExtParams:
    k = h.Param(dtype=int, desc="an integer parameter", default=1)
    t = h.Param(dtype=str, desc="a string parameter", default="tt")


@h.paramclass
class WrapParams:
    lvl = h.Param(dtype=int, desc="wrapper level", default=0)


@h.paramclass
class GenParams:
    w = h.Param(dtype=int, desc="bus width", default=2)
    n = h.Param(dtype=int, desc="number of elements", default=2)


# ----------------------------------------------------------------------------------------------------------------------
# Leaf-device kit
# ----------------------------------------------------------------------------------------------------------------------


class Kit:
    """Leaf devices of one design. `leaf` is "prim" (Hdl21 primitives, all ports 1 bit) or "ext" (ExternalModules
    with a bus port `a` of any width and a scalar port `z`)."""

    def __init__(self, leaf: str):
        assert leaf in ("prim", "ext")
        self.leaf = leaf
        self.cnt = 0
        self.rot = 0
        self._ext = {}
        self._ext2 = {}
        self.A, self.Z = ("p", "n") if leaf == "prim" else ("a", "z")

    def uid(self, base: str) -> str:
        self.cnt += 1
        return f"{base}{self.cnt}"

    # -- instantiables -------------------------------------------------------------------------------------------------
    def ext(self, w: int):
        if w not in self._ext:
            self._ext[w] = h.ExternalModule(
                name=f"EXT{w}",
                port_list=[h.Inout(name="a", width=w), h.Port(name="z")],
                paramtype=ExtParams,
                desc="external bus device",
            )
        return self._ext[w]

    def ext2(self, w1: int, w2: int):
        key = (w1, w2)
        if key not in self._ext2:
            self._ext2[key] = h.ExternalModule(
                name=f"EXY{w1}{w2}",
                port_list=[h.Input(name="x", width=w1), h.Output(name="y", width=w2)],
                paramtype=dict,
            )
        return self._ext2[key]

    def two_terminal(self):
        """A rotating choice of two-terminal primitives (ports p, n)."""
        self.rot += 1
        opts = [
            lambda: h.R(r=1 * KILO),
            lambda: h.C(c=1e-12),
            lambda: h.V(dc=1),
            lambda: h.L(l=2 * NANO),
            lambda: h.I(dc=5 * MICRO),
            lambda: h.R(r="rparam"),
            lambda: h.D(),
            lambda: h.PhysicalResistor(w=1 * MICRO, l=2 * MICRO, model="rpoly"),
        ]
        return opts[self.rot % len(opts)]()

    def of1(self):
        """Instantiable with a scalar main port (role `a`) and a scalar other port (role `z`)."""
        if self.leaf == "prim":
            return self.two_terminal()
        return self.ext(1)(k=1)

    def one(self, **roles):
        """Un-added Instance of a scalar device; connections given by role (a=..., z=...)."""
        return self.of1()(**self._map(roles))

    def wide(self, w: int, **roles):
        """Un-added Instance of a bus device (ext kit only)."""
        assert self.leaf == "ext"
        return self.ext(w)(k=w)(**self._map(roles))

    def _map(self, roles):
        names = {"a": self.A, "z": self.Z}
        return {names[k]: v for k, v in roles.items()}

    def pa(self, inst):
        """Port reference to the main port of a device instance made by one()/wide()."""
        return getattr(inst, self.A)

    def pz(self, inst):
        return getattr(inst, self.Z)

    # -- attach a connectable of known width to fresh leaf device(s) ----------------------------------------------------
    def attach(self, m: h.Module, c, w: int, z):
        if self.leaf == "ext":
            return [m.add(self.ext(w)(k=w, t=f"w{w}")(a=c, z=z), name=self.uid("x"))]
        out = []
        for k in range(w):
            bit = c if w == 1 else c[k]
            self.rot += 1
            if self.rot % 5 == 0:
                inst = h.Nmos(w=1 * MICRO, l=20 * NANO)(d=bit, g=z, s=z, b=z)
            elif self.rot % 7 == 0:
                inst = h.Pmos(npar=2)(d=z, g=bit, s=z, b=z)
            else:
                inst = self.two_terminal()(p=bit, n=z)
            out.append(m.add(inst, name=self.uid("x")))
        return out


# ----------------------------------------------------------------------------------------------------------------------
# Standard ports and hierarchy wrappers
# ----------------------------------------------------------------------------------------------------------------------

STD = ("vss", "a", "bus", "o")


def std_ports(m: h.Module) -> h.Module:
    m.vss = h.Port()
    m.a = h.Input()
    m.bus = h.Inout(width=4)
    m.o = h.Output(width=2)
    return m


def _fill_wrapper(m: h.Module, child: h.Module, K: Kit, lvl: int) -> h.Module:
    conns = {}
    for name, sig in child.ports.items():
        conns[name] = m.add(h.Signal(name=name, width=sig.width, vis=sig.vis, direction=sig.direction))
    for name, b in child.bundles.items():
        if b.port:
            conns[name] = m.add(b.of(port=True, flipped=b.flipped, role=b.role), name=name)
    m.add(child(**conns), name=f"u{lvl}")
    if "bus" in conns and "vss" in conns:  # a device of its own, so that nets cross the hierarchy levels
        K.attach(m, conns["bus"], 4, conns["vss"])
    return m


def wrap(child: h.Module, K: Kit, lvl: int) -> h.Module:
    only_std = set(child.ports) == set(STD) and not any(b.port for b in child.bundles.values())
    if lvl == 1 and only_std:

        @h.module
        class WrapC:
            vss = h.Port()
            a = h.Input()
            bus = h.Inout(width=4)
            o = h.Output(width=2)
            u1 = child(vss=vss, a=a, bus=bus, o=o)
            xw = K.ext(4)(k=4)(a=bus, z=vss) if K.leaf == "ext" else h.R(r=1 * KILO)(p=bus[3], n=vss)

        return WrapC
    if lvl == 1:
        return _fill_wrapper(h.Module(name="WrapP"), child, K, lvl)

    @h.generator
    def WrapG(params: WrapParams) -> h.Module:
        return _fill_wrapper(h.Module(), child, K, params.lvl)

    return WrapG(lvl=lvl)


# ----------------------------------------------------------------------------------------------------------------------
# Bundle and child-module kits (fresh per design)
# ----------------------------------------------------------------------------------------------------------------------


class Bundles:
    def __init__(self):
        @h.bundle
        class Lo:
            x = h.Signal()
            y = h.Signal(width=2)

        @h.bundle
        class Hi:
            lo = Lo()
            w = h.Signal(width=3)
            lo2 = Lo()

        @h.bundle
        class Dir:
            i = h.Input()
            q = h.Output(width=2)
            io = h.Inout()
            n = h.Port()

        @h.bundle
        class DirOuter:
            c = h.Input()
            d1 = Dir()
            d2 = h.flipped(Dir())
            d3 = Dir(flipped=True)

        @h.bundle
        class DirTop:
            e = h.Output()
            f1 = DirOuter()
            f2 = DirOuter(flipped=True)

        from enum import Enum, auto

        class HostDevice(Enum):
            HOST = auto()
            DEVICE = auto()

        @h.bundle
        class Jtag:
            roles = h.RoleSet.from_enum(HostDevice)
            tck, tms = h.Signals(2, src=roles.HOST, dest=roles.DEVICE)
            tdi = h.Signal(width=2, src=roles.HOST, dest=roles.DEVICE)
            tdo = h.Signal(src=roles.DEVICE, dest=roles.HOST)
            aux = h.Signal()

        @h.bundle
        class Link:
            roles = h.RoleSet.from_enum(HostDevice)
            j = Jtag(role=roles.DEVICE)
            k = Jtag(role=roles.HOST)
            z = Jtag()
            clk = h.Signal(src=roles.HOST, dest=roles.DEVICE)

        self.Lo, self.Hi, self.Dir, self.DirOuter, self.DirTop, self.Jtag, self.Link = (
            Lo, Hi, Dir, DirOuter, DirTop, Jtag, Link,
        )  # fmt: skip


def lo_child(K: Kit, B: Bundles, name="LoChild") -> h.Module:
    m = h.Module(name=name)
    m.bp = B.Lo(port=True)
    m.vss = h.Port()
    K.attach(m, m.bp.x, 1, m.vss)
    K.attach(m, m.bp.y, 2, m.vss)
    return m


def hi_child(K: Kit, B: Bundles, lo: h.Module, name="HiChild") -> h.Module:
    m = h.Module(name=name)
    m.bp = B.Hi(port=True)
    m.vss = h.Port()
    m.c = lo(bp=m.bp.lo, vss=m.vss)
    K.attach(m, m.bp.w, 3, m.vss)
    K.attach(m, m.bp.lo2.y, 2, m.bp.lo2.x)
    return m


def bus_child(K: Kit, name="BusChild", w=2) -> h.Module:
    """Child with a bus port p[w] and a scalar port q, each on leaf devices."""
    m = h.Module(name=name)
    m.p = h.Inout(width=w)
    m.q = h.Input()
    K.attach(m, m.p, w, m.q)
    return m


# ----------------------------------------------------------------------------------------------------------------------
# Systematic features.  Each is f(m, K): m has the standard ports; K is the leaf kit.
# FEATURES entries: (feature, variant, function, leaves)   leaves: which kits the feature can be written with
# ----------------------------------------------------------------------------------------------------------------------

FEATURES: List[Tuple[str, str, Callable, Tuple[str, ...]]] = []
BOTH = ("prim", "ext")
EXT = ("ext",)


def feature(name, variant="-", leaves=BOTH):
    def deco(f):
        FEATURES.append((name, variant, f, leaves))
        return f

    return deco


def _ground(m, K):
    """Put every standard port on a device so that all port bits are distinguishable in the nets."""
    K.attach(m, m.bus, 4, m.vss)
    K.attach(m, m.o, 2, m.a)


# --- signals ----------------------------------------------------------------------------------------------------------
@feature("sig", "scalar")
def _(m, K):
    m.s = h.Signal()
    K.attach(m, m.s, 1, m.vss)
    K.attach(m, m.s, 1, m.a)
    K.attach(m, m.a, 1, m.vss)


for _w in (1, 2, 3, 4):

    def _mk(w):
        def f(m, K):
            m.sb = h.Signal(width=w)
            K.attach(m, m.sb, w, m.vss)
            K.attach(m, m.sb, w, m.a)
            _ground(m, K)

        return f

    feature("sig", f"bus{_w}")(_mk(_w))

# --- slices -----------------------------------------------------------------------------------------------------------
SLICES = [
    ("int0", lambda b: b[0], 1),
    ("int2", lambda b: b[2], 1),
    ("neg1", lambda b: b[-1], 1),
    ("neg4", lambda b: b[-4], 1),
    ("range", lambda b: b[1:3], 2),
    ("head", lambda b: b[:2], 2),
    ("tail", lambda b: b[2:], 2),
    ("negrange", lambda b: b[-3:-1], 2),
    ("negstart", lambda b: b[-2:], 2),
    ("full", lambda b: b[:], 4),
    ("stride", lambda b: b[::2], 2),
    ("stride_from1", lambda b: b[1::2], 2),
    ("stride3", lambda b: b[::3], 2),
    ("rev", lambda b: b[::-1], 4),
    ("rev_part", lambda b: b[3:0:-1], 3),
    ("rev_to0", lambda b: b[2::-1], 3),
    ("rev_stride", lambda b: b[::-2], 2),
    ("rev_neg", lambda b: b[-1:-3:-1], 2),
    ("clamped", lambda b: b[2:10], 2),
    ("clamped_neg", lambda b: b[-10:2], 2),
    ("of_slice", lambda b: b[1:4][0:2], 2),
    ("int_of_slice", lambda b: b[1:4][-1], 1),
    ("int_of_rev", lambda b: b[::-1][1], 1),
    ("rev_of_rev", lambda b: b[::-1][::-1], 4),
    ("stride_of_rev", lambda b: b[::-1][::2], 2),
    ("rev_of_stride", lambda b: b[::2][::-1], 2),
]
for _label, _fn, _w in SLICES:

    def _mk(fn, w):
        def f(m, K):
            K.attach(m, fn(m.bus), w, m.vss)
            m.t = h.Signal(width=4)
            K.attach(m, fn(m.t), w, m.a)
            K.attach(m, m.t, 4, m.vss)

        return f

    feature("slice", _label)(_mk(_fn, _w))

# --- concats ----------------------------------------------------------------------------------------------------------
CONCATS = [
    ("two", lambda m: h.Concat(m.a, m.s), 2),
    ("three", lambda m: h.Concat(m.a, m.o, m.s), 4),
    ("nested", lambda m: h.Concat(h.Concat(m.a, m.s), m.o), 4),
    ("nested_deep", lambda m: h.Concat(m.a, h.Concat(m.s, h.Concat(m.o[1], m.o[0]))), 4),
    ("of_slices", lambda m: h.Concat(m.bus[0], m.bus[3], m.bus[1:3]), 4),
    ("swap_halves", lambda m: h.Concat(m.bus[2:], m.bus[:2]), 4),
    ("slice_of", lambda m: h.Concat(m.a, m.bus)[1:4], 3),
    ("int_of", lambda m: h.Concat(m.o, m.bus)[2], 1),
    ("rev_of", lambda m: h.Concat(m.o, m.a, m.s)[::-1], 4),
    ("stride_of", lambda m: h.Concat(m.bus, m.o)[1::2], 3),
    ("repeat", lambda m: h.Concat(m.a, m.a), 2),
    ("single", lambda m: h.Concat(m.o), 2),
    ("palindrome", lambda m: h.Concat(m.a, m.s, m.a), 3),
    ("of_concat_slices", lambda m: h.Concat(h.Concat(m.bus, m.o)[4:], h.Concat(m.a, m.s)[::-1]), 4),
]
for _label, _fn, _w in CONCATS:

    def _mk(fn, w):
        def f(m, K):
            m.s = h.Signal()
            K.attach(m, fn(m), w, m.vss)
            K.attach(m, m.s, 1, m.vss)
            _ground(m, K)

        return f

    feature("concat", _label)(_mk(_fn, _w))


# --- port references --------------------------------------------------------------------------------------------------
@feature("pref", "chain")
def _(m, K):
    m.s = h.Signal()
    m.i0 = K.one(a=m.s, z=m.vss)
    m.i1 = K.one(a=K.pa(m.i0), z=m.vss)
    m.i2 = K.one(a=K.pa(m.i1), z=m.a)
    m.i3 = K.one(a=K.pa(m.i2), z=K.pz(m.i2))


@feature("pref", "chain_implicit")
def _(m, K):
    m.i0 = K.one(z=m.vss)
    m.i1 = K.one(a=K.pa(m.i0), z=m.vss)
    m.i2 = K.one(a=K.pa(m.i1), z=m.a)


@feature("pref", "fan_implicit")
def _(m, K):
    m.i0 = K.one(z=m.vss)
    m.i1 = K.one(a=K.pa(m.i0), z=m.vss)
    m.i2 = K.one(a=K.pa(m.i0), z=m.a)
    m.i3 = K.one(a=K.pa(m.i0), z=m.bus[1])


@feature("pref", "fan_signal")
def _(m, K):
    m.s = h.Signal()
    m.i0 = K.one(a=m.s, z=m.vss)
    m.i1 = K.one(a=K.pa(m.i0), z=m.vss)
    m.i2 = K.one(a=K.pa(m.i0), z=m.a)
    K.attach(m, m.s, 1, m.bus[0])


@feature("pref", "fan_port")
def _(m, K):
    m.i0 = K.one(a=m.a, z=m.vss)
    m.i1 = K.one(a=K.pa(m.i0), z=K.pz(m.i0))
    m.i2 = K.one(a=K.pz(m.i0), z=K.pa(m.i1))


@feature("pref", "cycle2")
def _(m, K):
    m.i0 = K.one(z=m.vss)
    m.i1 = K.one(z=m.a)
    setattr(m.i0, K.A, K.pa(m.i1))
    setattr(m.i1, K.A, K.pa(m.i0))


@feature("pref", "cycle3_fan")
def _(m, K):
    m.i0 = K.one(z=m.vss)
    m.i1 = K.one(z=m.a)
    m.i2 = K.one(z=m.bus[0])
    setattr(m.i0, K.A, K.pa(m.i1))
    setattr(m.i1, K.A, K.pa(m.i2))
    setattr(m.i2, K.A, K.pa(m.i0))
    m.i3 = K.one(a=K.pa(m.i1), z=m.bus[1])


@feature("pref", "mutual_signal")
def _(m, K):
    m.s = h.Signal()
    m.i0 = K.one(z=m.vss)
    m.i1 = K.one(z=m.a)
    m.i0.connect(K.A, K.pa(m.i1))
    m.i1.connect(K.A, m.s)
    m.i2 = K.one(a=K.pa(m.i0), z=m.s)


@feature("pref", "both_ports")
def _(m, K):
    m.i0 = K.one()
    m.i1 = K.one(a=K.pa(m.i0), z=m.vss)
    m.i2 = K.one(a=m.a, z=K.pz(m.i0))
    m.i3 = K.one(a=K.pz(m.i0), z=K.pa(m.i0))


@feature("pref_of_slice", "int")
def _(m, K):
    m.i0 = K.one(a=m.bus[0], z=m.vss)
    m.i1 = K.one(a=K.pa(m.i0), z=m.a)
    _ground(m, K)


@feature("pref_of_slice", "range", EXT)
def _(m, K):
    m.i0 = K.wide(2, a=m.bus[1:3], z=m.vss)
    m.i1 = K.wide(2, a=K.pa(m.i0), z=m.a)
    _ground(m, K)


@feature("pref_of_concat", "two", EXT)
def _(m, K):
    m.s = h.Signal()
    m.i0 = K.wide(2, a=h.Concat(m.a, m.s), z=m.vss)
    m.i1 = K.wide(2, a=K.pa(m.i0), z=m.s)


@feature("pref_of_bundle_ref", "leaf")
def _(m, K):
    B = Bundles()
    m.b = B.Lo()
    m.i0 = K.one(a=m.b.x, z=m.vss)
    m.i1 = K.one(a=K.pa(m.i0), z=m.a)
    K.attach(m, m.b.y, 2, m.b.x)


@feature("arr_pref_of_slice", "mult")
def _(m, K):
    m.i0 = K.one(a=m.bus[0], z=m.vss)
    m.ar = 2 * K.one(a=K.pa(m.i0), z=m.a)
    _ground(m, K)


@feature("arr_pref_of_slice", "ctor_per_element", EXT)
def _(m, K):
    m.i0 = K.wide(2, a=m.bus[1:3], z=m.vss)
    m.add(h.InstanceArray(K.ext(1)(k=1), 2, name="ar")(a=K.pa(m.i0), z=m.a))
    _ground(m, K)


@feature("pref", "wide_implicit", EXT)
def _(m, K):
    m.i0 = K.wide(3, z=m.vss)
    m.i1 = K.wide(3, a=K.pa(m.i0), z=m.a)
    m.i2 = K.wide(3, a=K.pa(m.i1), z=K.pz(m.i1))


@feature("pref", "wide_signal", EXT)
def _(m, K):
    m.i0 = K.wide(4, a=m.bus, z=m.vss)
    m.i1 = K.wide(4, a=K.pa(m.i0), z=m.a)


@feature("pref", "slice_of_ref", EXT)
def _(m, K):
    m.i0 = K.wide(4, a=m.bus, z=m.vss)
    m.i1 = K.one(a=K.pa(m.i0)[2], z=m.a)
    m.i2 = K.wide(2, a=K.pa(m.i0)[::-2], z=m.a)


@feature("pref", "slice_of_ref_implicit", EXT)
def _(m, K):
    m.i0 = K.wide(3, z=m.vss)
    m.i1 = K.one(a=K.pa(m.i0)[0], z=m.a)
    m.i2 = K.one(a=K.pa(m.i0)[-1], z=m.a)
    m.i3 = K.wide(2, a=K.pa(m.i0)[1:], z=m.bus[0])


@feature("pref", "ref_in_concat", EXT)
def _(m, K):
    m.s = h.Signal()
    m.i0 = K.one(a=m.s, z=m.vss)
    m.i1 = K.one(z=m.vss)
    m.i2 = K.wide(3, a=h.Concat(K.pa(m.i0), m.a, K.pa(m.i1)), z=m.vss)


@feature("pref", "module_ports")
def _(m, K):
    C = bus_child(K)
    m.u0 = C(q=m.vss)
    m.u1 = C(p=m.u0.p, q=m.a)
    m.u2 = C(p=m.bus[0:2], q=m.u1.q)


@feature("pref", "module_to_leaf")
def _(m, K):
    C = bus_child(K, w=1)
    m.u0 = C(q=m.vss)
    m.i0 = K.one(a=m.u0.p, z=m.u0.q)
    m.u1 = C(p=K.pa(m.i0), q=m.a)


# --- no-connects ------------------------------------------------------------------------------------------------------
@feature("noconn", "anon")
def _(m, K):
    m.i0 = K.one(a=h.NoConn(), z=m.vss)
    m.i1 = K.one(a=m.a, z=h.NoConn())


@feature("noconn", "named")
def _(m, K):
    m.i0 = K.one(a=h.NoConn(name="nc_first"), z=m.vss)
    m.i1 = K.one(a=m.a, z=h.NoConn(name="nc_second"))


@feature("noconn", "shared_anon")
def _(m, K):
    nc = h.NoConn()
    m.i0 = K.one(a=nc, z=m.vss)
    m.i1 = K.one(a=nc, z=m.a)


@feature("noconn", "shared_same_inst")
def _(m, K):
    nc = h.NoConn()
    m.i0 = K.one(a=nc, z=nc)
    m.i1 = K.one(a=m.a, z=m.vss)


@feature("nc_shared_named", "two_insts")
def _(m, K):
    nc = h.NoConn(name="ncs")
    m.i0 = K.one(a=nc, z=m.vss)
    m.i1 = K.one(a=nc, z=m.a)


@feature("nc_collide", "signal_name")
def _(m, K):
    m.s = h.Signal()
    m.i0 = K.one(a=m.s, z=m.vss)
    m.i1 = K.one(a=h.NoConn(name="s"), z=m.a)


@feature("noconn", "wide", EXT)
def _(m, K):
    m.i0 = K.wide(3, a=h.NoConn(), z=m.vss)
    m.i1 = K.wide(2, a=m.o, z=h.NoConn(name="nz"))


@feature("noconn", "module_port")
def _(m, K):
    C = bus_child(K)
    m.u0 = C(p=h.NoConn(), q=m.vss)
    m.u1 = C(p=m.o, q=h.NoConn())


# --- bundles ----------------------------------------------------------------------------------------------------------
@feature("bundle", "internal_shared")
def _(m, K):
    B = Bundles()
    C = lo_child(K, B)
    m.b = B.Lo()
    m.c1 = C(bp=m.b, vss=m.vss)
    m.c2 = C(bp=m.b, vss=m.a)


@feature("bundle", "nested")
def _(m, K):
    B = Bundles()
    lo = lo_child(K, B)
    hi = hi_child(K, B, lo)
    m.b = B.Hi()
    m.c1 = hi(bp=m.b, vss=m.vss)
    m.c2 = lo(bp=m.b.lo2, vss=m.a)


@feature("bundle_ref", "leaf")
def _(m, K):
    B = Bundles()
    m.b = B.Lo()
    K.attach(m, m.b.x, 1, m.vss)
    K.attach(m, m.b.y, 2, m.a)
    K.attach(m, m.b.y[1], 1, m.b.x)
    K.attach(m, m.b.y[::-1], 2, m.vss)


@feature("bundle_ref", "nested")
def _(m, K):
    B = Bundles()
    lo = lo_child(K, B)
    m.b = B.Hi()
    K.attach(m, m.b.lo.x, 1, m.vss)
    K.attach(m, m.b.lo2.y[0], 1, m.a)
    K.attach(m, m.b.w, 3, m.b.lo2.x)
    m.c = lo(bp=m.b.lo, vss=m.vss)


@feature("bundle_ref", "in_concat")
def _(m, K):
    B = Bundles()
    m.b = B.Lo()
    K.attach(m, h.Concat(m.b.x, m.b.y), 3, m.vss)
    K.attach(m, h.Concat(m.b.y[1], m.a, m.b.x), 3, m.a)


@feature("bundle_port", "plain")
def _(m, K):
    B = Bundles()
    C = lo_child(K, B)
    m.tb = B.Lo(port=True)
    m.th = B.Hi(port=True)
    m.c = C(bp=m.tb, vss=m.vss)
    m.c2 = C(bp=m.th.lo, vss=m.a)
    K.attach(m, m.th.w, 3, m.vss)
    K.attach(m, m.th.lo2.y, 2, m.th.lo2.x)


@feature("bundle_port", "directions")
def _(m, K):
    B = Bundles()
    m.d = B.Dir(port=True)
    m.df = B.Dir(port=True, flipped=True)
    m.dt = B.DirTop(port=True)
    m.du = h.flipped(B.DirTop(port=True))
    for b in (m.d, m.df):
        K.attach(m, b.i, 1, m.vss)
        K.attach(m, b.q, 2, b.io)
        K.attach(m, b.n, 1, m.a)
    K.attach(m, m.dt.f1.d2.q, 2, m.dt.e)
    K.attach(m, m.du.f2.d3.i, 1, m.du.f2.c)


@feature("bundle_port", "roles")
def _(m, K):
    B = Bundles()
    m.jd = B.Jtag(port=True, role=B.Jtag.roles.DEVICE)
    m.jh = B.Jtag(port=True, role=B.Jtag.roles.HOST)
    m.jn = B.Jtag(port=True)
    m.lk = B.Link(port=True, role=B.Link.roles.HOST)
    K.attach(m, m.jd.tdi, 2, m.jd.tck)
    K.attach(m, m.jh.tdo, 1, m.jn.aux)
    K.attach(m, m.lk.j.tdi, 2, m.lk.clk)


@feature("bundle_port", "child_directions")
def _(m, K):
    B = Bundles()
    c = h.Module(name="DirChild")
    c.bp = B.Dir(port=True)
    c.vss = h.Port()
    K.attach(c, c.bp.q, 2, c.bp.i)
    K.attach(c, c.bp.io, 1, c.bp.n)
    f = h.Module(name="DirChildF")
    f.bp = B.Dir(port=True, flipped=True)
    f.vss = h.Port()
    K.attach(f, f.bp.q, 2, f.vss)
    K.attach(f, f.bp.i, 1, f.bp.n)
    m.b = B.Dir()
    m.c = c(bp=m.b, vss=m.vss)
    m.f = f(bp=m.b, vss=m.a)


@feature("anon_bundle", "bundlize")
def _(m, K):
    B = Bundles()
    C = lo_child(K, B)
    m.c = C(bp=h.bundlize(x=m.a, y=m.o), vss=m.vss)
    _ground(m, K)


@feature("anon_bundle", "class")
def _(m, K):
    B = Bundles()
    C = lo_child(K, B)
    m.c = C(bp=h.AnonymousBundle(y=m.bus[1:3], x=m.bus[0]), vss=m.vss)
    _ground(m, K)


@feature("anon_bundle", "exprs")
def _(m, K):
    B = Bundles()
    C = lo_child(K, B)
    m.c = C(bp=h.bundlize(x=m.bus[3], y=h.Concat(m.a, m.bus[0])), vss=m.vss)
    m.c2 = C(bp=h.bundlize(x=m.o[-1], y=m.bus[::-2]), vss=m.a)
    _ground(m, K)


@feature("anon_bundle", "dict")
def _(m, K):
    B = Bundles()
    C = lo_child(K, B)
    m.c = C(bp={"x": m.a, "y": m.o}, vss=m.vss)
    m.c2 = C(bp=dict(x=m.bus[0], y=m.bus[2:]), vss=m.vss)
    _ground(m, K)


@feature("anon_bundle", "nested")
def _(m, K):
    B = Bundles()
    lo = lo_child(K, B)
    hi = hi_child(K, B, lo)
    m.b = B.Lo()
    m.c = hi(bp=h.bundlize(lo=m.b, w=m.bus[0:3], lo2=h.bundlize(x=m.a, y=m.o)), vss=m.vss)
    K.attach(m, m.b.y, 2, m.b.x)
    _ground(m, K)


@feature("anon_bundle", "of_refs")
def _(m, K):
    B = Bundles()
    C = lo_child(K, B)
    m.b = B.Lo()
    m.b2 = B.Lo()
    m.c = C(bp=m.b, vss=m.vss)
    m.c2 = C(bp=h.bundlize(x=m.b2.x, y=m.b.y), vss=m.vss)
    m.c3 = C(bp=h.bundlize(x=m.b.y[0], y=h.Concat(m.b.x, m.b2.x)), vss=m.a)


@feature("bundle", "port_ref_implicit")
def _(m, K):
    B = Bundles()
    C = lo_child(K, B)
    m.c1 = C(vss=m.vss)
    m.c2 = C(bp=m.c1.bp, vss=m.a)


@feature("bundle", "port_ref_signal")
def _(m, K):
    B = Bundles()
    C = lo_child(K, B)
    m.b = B.Lo()
    m.c1 = C(bp=m.b, vss=m.vss)
    m.c2 = C(bp=m.c1.bp, vss=m.a)
    K.attach(m, m.b.x, 1, m.a)


@feature("bundle", "noconn")
def _(m, K):
    B = Bundles()
    C = lo_child(K, B)
    m.c1 = C(bp=h.NoConn(), vss=m.vss)
    m.c2 = C(bp=h.bundlize(x=m.a, y=m.o), vss=h.NoConn())


@feature("b_copies", "whole")
def _(m, K):
    B = Bundles()
    C = lo_child(K, B)
    m.b1, m.b2 = 2 * B.Lo()
    m.c1 = C(bp=m.b1, vss=m.vss)
    m.c2 = C(bp=m.b2, vss=m.a)


@feature("b_copies_refs", "leaf_refs")
def _(m, K):
    B = Bundles()
    m.b1, m.b2 = 2 * B.Lo()
    K.attach(m, m.b1.x, 1, m.vss)
    K.attach(m, m.b2.x, 1, m.a)
    K.attach(m, m.b1.y, 2, m.vss)
    K.attach(m, m.b2.y, 2, m.a)


# --- instance arrays --------------------------------------------------------------------------------------------------
@feature("array", "broadcast")
def _(m, K):
    m.s = h.Signal()
    m.ar = 3 * K.one(a=m.s, z=m.vss)
    K.attach(m, m.s, 1, m.a)


@feature("array", "per_element")
def _(m, K):
    m.ar = 4 * K.one(a=m.bus, z=m.vss)
    m.as_ = 2 * K.one(a=m.a, z=m.o)


@feature("array", "ctor")
def _(m, K):
    m.add(h.InstanceArray(K.of1(), 2, name="ar")(**{K.A: m.o, K.Z: m.vss}))
    arr = h.InstanceArray(K.of1(), 3)
    arr.connect(K.A, m.bus[1:])
    arr.connect(K.Z, m.a)
    m.add(arr, name="ab")


@feature("array", "slice_conns")
def _(m, K):
    m.ar = 4 * K.one(a=m.bus[::-1], z=m.vss)
    m.ab = 2 * K.one(a=m.bus[::2], z=m.o[::-1])
    m.ac = 3 * K.one(a=m.bus[0], z=m.bus[1:])


@feature("array", "concat_conns")
def _(m, K):
    m.s = h.Signal()
    m.ar = 4 * K.one(a=h.Concat(m.o, m.a, m.s), z=m.vss)
    m.ab = 2 * K.one(a=h.Concat(m.s, m.bus[3]), z=h.Concat(m.a))


@feature("array", "wide_both", EXT)
def _(m, K):
    m.s = h.Signal()
    m.ar = 2 * K.wide(2, a=m.bus, z=m.vss)
    m.ab = 2 * K.wide(2, a=m.o, z=h.Concat(m.a, m.s))
    m.ac = 2 * K.wide(2, a=h.Concat(m.bus[3], m.o, m.bus[0]), z=m.s)
    m.ad = 2 * K.wide(2, a=m.bus[::-1], z=m.vss)


@feature("array", "of_modules")
def _(m, K):
    C = bus_child(K)
    m.ar = 2 * C(p=m.bus, q=m.vss)
    m.ab = 2 * C(p=m.o, q=h.Concat(m.a, m.vss))


@feature("array", "size_one")
def _(m, K):
    m.ar = 1 * K.one(a=m.a, z=m.vss)


@feature("array", "port_ref_conn")
def _(m, K):
    m.s = h.Signal()
    m.i0 = K.one(a=m.s, z=m.vss)
    m.i1 = K.one(z=m.a)
    m.ar = 2 * K.one(a=K.pa(m.i0), z=K.pa(m.i1))


@feature("array", "bundle_conn")
def _(m, K):
    B = Bundles()
    C = lo_child(K, B)
    m.b = B.Lo()
    m.ar = 2 * C(bp=m.b, vss=m.vss)
    m.ab = 2 * C(bp=h.bundlize(x=m.a, y=m.o), vss=m.bus[0:2])


@feature("arr_noconn", "anon")
def _(m, K):
    m.ar = 2 * K.one(a=h.NoConn(), z=m.vss)


# --- instance bundles (Pair) ------------------------------------------------------------------------------------------
@feature("pair", "diff")
def _(m, K):
    m.d = h.Diff()
    m.pr = h.Pair(K.of1())(**{K.A: m.d, K.Z: m.vss})
    K.attach(m, m.d.p, 1, m.a)
    K.attach(m, m.d.n, 1, m.vss)


@feature("pair", "both_diff")
def _(m, K):
    m.d = h.Diff()
    m.e = h.Diff()
    m.pr = h.Pair(K.of1())(**{K.A: m.d, K.Z: m.e})
    K.attach(m, m.d.p, 1, m.a)
    K.attach(m, m.e.n, 1, m.vss)


@feature("pair", "anon")
def _(m, K):
    m.s = h.Signal()
    m.pr = h.Pair(K.of1())(**{K.A: h.bundlize(p=m.a, n=m.s), K.Z: m.vss})
    m.ps = h.Pair(K.of1())(**{K.A: h.AnonymousBundle(n=m.bus[0], p=m.bus[3]), K.Z: {"p": m.s, "n": m.a}})


@feature("pair", "inverse")
def _(m, K):
    m.d = h.Diff()
    m.pr = h.Pair(K.of1())(**{K.A: h.inverse(m.d), K.Z: m.vss})
    m.ps = h.Pair(K.of1())(**{K.A: m.d, K.Z: m.a})


@feature("pair", "diff_port")
def _(m, K):
    m.d = h.Diff(port=True, role=h.Diff.Roles.SINK)
    m.e = h.Diff(port=True, role=h.Diff.Roles.SOURCE)
    m.pr = h.Pair(K.of1())(**{K.A: m.d, K.Z: m.e})


@feature("pair", "noconn_anon")
def _(m, K):
    m.d = h.Diff()
    m.pr = h.Pair(K.of1())(**{K.A: h.NoConn(), K.Z: m.d})


@feature("nc_shared_named", "pair")
def _(m, K):
    m.d = h.Diff()
    m.ps = h.Pair(K.of1())(**{K.A: m.d, K.Z: h.NoConn(name="pnc")})


@feature("pair", "wide_scalar", EXT)
def _(m, K):
    m.d = h.Diff()
    m.pr = h.Pair(K.ext(2)(k=2))(a=m.o, z=m.d)
    K.attach(m, m.d.p, 1, m.a)


@feature("pair", "of_modules")
def _(m, K):
    C = bus_child(K)
    m.d = h.Diff()
    m.pr = h.Pair(C)(p=m.o, q=m.d)
    K.attach(m, m.d.n, 1, m.a)


# --- hierarchy --------------------------------------------------------------------------------------------------------
@feature("hier", "shared_child")
def _(m, K):
    C = bus_child(K, "Shared")
    p1 = h.Module(name="Par1")
    p1.p = h.Inout(width=2)
    p1.q = h.Input()
    p1.c1 = C(p=p1.p, q=p1.q)
    p1.c2 = C(p=p1.p[::-1], q=p1.p[0])
    p2 = h.Module(name="Par2")
    p2.p = h.Inout(width=2)
    p2.q = h.Input()
    p2.c = C(p=h.Concat(p2.q, p2.p[1]), q=p2.p[0])
    m.u1 = p1(p=m.o, q=m.vss)
    m.u2 = p2(p=m.bus[1:3], q=m.a)
    m.u3 = p1(p=m.bus[2:], q=m.a)
    m.c = C(p=m.o, q=m.a)


@feature("hier", "twice_in_parent")
def _(m, K):
    C = bus_child(K, "Twice")
    m.c1 = C(p=m.o, q=m.vss)
    m.c2 = C(p=m.bus[:2], q=m.a)


@feature("hier", "deep_chain")
def _(m, K):
    c = bus_child(K, "L0")
    for i in range(1, 4):
        p = h.Module(name=f"L{i}")
        p.p = h.Inout(width=2)
        p.q = h.Input()
        p.c = c(p=p.p[::-1], q=p.q)
        K.attach(p, p.p, 2, p.q)
        c = p
    m.u = c(p=m.o, q=m.vss)


# --- definition styles ------------------------------------------------------------------------------------------------
@feature("style", "class_child")
def _(m, K):
    leaf = K.of1()
    A, Z = K.A, K.Z

    @h.module
    class ClsChild:
        p = h.Inout(width=2)
        q = h.Input()
        s, t = h.Signals(2)
        i0 = leaf(**{A: p[0], Z: s})
        i1 = leaf(**{A: s, Z: t})
        i2 = leaf(**{A: t, Z: q})
        i3 = leaf(**{A: p[1], Z: getattr(i2, A)})

    m.u = ClsChild(p=m.o, q=m.vss)
    m.v = ClsChild(p=m.bus[1:3], q=m.a)


@feature("style", "generator")
def _(m, K):
    @h.generator
    def Gen(params: GenParams) -> h.Module:
        g = h.Module()
        g.p = h.Inout(width=params.w)
        g.q = h.Input()
        if K.leaf == "ext":
            g.ar = params.n * K.wide(params.w, a=g.p, z=g.q)
        else:
            g.ar = params.w * K.one(a=g.p, z=g.q)
        return g

    m.g2 = Gen(w=2, n=2)(p=m.o, q=m.vss)
    m.g2b = Gen(GenParams(w=2, n=2))(p=m.bus[2:], q=m.a)  # same parameters: the cached, shared Module
    m.g4 = Gen(w=4, n=3)(p=m.bus, q=m.a)
    m.g1 = Gen(w=1)(p=m.a, q=m.vss)


@feature("style", "generator_class_body")
def _(m, K):
    leaf = K.of1()
    A, Z = K.A, K.Z

    @h.generator
    def GenC(params: GenParams) -> h.Module:
        @h.module
        class Inner:
            p = h.Inout(width=params.w)
            q = h.Input()
            i0 = leaf(**{A: p[0], Z: q})
            i1 = leaf(**{A: p[-1], Z: q})

        return Inner

    m.g = GenC(w=3)(p=m.bus[1:], q=m.vss)
    m.k = GenC(w=2)(p=m.o, q=m.a)


@feature("style", "add_get_connect")
def _(m, K):
    m.add(h.Signal(name="s1", width=2))
    m.add(h.Signal(width=1), name="s2")
    i0 = m.add(K.of1()(), name="i0")
    i0.connect(K.A, m.get("s1")[0])
    i0.connect(K.Z, m.get("vss"))
    i1 = m.add(h.Instance(of=K.of1(), name="i1"))
    setattr(i1, K.A, m.s1[1])
    setattr(i1, K.Z, m.s2)
    i2 = m.add(K.of1()(**{K.A: m.s2})(**{K.Z: m.a}), name="i2")
    K.attach(m, m.s1, 2, m.vss)


@feature("style", "reconnect")
def _(m, K):
    m.s = h.Signal()
    m.t = h.Signal()
    m.i0 = K.one(a=m.s, z=m.vss)
    m.i0.connect(K.A, m.t)  # replaces the first connection
    m.i1 = K.one(a=m.s, z=m.a)
    m.i1.disconnect(K.Z)
    m.i1.connect(K.Z, m.t)
    K.attach(m, m.s, 1, m.vss)


@feature("prims", "many_kinds", ("prim",))
def _(m, K):
    m.s = h.Signal()
    m.t = h.Signal(width=2)
    m.mn = h.Nmos(w=1 * MICRO, l=100 * NANO, npar=2)(d=m.s, g=m.a, s=m.vss, b=m.vss)
    m.mp = h.Pmos(vth=h.MosVth.LOW)(d=m.s, g=m.a, s=m.bus[3], b=m.bus[3])
    m.r = h.R(r=2.5 * KILO)(p=m.s, n=m.t[0])
    m.c = h.C(c=10 * PICO)(p=m.t[0], n=m.vss)
    m.l = h.L(l="lval")(p=m.t[1], n=m.t[0])
    m.v = h.V(dc=1.8, ac=1)(p=m.bus[3], n=m.vss)
    m.i = h.I(dc=1e-6)(p=m.t[1], n=m.vss)
    m.d = h.D()(p=m.vss, n=m.s)
    m.q = h.Bjt()(c=m.o[0], b=m.o[1], e=m.vss)
    m.e = h.Vcvs(gain=2)(p=m.o[0], n=m.vss, cp=m.s, cn=m.vss)
    m.g = h.Vccs(gain=1e-3)(p=m.o[1], n=m.vss, cp=m.t[0], cn=m.t[1])
    m.r3 = h.Res3(model="rp")(p=m.bus[0], n=m.bus[1], b=m.vss)
    m.c3 = h.Cap3(model="cm")(p=m.bus[1], n=m.bus[2], b=m.vss)
    m.vp = h.Vpulse(delay=0, v1=0, v2=1, period=2 * NANO, rise=1 * PICO, fall=1 * PICO, width=1 * NANO)(
        p=m.bus[2], n=m.vss
    )
    m.sh = h.Short()(p=m.bus[0], n=m.t[1])


@feature("exts", "two_bus_ports", EXT)
def _(m, K):
    m.s = h.Signal(width=3)
    m.e0 = K.ext2(2, 3)(gain=2, mode="fast")(x=m.o, y=m.s)
    m.e1 = K.ext2(3, 4)()(x=m.s[::-1], y=m.bus)
    m.e2 = K.ext2(1, 1)(ratio=1.5)(x=m.a, y=m.vss)


def _systematic() -> Iterator[Tuple[str, Callable[[], h.Module]]]:
    for name, variant, fn, leaves in FEATURES:
        for leaf in leaves:
            for depth in (1, 2, 3):

                def builder(fn=fn, leaf=leaf, depth=depth):
                    K = Kit(leaf)
                    core = std_ports(h.Module(name="Core"))
                    fn(core, K)
                    top = core
                    for lvl in range(1, depth):
                        top = wrap(top, K, lvl)
                    return top

                yield f"{name}/{variant}/{leaf}/d{depth}", builder


# ----------------------------------------------------------------------------------------------------------------------
# Random part: a seeded grammar over the same features
# ----------------------------------------------------------------------------------------------------------------------


_SLICE_TABLES = {}


def _slice_table(maxw: int):
    """{(parent width, wanted width): [python index, ...]} - every small index whose Python length matches."""
    if maxw in _SLICE_TABLES:
        return _SLICE_TABLES[maxw]
    table = _SLICE_TABLES[maxw] = {}
    for pw in range(1, maxw + 1):
        base = list(range(pw))
        vals = [None] + list(range(-pw - 1, pw + 2))
        for start in vals:
            for stop in vals:
                for step in (None, 1, 2, 3, -1, -2):
                    sl = slice(start, stop, step)
                    n = len(base[sl])
                    if n:
                        table.setdefault((pw, n), []).append(sl)
        for i in range(-pw, pw):
            table.setdefault((pw, 1), []).append(i)
    return table


class _Ctx:
    def __init__(self, m):
        self.m = m
        self.sigs = []  # (connectable, width)
        self.insts = []  # (Instance, {port: width}) targets for port references
        self.conn_kind = {}  # (id(inst), port) -> how that port itself is connected
        self.pending = []  # (inst, port, width) ports left open, to be reached by a port reference
        self.referenced = set()


class RandomDesign:
    def __init__(self, seed, small: bool = True, profile: str = "D"):
        """profile A: unit-step slices only, no Concats, no port references to ports tied to a Slice/Concat/bundle
        reference (stays clear of the known Hdl21 defects); B: + strided / reversed slices (which Hdl21 turns into
        Concats); C: + Concats; D: everything."""
        self.rng = random.Random(seed)
        self.small = small
        self.profile = profile
        self.unit_slices_only = profile == "A"
        self.allow_concat = profile in ("C", "D")
        self.allow_pref_of_slice = profile == "D"
        self.maxw = 4 if small else 8
        self.maxinst = 4 if small else 6
        self.maxdepth = 3
        self.K = Kit(self.rng.choice(["prim", "ext", "ext"]))
        self.KP = Kit("prim")
        self.B = None
        self.tags = set()
        self.pool = []  # (module, {port: width}, {bundle port: Bundle}) finished child modules, for sharing
        self.nmod = 0
        self.slices = _slice_table(self.maxw * 2)
        self.lo = None

    # -- expressions ---------------------------------------------------------------------------------------------------
    def new_signal(self, cx: _Ctx, w: int):
        s = cx.m.add(h.Signal(width=w), name=self.K.uid("n"))
        cx.sigs.append((s, w))
        return s

    def pick_slice(self, c, cw, w):
        opts = self.slices.get((cw, w))
        if opts and self.unit_slices_only:
            opts = [i for i in opts if isinstance(i, int) or i.step in (None, 1)]
        if not opts:
            return None
        idx = self.rng.choice(opts)
        self.tags.add("slice")
        return c[idx]

    def expr(self, cx: _Ctx, w: int, d: int = 0, exclude=None):
        rng = self.rng
        if w > self.maxw:  # wider than any signal: must be assembled
            assert self.allow_concat
            return self.concat(cx, w, d, exclude)
        same = [(c, cw) for c, cw in cx.sigs if cw == w]
        wider = [(c, cw) for c, cw in cx.sigs if cw >= w]
        banned = ("noconn",) if self.allow_pref_of_slice else ("noconn", "slice", "concat", "other")
        prefs = [
            (i, p)
            for i, ports in cx.insts
            for p, pw in ports.items()
            if pw == w and i is not exclude and cx.conn_kind.get((id(i), p)) not in banned
        ]
        opts = []
        if same:
            opts += ["sig"] * 4
        if wider:
            opts += ["slice"] * 3
        if w >= 2 and d < 2 and self.allow_concat:
            opts += ["concat"] * 2
        if d < 2 and w < self.maxw and self.allow_concat:
            opts += ["slcat"]
        if prefs:
            opts += ["pref"] * (3 if d == 0 else 1)
        if not same or rng.random() < 0.15:
            opts += ["new"]
        kind = rng.choice(opts)
        if kind == "sig":
            return rng.choice(same)[0]
        if kind == "slice":
            c, cw = rng.choice(wider)
            got = self.pick_slice(c, cw, w)
            return got if got is not None else self.new_signal(cx, w)
        if kind == "concat":
            return self.concat(cx, w, d, exclude)
        if kind == "slcat":
            big = w + rng.randint(1, 2)
            cat = self.concat(cx, big, d + 1, exclude)
            self.tags.add("slice_of_concat")
            got = self.pick_slice(cat, big, w)
            return got if got is not None else self.new_signal(cx, w)
        if kind == "pref":
            i, p = rng.choice(prefs)
            self.tags.add("portref")
            k = cx.conn_kind.get((id(i), p))
            if k in ("slice", "concat"):
                self.tags.add("portref_of_slice_or_concat")
            if k == "other":
                self.tags.add("portref_of_bundle_ref")
            cx.referenced.add((id(i), p))
            return getattr(i, p)
        return self.new_signal(cx, w)

    def concat(self, cx, w, d, exclude):
        rng = self.rng
        nparts = min(w, rng.choice([2, 2, 3])) if w >= 2 else 1
        cuts = sorted(rng.sample(range(1, w), nparts - 1)) if nparts > 1 else []
        widths = [b - a for a, b in zip([0] + cuts, cuts + [w])]
        self.tags.add("concat")
        return h.Concat(*[self.expr(cx, wi, d + 1, exclude) for wi in widths])

    @staticmethod
    def kind_of(c):
        if isinstance(c, h.Signal):
            return "sig"
        if isinstance(c, h.Slice):
            return "slice"
        if isinstance(c, h.Concat):
            return "concat"
        if isinstance(c, h.NoConn):
            return "noconn"
        if isinstance(c, h.PortRef):
            return "pref"
        return "other"

    # -- targets -------------------------------------------------------------------------------------------------------
    def leaf_target(self):
        rng = self.rng
        if self.K.leaf == "prim" or rng.random() < 0.25:
            r = rng.random()
            if r < 0.2:
                return h.Nmos(w=1 * MICRO)(), {"d": 1, "g": 1, "s": 1, "b": 1}
            if r < 0.3:
                return h.Bjt()(), {"c": 1, "b": 1, "e": 1}
            if r < 0.4:
                return h.Vcvs(gain=rng.randint(1, 5))(), {"p": 1, "n": 1, "cp": 1, "cn": 1}
            return self.KP.two_terminal()(), {"p": 1, "n": 1}
        if rng.random() < 0.3:
            w1, w2 = rng.randint(1, self.maxw), rng.randint(1, self.maxw)
            return self.K.ext2(w1, w2)(k=rng.randint(0, 9))(), {"x": w1, "y": w2}
        w = rng.randint(1, self.maxw)
        return self.K.ext(w)(k=w)(), {"a": w, "z": 1}

    def child_target(self, depth):
        rng = self.rng
        if self.pool and rng.random() < 0.45:
            self.tags.add("shared_child")
            mod, ports, _ = rng.choice(self.pool)
            return mod, ports
        mod, ports = self.module(depth + 1)
        return mod, ports

    # -- one module ----------------------------------------------------------------------------------------------------
    def module(self, depth: int):
        rng = self.rng
        self.nmod += 1
        m = h.Module(name=f"M{self.nmod}")
        cx = _Ctx(m)
        ports = {}
        for i in range(rng.randint(1, 3)):
            w = rng.randint(1, self.maxw)
            ctor = rng.choice([h.Input, h.Output, h.Inout, h.Port])
            s = m.add(ctor(name=f"p{i}", width=w))
            ports[f"p{i}"] = w
            cx.sigs.append((s, w))
        for i in range(rng.randint(0, 2)):
            self.new_signal(cx, rng.randint(1, self.maxw))
        bundle = None
        if rng.random() < 0.3:
            if self.B is None:
                self.B = Bundles()
                self.lo = lo_child(self.KP, self.B, name="LoSink")
            self.tags.add("bundle")
            if rng.random() < 0.5:
                bundle = m.add(self.B.Lo(), name="bl")
                cx.sigs += [(bundle.x, 1), (bundle.y, 2)]
            else:
                bundle = m.add(self.B.Hi(), name="bh")
                cx.sigs += [(bundle.lo.x, 1), (bundle.lo.y, 2), (bundle.w, 3), (bundle.lo2.x, 1), (bundle.lo2.y, 2)]

        for k in range(rng.randint(1, self.maxinst)):
            r = rng.random()
            if bundle is not None and r < 0.2:
                self.bundle_sink(cx, bundle)
            elif r < 0.55 or depth >= self.maxdepth:
                self.instance(cx, *self.leaf_target())
            elif r < 0.75:
                mod, cports = self.child_target(depth)
                self.instance(cx, mod(), cports)
            elif r < 0.9:
                self.array(cx, depth)
            else:
                self.pair(cx)

        # ports left open must be reached by a port reference; otherwise connect them now
        for inst, p, w in cx.pending:
            if (id(inst), p) not in cx.referenced:
                c = self.expr(cx, w, 0, exclude=inst)
                inst.connect(p, c)
                cx.conn_kind[(id(inst), p)] = self.kind_of(c)
        self.pool.append((m, ports, {}))
        return m, ports

    def instance(self, cx: _Ctx, inst, ports):
        rng = self.rng
        name = self.K.uid("i")
        for p, w in ports.items():
            r = rng.random()
            if r < 0.06:
                c = h.NoConn() if rng.random() < 0.6 else h.NoConn(name=self.K.uid("nc"))
                self.tags.add("noconn")
            elif r < 0.14:
                cx.pending.append((inst, p, w))
                cx.conn_kind[(id(inst), p)] = "open"
                self.tags.add("open_port")
                continue
            else:
                c = self.expr(cx, w, 0, exclude=inst)
            inst.connect(p, c)
            cx.conn_kind[(id(inst), p)] = self.kind_of(c)
        cx.m.add(inst, name=name)
        cx.insts.append((inst, ports))

    def array(self, cx: _Ctx, depth):
        rng = self.rng
        self.tags.add("array")
        n = rng.choice([2, 2, 3])
        if rng.random() < 0.7 or depth >= self.maxdepth:
            inst, ports = self.leaf_target()
            of = inst.of
        else:
            of, ports = self.child_target(depth)
        conns = {}
        for p, w in ports.items():
            if n * w <= (2 * self.maxw if self.allow_concat else self.maxw) and rng.random() < 0.6:
                conns[p] = self.expr(cx, n * w, 0)
                self.tags.add("array_per_element")
            else:
                conns[p] = self.expr(cx, w, 0)
        if rng.random() < 0.5:
            arr = n * of(**conns)
            cx.m.add(arr, name=self.K.uid("ar"))
        else:
            cx.m.add(h.InstanceArray(of, n, name=self.K.uid("ar"))(**conns))

    def pair(self, cx: _Ctx):
        rng = self.rng
        self.tags.add("pair")
        inst, ports = self.leaf_target()
        conns = {}
        for p, w in ports.items():
            r = rng.random()
            if w == 1 and r < 0.4:
                d = cx.m.add(h.Diff(), name=self.K.uid("df"))
                cx.sigs += [(d.p, 1), (d.n, 1)]
                conns[p] = d
            elif r < 0.7:
                conns[p] = h.bundlize(p=self.expr(cx, w, 1), n=self.expr(cx, w, 1))
                self.tags.add("anon_bundle")
            else:
                conns[p] = self.expr(cx, w, 0)
        cx.m.add(h.Pair(inst.of)(**conns), name=self.K.uid("pr"))

    def bundle_sink(self, cx: _Ctx, bundle):
        rng = self.rng
        r = rng.random()
        if r < 0.4:
            bp = bundle if bundle.of is self.B.Lo else rng.choice([bundle.lo, bundle.lo2])
        elif r < 0.8:
            bp = h.bundlize(x=self.expr(cx, 1, 1), y=self.expr(cx, 2, 1))
            self.tags.add("anon_bundle")
        else:
            bp = {"x": self.expr(cx, 1, 1), "y": self.expr(cx, 2, 1)}
            self.tags.add("anon_bundle")
        cx.m.add(self.lo(bp=bp, vss=self.expr(cx, 1, 0)), name=self.K.uid("bs"))

    def build(self) -> h.Module:
        top, _ = self.module(1)
        return top


def _random(seed: int, n_random: int, small: bool) -> Iterator[Tuple[str, Callable[[], h.Module]]]:
    for i in range(n_random):
        key = f"{seed}-{i}-{int(small)}"
        profile = "ABCD"[i % 4]
        probe = RandomDesign(key, small, profile)
        probe.build()
        tags = "+".join([f"profile{profile}"] + sorted(probe.tags))

        def builder(key=key, profile=profile):
            return RandomDesign(key, small, profile).build()

        yield f"random/{i}/{tags}", builder


def designs(seed: int, n_random: int, small: bool = True) -> Iterator[Tuple[str, Callable[[], h.Module]]]:
    """(description, builder) pairs: the systematic family (always), then `n_random` seeded random designs.
    `small=True` keeps widths <= 4 and <= 4 instances per module; `small=False` allows widths <= 8, 6 instances."""
    yield from _systematic()
    yield from _random(seed, n_random, small)


if __name__ == "__main__":
    n = 0
    for desc, b in designs(0, 20):
        top = b()
        n += 1
        print(desc, top.name)
    print(n, "designs")
