"""Run-time forms of the heap invariants (evaluated on real Hdl21 objects)."""


def inv_conn_runtime(instances, connectables):
    """Inv_conn over an explicit universe: conns[i][p] is c  <=>  (i,p) in c._connected_ports. -> list of problems"""
    bad = []
    for i in instances:
        for p, c in i.conns.items():
            keys = {(id(r.inst), r.portname) for r in c._connected_ports}
            if (id(i), p) not in keys:
                bad.append(f"A: {i.name}.conns[{p!r}] is {type(c).__name__} but that object's back-references lack ({i.name},{p})")
    by_id = {id(i): i for i in instances}
    for c in connectables:
        for r in c._connected_ports:
            i = by_id.get(id(r.inst))
            if i is None:
                bad.append(f"B: {type(c).__name__} back-references an instance outside the universe")
            elif i.conns.get(r.portname) is not c:
                bad.append(f"B: {type(c).__name__} back-references ({i.name},{r.portname}) but conns there is "
                           f"{type(i.conns.get(r.portname)).__name__}")
    return bad


def inv_refs_runtime(instances):
    bad = []
    seen = {}
    for i in instances:
        refs = i._refs
        if id(refs) in seen and seen[id(refs)] is not i:
            bad.append(f"Refs object shared between {i.name} and {seen[id(refs)].name}")
        seen[id(refs)] = i
        for k, r in refs.all.items():
            if r.inst is not i or r.portname != k:
                bad.append(f"refs.all[{k!r}] of {i.name} refers to ({getattr(r.inst, 'name', None)},{r.portname})")
        for d in (refs.portrefs, refs.connrefs):
            for k, r in d.items():
                if refs.all.get(k) is not r:
                    bad.append(f"refs entry {k!r} of {i.name} not in refs.all")
    return bad
