"""Contracts on the PDK walkers' size selection (C15): use_defaults(params, modname, defaults) returns, for each of w and
l independently, the given value if there is one and the PDK table's default for `modname` otherwise (then passed through
scale_param, abstracted as a function of its argument)."""
import z3
from pyvc import *
from .common import *
import hdl21 as h

SCALED = z3.Function("scale_param", z3.IntSort(), z3.IntSort())
SCHEMA_EXTRA = {"w": "ref", "l": "ref"}
FIELD_CLASSES = {"w": (h.Prefixed, h.Literal), "l": (h.Prefixed, h.Literal)}


def _walkers():
    import sky130_hdl21.pdk_logic as s
    import gf180_hdl21.pdk_logic as g
    return [("sky130_hdl21.pdk_logic:Sky130Walker", s.Sky130Walker), ("gf180_hdl21.pdk_logic:Gf180Walker", g.Gf180Walker)]


class ScaleParam(Contract):
    """scale_param(orig, default): abstracted - a function of `orig` (never None here: use_defaults substitutes first)"""
    returns = "ref"
    result_classes = (h.Prefixed, h.Literal)
    raises = (TypeError,)

    def __init__(self, key):
        self.key = key + ".scale_param"

    def scenarios(self, eng):
        return []

    def apply(self, eng, st, args, kwargs, node=None):
        orig = args[1]
        if orig is None:
            return [(st, args[2] if len(args) > 2 else kwargs.get("default"))]    # documented: None -> the default
        if not isinstance(orig, SRef):
            raise Unsupported("scale_param of a non-object", node)
        r = SCALED(orig.z)
        st.assume(r != NULL)
        return [(st, SRef(r, (h.Prefixed, h.Literal)))]


class UseDefaults(Contract):
    props = ("C15",)
    raises = (TypeError,)

    def __init__(self, key, cls):
        self.key = key + ".use_defaults"
        self.cls = cls

    def scenarios(self, eng):
        from hdl21.primitives import MosParams

        def setup(eng, st):
            eng.field_classes.update(FIELD_CLASSES)
            me = sym_ref(st, "self", (self.cls,))
            p = sym_ref(st, "params", (MosParams,))
            dw, dl = sym_ref(st, "default_w", (h.Prefixed,)), sym_ref(st, "default_l", (h.Prefixed,))
            st.assume(dw.z != dl.z)
            return {"self": me, "params": p, "modname": "dev", "defaults": {"dev": (dw, dl), "other": (dl, dw)}}
        yield Scenario("any-combination-of-given-sizes", setup)

    def p_sizes(self, eng, st0, st, a, res):
        if not (isinstance(res, tuple) and len(res) == 2 and all(isinstance(r, SRef) for r in res)):
            return False
        dw, dl = a.defaults["dev"]
        gw, gl = st0.heap.get("w", a.params.z), st0.heap.get("l", a.params.z)
        xw, xl = z3.If(gw == NULL, dw.z, gw), z3.If(gl == NULL, dl.z, gl)
        # Sky130 works in microns and passes the choice through scale_param; GF180 returns it as it is
        if "sky130" in self.key:
            return z3.And(res[0].z == SCALED(xw), res[1].z == SCALED(xl))
        return z3.And(res[0].z == xw, res[1].z == xl)
    posts = property(lambda self: [("given-or-default,each-on-its-own", self.p_sizes)])


def engines_and_contracts():
    out = []
    for key, cls in _walkers():
        eng = mk_engine(contracts=[ScaleParam(key)], schema_extra=SCHEMA_EXTRA, field_classes=FIELD_CLASSES)
        out.append((eng, UseDefaults(key, cls)))
    return out
