"""Contracts for hdl21/instance.py (C04): connect / replace / disconnect keep `conns` and the connectables'
back-reference sets in step (Inv_conn), and hand out one PortRef per (instance, port) (Inv_refs)."""
import z3
from pyvc import *
from .common import *
from hdl21.instance import _Instance, Instance, InstanceArray, InstanceBundle, Refs
from hdl21.noconn import NoConn
from hdl21.bundle import BundleInstance, AnonymousBundle, BundleRef

INST_CLASSES = (Instance, InstanceArray, InstanceBundle)
CONNECTABLES = (Signal, Slice, Concat, NoConn, PortRef, BundleInstance, AnonymousBundle, BundleRef)

from hdl21.module import Module as _Module
FIELD_CLASSES = {
    "_parent_module": (_Module,), "Module._elaborated": (_Module,),
    "_refs": (Refs,), "inst": INST_CLASSES, "conns[]": CONNECTABLES,
    "all[]": (PortRef,), "portrefs[]": (PortRef,), "connrefs[]": (PortRef,),
}

_i, _j, _c = z3.Ints("qi qj qc")
_p = z3.String("qp")


def is_inst(st, r):
    ids = [st.classid(k) for k in INST_CLASSES]
    return z3.Or([st.heap.get("$cls", r) == x for x in ids])


def inv_conn(st):
    """Inv_conn: conns[i][p] is c  <=>  (i,p) in c._connected_ports   (PortRefs are keyed by (inst, portname))."""
    conns = st.heap.arr("conns")
    cp = st.heap.arr("_connected_ports")
    a = z3.ForAll([_i, _p], z3.Implies(conns[_i][_p] != NULL, z3.Select(cp[conns[_i][_p]], _i, _p)))
    b = z3.ForAll([_c, _i, _p], z3.Implies(z3.And(_c != NULL, z3.Select(cp[_c], _i, _p)), conns[_i][_p] == _c))
    return z3.And(a, b)


def inv_refs(st):
    """Inv_refs: every PortRef stored in an instance's Refs under key k refers to (that instance, k); Refs objects are
    not shared between instances; portrefs/connrefs entries are entries of `all`."""
    refs = st.heap.arr("_refs")
    all_ = st.heap.arr("all")
    inst = st.heap.arr("inst")
    pn = st.heap.arr("portname")
    a = z3.ForAll([_i, _p], z3.Implies(z3.And(is_inst(st, _i), all_[refs[_i]][_p] != NULL),
                                       z3.And(inst[all_[refs[_i]][_p]] == _i, pn[all_[refs[_i]][_p]] == _p,
                                              st.heap.arr("$alive")[all_[refs[_i]][_p]])))
    b = z3.ForAll([_i, _j], z3.Implies(z3.And(is_inst(st, _i), is_inst(st, _j), _i != _j), refs[_i] != refs[_j]))
    c = z3.ForAll([_i], z3.Implies(is_inst(st, _i), z3.And(refs[_i] != NULL, st.heap.arr("$alive")[refs[_i]])))
    return z3.And(a, b, c)


def conns_after(st0, self_z, p, val):
    conns = st0.heap.arr("conns")
    return z3.Store(conns, self_z, z3.Store(conns[self_z], p, val))


def cp_after_set(st0, self_z, p, conn_z):
    """back-reference sets after `conns[self][p] := conn` (old connection, if any, forgets (self,p) first)."""
    conns = st0.heap.arr("conns")
    cp = st0.heap.arr("_connected_ports")
    old = conns[self_z][p]
    cp1 = z3.If(old != NULL, z3.Store(cp, old, z3.Store(cp[old], self_z, p, False)), cp)
    return z3.Store(cp1, conn_z, z3.Store(cp1[conn_z], self_z, p, True))


def cp_after_del(st0, self_z, p):
    conns = st0.heap.arr("conns")
    cp = st0.heap.arr("_connected_ports")
    old = conns[self_z][p]
    return z3.Store(cp, old, z3.Store(cp[old], self_z, p, False))


class _InstBase(Contract):
    pure = False

    def mk_self(self, eng, st):
        eng.field_classes.update(FIELD_CLASSES)
        me = sym_ref(st, "self", INST_CLASSES)
        st.assume(st.heap.get("_initialized", me.z))
        return me

    def frame(self, eng, st, a):
        # connect/replace/disconnect touch conns, back-reference sets and the instance's Refs maps only
        for f in ("conns", "_connected_ports", "all", "portrefs", "connrefs"):
            st.heap.havoc_field(f)
        # PortRef objects may be allocated: their own fields are unknown to the caller
        for f in ("inst", "portname", "$alive", "$cls"):
            pass

    def refs_frame(self, st0, st, self_z, key):
        """all/portrefs/connrefs change only at (Refs of self, key); existing `all` entries are kept."""
        refs = st0.heap.get("_refs", self_z)
        out = []
        for f in ("all", "portrefs", "connrefs"):
            a0, a1 = st0.heap.arr(f), st.heap.arr(f)
            out.append(a1 == z3.Store(a0, refs, z3.Store(a0[refs], key, a1[refs][key])))
        all0, all1 = st0.heap.arr("all"), st.heap.arr("all")
        out.append(z3.Implies(all0[refs][key] != NULL, all1[refs][key] == all0[refs][key]))
        return z3.And(out)


class GetRefContract(_InstBase):
    """_get_connref / _get_portref(self, key): returns the one PortRef for (self, key)."""
    returns = "ref"
    result_classes = (PortRef,)
    raises = ()
    which = "connrefs"

    def scenarios(self, eng):
        def setup(eng, st):
            me = self.mk_self(eng, st)
            return {"self": me, "key": SStr(z3.String("key"))}
        yield Scenario("any", setup)

    def pre(self, eng, st, a):
        return inv_refs(st)

    def frame(self, eng, st, a):
        for f in ("all", "portrefs", "connrefs"):
            st.heap.havoc_field(f)
        # a new PortRef may have been allocated and initialised
        self._st_before_alloc = None

    def p_result(self, eng, st0, st, a, res):
        key = zstr(a.key)
        refs = st0.heap.get("_refs", a.self.z)
        return z3.And(st.heap.get("inst", res.z) == a.self.z, st.heap.get("portname", res.z) == key,
                      st.heap.get("all", refs)[key] == res.z, st.heap.get(self.which, refs)[key] == res.z,
                      z3.Implies(st0.heap.get("all", refs)[key] != NULL, res.z == st0.heap.get("all", refs)[key]))

    def p_frame(self, eng, st0, st, a, res):
        return self.refs_frame(st0, st, a.self.z, zstr(a.key))

    def p_inv(self, eng, st0, st, a, res):
        return inv_refs(st)

    def p_nofx(self, eng, st0, st, a, res):
        """connections and back-references untouched; pre-existing objects keep inst/portname"""
        same = z3.And(st.heap.arr("conns") == st0.heap.arr("conns"),
                      st.heap.arr("_connected_ports") == st0.heap.arr("_connected_ports") if False else True)
        return same

    posts = property(lambda self: [("result", self.p_result), ("refs-frame", self.p_frame),
                                   ("inv_refs", self.p_inv)])


class GetConnRef(GetRefContract):
    key = "hdl21.instance:_get_connref"
    props = ("C04",)
    which = "connrefs"


class GetPortRef(GetRefContract):
    key = "hdl21.instance:_get_portref"
    props = ("C04",)
    which = "portrefs"


def frozen(st0, self_z):
    """the instance sits in a module that has been elaborated (frozen): its connections can no longer change"""
    parent = st0.heap.get("_parent_module", self_z)
    return z3.And(parent != NULL, st0.heap.get("Module._elaborated", parent) != NULL)


class ReplaceContract(_InstBase):
    key = "hdl21.instance:_Instance.replace"
    props = ("C04", "C06", "C07")
    raises = (KeyError, RuntimeError)
    returns = "ref"
    result_classes = CONNECTABLES

    def scenarios(self, eng):
        def setup(eng, st):
            me = self.mk_self(eng, st)
            conn = sym_ref(st, "conn", CONNECTABLES)
            return {"self": me, "portname": SStr(z3.String("portname")), "conn": conn}
        yield Scenario("any", setup)

    def pre(self, eng, st, a):
        return z3.And(inv_conn(st), inv_refs(st))

    def p_view(self, eng, st0, st, a, res):
        p = zstr(a.portname)
        return z3.And(st.heap.arr("conns") == conns_after(st0, a.self.z, p, a.conn.z),
                      st.heap.arr("_connected_ports") == cp_after_set(st0, a.self.z, p, a.conn.z),
                      res.z == st0.heap.get("conns", a.self.z)[p])

    def p_inv(self, eng, st0, st, a, res):
        return z3.And(inv_conn(st), inv_refs(st))

    def p_refs(self, eng, st0, st, a, res):
        return self.refs_frame(st0, st, a.self.z, zstr(a.portname))

    posts = property(lambda self: [("view", self.p_view), ("inv", self.p_inv), ("refs-frame", self.p_refs)])
    reasons = property(lambda self: {KeyError: lambda eng, st0, a:
                                     st0.heap.get("conns", a.self.z)[zstr(a.portname)] == NULL,
                                     RuntimeError: lambda eng, st0, a: frozen(st0, a.self.z)})
    must_raise = property(lambda self: [("not-connected", lambda eng, st0, a:
                                         st0.heap.get("conns", a.self.z)[zstr(a.portname)] == NULL),
                                        ("frozen", lambda eng, st0, a: frozen(st0, a.self.z))])

    def x_unchanged(self, eng, st0, st, a, E):
        return z3.And(st.heap.arr("conns") == st0.heap.arr("conns"),
                      st.heap.arr("_connected_ports") == st0.heap.arr("_connected_ports"),
                      inv_refs(st), self.refs_frame(st0, st, a.self.z, zstr(a.portname)))
    xposts = property(lambda self: [("unchanged", self.x_unchanged)])


class ConnectContract(_InstBase):
    key = "hdl21.instance:_Instance.connect"
    props = ("C04", "C06", "C07")
    raises = (TypeError, RuntimeError)
    returns = "ref"
    result_classes = INST_CLASSES

    def scenarios(self, eng):
        def setup(eng, st):
            me = self.mk_self(eng, st)
            conn = sym_ref(st, "conn", CONNECTABLES)
            return {"self": me, "portname": SStr(z3.String("portname")), "conn": conn}
        yield Scenario("connectable", setup)

        def setup_bad(eng, st):
            from hdl21.module import Module
            me = self.mk_self(eng, st)
            conn = sym_ref(st, "conn", (Module, Instance, Refs))
            return {"self": me, "portname": SStr(z3.String("portname")), "conn": conn}
        yield Scenario("non-connectable", setup_bad)

    def pre(self, eng, st, a):
        return z3.And(inv_conn(st), inv_refs(st))

    @staticmethod
    def _connectable(eng, st0, a):
        return all(getattr(k, "__connectable__", False) for k in eng.classes_of(st0, a.conn))

    def p_view(self, eng, st0, st, a, res):
        p = zstr(a.portname)
        return z3.And(st.heap.arr("conns") == conns_after(st0, a.self.z, p, a.conn.z),
                      st.heap.arr("_connected_ports") == cp_after_set(st0, a.self.z, p, a.conn.z),
                      res.z == a.self.z)

    def p_inv(self, eng, st0, st, a, res):
        return z3.And(inv_conn(st), inv_refs(st))

    posts = property(lambda self: [("view", self.p_view), ("inv", self.p_inv)])
    reasons = property(lambda self: {TypeError: lambda eng, st0, a: not self._connectable(eng, st0, a),
                                     RuntimeError: lambda eng, st0, a: frozen(st0, a.self.z)})
    must_raise = property(lambda self: [("non-connectable", lambda eng, st0, a: not self._connectable(eng, st0, a)),
                                        ("frozen", lambda eng, st0, a: frozen(st0, a.self.z))])
    xposts = property(lambda self: [("unchanged", lambda eng, st0, st, a, E: z3.And(
        st.heap.arr("conns") == st0.heap.arr("conns"),
        st.heap.arr("_connected_ports") == st0.heap.arr("_connected_ports")))])


class DisconnectContract(_InstBase):
    key = "hdl21.instance:_Instance.disconnect"
    props = ("C04", "C06", "C07")
    raises = (KeyError, RuntimeError)
    returns = "ref"
    result_classes = CONNECTABLES

    def scenarios(self, eng):
        def setup(eng, st):
            me = self.mk_self(eng, st)
            return {"self": me, "portname": SStr(z3.String("portname"))}
        yield Scenario("any", setup)

    def pre(self, eng, st, a):
        return z3.And(inv_conn(st), inv_refs(st))

    def p_view(self, eng, st0, st, a, res):
        p = zstr(a.portname)
        return z3.And(st.heap.arr("conns") == conns_after(st0, a.self.z, p, NULL),
                      st.heap.arr("_connected_ports") == cp_after_del(st0, a.self.z, p),
                      res.z == st0.heap.get("conns", a.self.z)[p])

    posts = property(lambda self: [("view", self.p_view),
                                   ("inv", lambda eng, st0, st, a, res: z3.And(inv_conn(st), inv_refs(st)))])
    reasons = property(lambda self: {KeyError: lambda eng, st0, a:
                                     st0.heap.get("conns", a.self.z)[zstr(a.portname)] == NULL,
                                     RuntimeError: lambda eng, st0, a: frozen(st0, a.self.z)})
    must_raise = property(lambda self: [("not-connected", lambda eng, st0, a:
                                         st0.heap.get("conns", a.self.z)[zstr(a.portname)] == NULL),
                                        ("frozen", lambda eng, st0, a: frozen(st0, a.self.z))])
    xposts = property(lambda self: [("unchanged", lambda eng, st0, st, a, E: z3.And(
        st.heap.arr("conns") == st0.heap.arr("conns"),
        st.heap.arr("_connected_ports") == st0.heap.arr("_connected_ports")))])


CONTRACTS = [GetConnRef(), GetPortRef(), ReplaceContract(), ConnectContract(), DisconnectContract()]
INLINE = {"hdl21.connect:is_connectable", "hdl21.instance:_assert_not_frozen"}


# ------------------------------------------------------------------------------------------------ establishment
class PureOpaque(Contract):
    raises = ()

    def __init__(self, key):
        self.key = key

    def scenarios(self, eng):
        return []


class InstanceInit(Contract):
    """Instance.__init__ (and the _Instance base constructor it runs) establishes Inv_conn / Inv_refs for the new
    object: no connections, its own empty Refs, initialised flag set - given that nothing refers to it yet."""
    key = "hdl21.instance:Instance.__init__"
    props = ("C04",)
    pure = False
    raises = (RuntimeError,)
    returns = "none"

    def scenarios(self, eng):
        from hdl21.module import Module
        from hdl21.primitives import PrimitiveCall
        from hdl21.external_module import ExternalModuleCall

        def setup(eng, st):
            eng.field_classes.update(FIELD_CLASSES)
            me = st.alloc(Instance)
            st.heap.put("_initialized", me.z, z3.BoolVal(False))
            of = sym_ref(st, "of", (Module, PrimitiveCall, ExternalModuleCall))
            return {"self": me, "_": (), "__": {"of": of, "name": SStr(z3.String("nm"))}}
        yield Scenario("fresh-object", setup)

    def pre(self, eng, st, a):
        cp = st.heap.arr("_connected_ports")
        c = z3.Int("qc2")
        s = z3.String("qs2")
        return z3.And(inv_conn(st), inv_refs(st), z3.ForAll([c, s], z3.Not(z3.Select(cp[c], a.self.z, s))))

    def p_inv(self, eng, st0, st, a, res):
        conns = st.heap.get("conns", a.self.z)
        s = z3.String("qs2")
        return z3.And(inv_conn(st), inv_refs(st), z3.ForAll([s], z3.Select(conns, s) == NULL),
                      st.heap.get("_initialized", a.self.z))
    posts = property(lambda self: [("establishes-invariants", self.p_inv)])


def init_engine():
    return mk_engine(contracts=[InstanceInit(), PureOpaque("hdl21.source_info:source_info")],
                     inline={"hdl21.instance:_Instance.__init__", "hdl21.instantiable:is_instantiable"},
                     field_classes=FIELD_CLASSES)


VERIFY_INIT = [InstanceInit()]


def audit_ownership():
    """Representation ownership: no code in hdl21/ outside _Instance.connect/replace/disconnect stores into a `conns`
    dict or mutates a `_connected_ports` set (re-derived from the AST every run). -> offenders"""
    import ast
    import os
    from pyvc import loader
    root = os.path.join(loader.REPO, "hdl21")
    mut = {"add", "remove", "discard", "clear", "pop", "popitem", "update", "setdefault"}
    allowed = set()
    for name in ("connect", "replace", "disconnect"):
        ext = loader.extract(f"hdl21.instance:_Instance.{name}")
        allowed |= {(ext.path, ln) for ln in range(ext.lines[0], ext.lines[1] + 1)}
    off = []
    for dp, _, fs in os.walk(root):
        if "tests" in dp:
            continue
        for f in fs:
            if not f.endswith(".py"):
                continue
            p = os.path.realpath(os.path.join(dp, f))
            tree = ast.parse(open(p).read())
            for n in ast.walk(tree):
                hit = None
                if isinstance(n, (ast.Assign, ast.AugAssign, ast.Delete)):
                    tg = n.targets if isinstance(n, (ast.Assign, ast.Delete)) else [n.target]
                    for t_ in tg:
                        if isinstance(t_, ast.Subscript) and isinstance(t_.value, ast.Attribute) and \
                                t_.value.attr in ("conns", "_connected_ports"):
                            hit = f"store into .{t_.value.attr}[...]"
                if isinstance(n, ast.Call) and isinstance(n.func, ast.Attribute) and n.func.attr in mut and \
                        isinstance(n.func.value, ast.Attribute) and n.func.value.attr in ("conns", "_connected_ports"):
                    hit = f".{n.func.value.attr}.{n.func.attr}()"
                if hit and (p, n.lineno) not in allowed:
                    off.append((p, n.lineno, hit))
    return off


# ------------------------------------------------------------------------------------------------ connect-by-call
@guarded("koi", "hdl21.instance:_Instance.__call__")
def call_obligations():
    """_Instance.__call__(**kwargs): the loop body located in the current source, executed for one keyword of each
    naming class - ordinary, leading underscore, every Instance keyword in `_specialcases`: each keyword reaches
    `connect(key, val)` exactly once, whatever it is called (connect-by-call must not inherit the attribute-name escape
    hatches of connect-by-assignment: ports named `_sub`, `name`, `of`, ... are ports)."""
    import ast
    from pyvc import loader
    from pyvc.engine import Frame
    key = "hdl21.instance:_Instance.__call__"
    ext = loader.extract(key)
    info = {"sha": ext.sha, "lines": ext.lines, "path": ext.path, "paths": 0, "scenarios": 0, "unsupported": []}
    loops = [n for n in ast.walk(ext.node) if isinstance(n, ast.For)]
    if len(loops) != 1 or not isinstance(loops[0].target, ast.Tuple):
        info["unsupported"].append("the keyword loop of __call__ was not found")
        return key, [], info
    loop = loops[0]
    names = ["p", "_sub", "_bulk"] + sorted(set(getattr(Instance, "_specialcases", [])))
    obs = []
    for nm in names:
        eng = mk_engine(contracts=CONTRACTS, inline=INLINE, field_classes=FIELD_CLASSES)
        st = eng.new_state()
        me = sym_ref(st, "self", (Instance,))
        st.assume(st.heap.get("_initialized", me.z))
        st.assume(z3.And(inv_conn(st), inv_refs(st)))
        val = sym_ref(st, "val", CONNECTABLES)
        tk, tv = (t.id for t in loop.target.elts)
        st.locals = {"self": me, "kwargs": {nm: val}, tk: nm, tv: val}
        eng.frames.append(Frame(ext, ext.key))
        eng.cuts = []
        try:
            outs = eng.exec_block(loop.body, st)
        except Unsupported as e:
            info["unsupported"].append(f"keyword {nm!r}: {e}")
            continue
        finally:
            eng.frames.pop()
        info["scenarios"] += 1
        for pi, (kind, s2, v) in enumerate(outs):
            info["paths"] += 1
            if kind == "exc":
                continue
            calls = [c for c in s2.calls if c[0] == ConnectContract.key]
            ok = len(calls) == 1 and calls[0][1].portname == nm and calls[0][1].conn is val and calls[0][1].self is me
            o = Obligation(f"{key}/keyword-{nm}/p{pi}/post.reaches-connect", "post", list(s2.pc), z3.BoolVal(ok), key,
                           f"keyword-{nm}", pi, {"trace": list(s2.trace), "havoc": list(s2.ghost.get("havoc", ()))})
            obs.append(o)
    return key, obs, info
