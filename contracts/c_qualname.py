"""hdl21/qualname.py:qualpath (C09, C11, C06): an imported module's path is its import path plus its name - also when the
import path is EMPTY (modules defined outside any Python module); an unnamed module has none; otherwise the defining
Python module's dotted name (if there is one) plus the module's name."""
import types
import z3
from pyvc import *
from .common import *
from hdl21.module import Module
from hdl21.source_info import SourceInfo

KEY = "hdl21.qualname:qualpath"
SCHEMA_EXTRA = {"_importpath": "py", "_source_info": "ref", "pymodule": "py"}
PYMOD = types.ModuleType("pkg.sub.mod")


class Qualpath(Contract):
    key = KEY
    props = ("C11", "C09", "C06")
    raises = ()

    def scenarios(self, eng):
        for ip_name, ip in (("not-imported", None), ("imported-empty-path", []), ("imported", ["lib", "cells"])):
            for pm_name, pm in (("python-module", PYMOD), ("no-python-module", None)):
                def setup(eng, st, ip=ip, pm=pm):
                    eng.field_classes["_source_info"] = (SourceInfo,)
                    m = sym_ref(st, "mod", (Module,))
                    eng.write_field(st, m, "_importpath", ip)
                    si = st.heap.get("_source_info", m.z)
                    st.assume(z3.And(si != NULL, st.heap.get("$alive", si), st.heap.get("$cls", si) == st.classid(SourceInfo)))
                    eng.write_field(st, SRef(si, (SourceInfo,)), "pymodule", pm)
                    return {"mod": m, "$ip": ip, "$pm": pm}
                yield Scenario(f"{ip_name},{pm_name}", setup)

    def p_path(self, eng, st0, st, a, res):
        ip, pm = getattr(a, "$ip"), getattr(a, "$pm")
        none = st0.heap.get("name$none", a.mod.z)
        name = st0.heap.get("name", a.mod.z)

        def is_list(prefix):
            if not isinstance(res, list) or len(res) != len(prefix) + 1 or list(res[:-1]) != prefix:
                return False
            last = res[-1]
            if last is None:
                return none
            return z3.And(z3.Not(none), zstr(last) == name)
        if ip is not None:
            return is_list(list(ip))
        if res is None:
            return none
        return z3.And(z3.Not(none), is_list(["pkg", "sub", "mod"] if pm is not None else []))
    posts = property(lambda self: [("path", self.p_path)])


def engine():
    return mk_engine(schema_extra=SCHEMA_EXTRA)


VERIFY = [Qualpath()]
