"""Contract on hdl21/scalar.py:to_scalar (C13, last sentence of the property: "Scalar conversion turns every int, float,
Decimal or numeric string into the prefixed number with the same decimal value and every other string into a literal with
the same text").

What is proved here is the part of that sentence that is to_scalar's own: WHICH object the `Prefixed` constructor is handed
and what becomes of a refusal -
* a Prefixed / Literal argument is returned as it is (the same object);
* a string argument: the one `Prefixed` that is built is built from THAT string (z3 string equality with the argument, so
  a detour through another representation - float, a stripped or lower-cased copy - fails), and when the constructor
  refuses it the result is a `Literal` whose text is that string;
* any other argument: the `Prefixed` returned was built from that argument itself.
The constructor (`Prefixed(number=x)`: pydantic validation into a `Decimal`) is TRUSTED here: a call either yields a new
Prefixed or raises; that `Decimal(str)` / `Decimal(int)` are exact is decided by the bounded part (values vs Fraction)."""
import z3
from pyvc import *
from .common import *
from hdl21.prefix import Prefixed
from hdl21.literal import Literal

KEY = "hdl21.scalar:to_scalar"
CTOR = "hdl21.prefix:Prefixed"
SCHEMA_EXTRA = {"text": "str"}


class PrefixedCtor(Contract):
    """Prefixed(number=x) - trusted: a new Prefixed remembering (ghost) what it was built from, or a refusal."""
    key = CTOR
    pure = True

    def scenarios(self, eng):
        return []

    def apply(self, eng, st, args, kwargs, node=None):
        number = kwargs.get("number", args[0] if args else None)
        extra = sorted(k for k in kwargs if k != "number")
        a = NS({"number": number, "extra": tuple(extra), "nargs": len(args)})
        st.calls.append((self.key, a))
        ok, bad = st.fork(), st.fork()
        r = ok.alloc(Prefixed)
        ok.ghost[("built-from", zid(r.z))] = a
        return [(ok, r), (bad, Exc(ValueError))]


def _built_from(st, res):
    return st.ghost.get(("built-from", zid(res.z))) if isinstance(res, SRef) else None


def _is(x, y):
    """the two engine values denote the same Python value"""
    if isinstance(x, SRef) and isinstance(y, SRef):
        return x.z == y.z
    if isinstance(x, SStr) and isinstance(y, SStr):
        return x.z == y.z
    if isinstance(x, SInt) and isinstance(y, SInt) and not isinstance(x, SBool) and not isinstance(y, SBool):
        return x.z == y.z
    return x is y


class ToScalar(Contract):
    key = KEY
    props = ("C13",)
    pure = False
    raises = (ValueError,)

    def scenarios(self, eng):
        yield Scenario("str", lambda eng, st: {"v": SStr(z3.String("v"))})
        yield Scenario("int", lambda eng, st: {"v": SInt(z3.Int("v"))})
        yield Scenario("Prefixed", lambda eng, st: {"v": sym_ref(st, "v", (Prefixed,))})
        yield Scenario("Literal", lambda eng, st: {"v": sym_ref(st, "v", (Literal,))})

    def p_result(self, eng, st0, st, a, res):
        v = a.v
        if isinstance(v, SRef):
            return isinstance(res, SRef) and res.z == v.z
        if not isinstance(res, SRef):
            return False
        ctor = [c[1] for c in st.calls if c[0] == CTOR]
        plain = lambda c: c.nargs == 0 and not c.extra          # Prefixed(number=<it>): default prefix, nothing else
        if len(ctor) != 1 or not plain(ctor[0]):
            return False
        same = _is(ctor[0].number, v)
        classes = tuple(eng.classes_of(st, res))
        if classes == (Prefixed,):
            bf = _built_from(st, res)
            return z3.And(zbool(same), z3.BoolVal(bf is ctor[0]))
        if classes == (Literal,) and isinstance(v, SStr):
            # the fall-back: the constructor was tried on the string itself and refused; the text is the string
            return z3.And(zbool(same), st.heap.get("text", res.z) == v.z, z3.Not(st0.heap.get("$alive", res.z)))
        return False
    posts = property(lambda self: [("built-from-the-argument-itself", self.p_result)])
    # an error may escape only where the constructor refuses a non-string (strings fall back to a Literal)
    reasons = property(lambda self: {ValueError: lambda eng, st0, a: not isinstance(a.v, (SStr, SRef))})


def engine():
    return mk_engine(contracts=[PrefixedCtor()], schema_extra=SCHEMA_EXTRA)


VERIFY = [ToScalar()]


PROBE_STRINGS = ["1.5", "1E-9", " 3 ", "w/5", "", "0.12345678901234567890123", "1234567890.0123456789",
                 "12345678901234567890123", "-3.000000000000000000001e-7", "1e400", "1E-400", "+.5E+2", "abc DEF",
                 "  Lead", "NaN", "0.1000000000000000055511151231257827"]


def replay(con, ob):
    """The contract asks for more than the property does (the constructor must be handed the argument ITSELF; the
    property only asks for the same decimal value / the same text).  So a failed obligation is replayed on the real
    function against the property's own words, over the model's string and a fixed set of probes; when none of them fails
    natively the verdict is 'undecided', never a violation."""
    from decimal import Decimal
    from fractions import Fraction
    import importlib
    sc = importlib.import_module("hdl21.scalar")
    probes = list(PROBE_STRINGS)
    try:
        for d in ob.model.decls():
            if str(d) == "v" and z3.is_string_value(ob.model[d]):
                probes.insert(0, ob.model[d].as_string())
    except Exception:
        pass
    bad = []
    for v in probes + [7, -3, 2 ** 70, Decimal("1.50"), 0.1]:
        try:
            r = sc.to_scalar(v)
        except Exception as e:
            bad.append(f"to_scalar({v!r}) raises {type(e).__name__}")
            continue
        if isinstance(v, str):
            try:
                d = Decimal(v)
                numeric = d.is_finite()
            except Exception:
                numeric = False
            if numeric:
                if not isinstance(r, Prefixed) or Fraction(r.number) * Fraction(10) ** r.prefix.value != Fraction(d):
                    bad.append(f"to_scalar({v!r}) == {r!r}")
            elif isinstance(r, Literal):
                if r.text != v:
                    bad.append(f"to_scalar({v!r}) == {r!r}")
            elif not isinstance(r, Prefixed) or r.number.is_finite():
                bad.append(f"to_scalar({v!r}) == {r!r}")
        else:
            want = [Fraction(v)] if not isinstance(v, float) else [Fraction(v), Fraction(Decimal(repr(v)))]
            if not isinstance(r, Prefixed) or Fraction(r.number) * Fraction(10) ** r.prefix.value not in want:
                bad.append(f"to_scalar({v!r}) == {r!r}")
    inp = {"function": con.key, "obligation": ob.name, "witness_class": ob.scenario}
    if bad:
        inp["case"] = bad[0]
        return (True, "; ".join(bad[:4]), inp)
    return ("undecided", "the constructor is not handed the argument itself, but no probed value converts wrongly", inp)


replay.finds_own_model = True
