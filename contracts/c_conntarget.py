"""export_connection_target / export_port (C01, C06, C11): the dispatch over Signal | Slice | Concat that every exported
connection goes through, and the port record.  Slices and concatenations go through export_slice / export_concat (their
contracts); a Signal is exported by its name; anything else is a TypeError.

Round trip (C11): import_connection_target executed on the record that export_connection_target has just built - both
bodies from the current source, in one symbolic run - returns the very signal for a Signal target, provided the module's
namespace maps the signal's name to it (which elaboration guarantees for every connected signal: Orphanage, C02)."""
import z3
import vlsir.circuit_pb2 as vckt
from pyvc import *
from pyvc import loader
from .common import *
from . import c_export, c_import
from hdl21.module import Module

KEY = "hdl21.proto.exporting:export_connection_target"
SCHEMA_EXTRA = dict(c_import.SCHEMA_EXTRA)
SCHEMA_EXTRA.update({"Port.signal": "str", "Port.direction": "int"})


class ExportSliceCallee(Contract):
    key = "hdl21.proto.exporting:export_slice"
    pure = False
    raises = (RuntimeError, ValueError)
    returns = "ref"
    result_classes = (vckt.Slice,)

    def scenarios(self, eng):
        return []

    def frame(self, eng, st, a):          # proved in c_export.ExportSlice: only the slice's own cache may change
        st.heap.havoc_field("_inner")


class ExportConcatCallee(Contract):
    key = "hdl21.proto.exporting:export_concat"
    pure = False
    raises = (RuntimeError, ValueError, TypeError)
    returns = "ref"
    result_classes = (vckt.Concat,)

    def scenarios(self, eng):
        return []

    def frame(self, eng, st, a):          # export_concat only reads its parts (through export_slice: their caches)
        st.heap.havoc_field("_inner")


class ExportPortDirCallee(Contract):
    key = "hdl21.proto.exporting:export_port_dir"
    raises = (ValueError,)
    returns = "int"

    def scenarios(self, eng):
        return []


class ExportTarget(Contract):
    key = KEY
    props = ("C01", "C06", "C11")
    pure = False
    raises = (RuntimeError, ValueError, TypeError)
    returns = "ref"
    result_classes = (vckt.ConnectionTarget,)

    def scenarios(self, eng):
        from hdl21.bundle import BundleInstance
        from hdl21.portref import PortRef

        def mk(classes, named=True):
            def setup(eng, st):
                eng.field_classes.update(c_import.FIELD_CLASSES)
                s = sym_ref(st, "sig", classes)
                if named:
                    st.assume(z3.Not(st.heap.get("name$none", s.z)))
                return {"sig": s}
            return setup
        yield Scenario("signal", mk((Signal,)))
        yield Scenario("slice", mk((Slice,), False))
        yield Scenario("concat", mk((Concat,), False))
        s = Scenario("not-exportable", mk((BundleInstance, PortRef), False))
        s.expect_raise = True
        yield s

    def p_variant(self, eng, st0, st, a, res):
        if not isinstance(res, SRef):
            return False
        cls = eng.classes_of(st0, a.sig)[0]
        which = st.ghost.get(("oneof", zid(res.z), "stype"))
        fresh_ = z3.Not(st0.heap.get("$alive", res.z))
        if issubclass(cls, Signal):
            return z3.And(fresh_, z3.BoolVal(which == "sig"), st.heap.get("sig", res.z) == st0.heap.get("name", a.sig.z))
        if issubclass(cls, Slice):
            calls = [c for c in st.calls if c[0] == ExportSliceCallee.key]
            return z3.And(fresh_, z3.BoolVal(which == "slice" and len(calls) == 1 and calls[0][1].slize is a.sig),
                          st.heap.get("ConnectionTarget.slice", res.z) != NULL)
        calls = [c for c in st.calls if c[0] == ExportConcatCallee.key]
        return z3.And(fresh_, z3.BoolVal(which == "concat" and len(calls) == 1),
                      st.heap.get("ConnectionTarget.concat", res.z) != NULL)
    posts = property(lambda self: [("variant-and-content", self.p_variant)])
    # TypeError: not a leaf at all, or a concatenation (one of whose parts may not be one: through export_concat)
    reasons = property(lambda self: {TypeError: lambda eng, st0, a: not any(
        issubclass(k, (Signal, Slice)) for k in eng.classes_of(st0, a.sig))})
    must_raise = property(lambda self: [("not-a-connectable-leaf", lambda eng, st0, a: not any(
        issubclass(k, (Signal, Slice, Concat)) for k in eng.classes_of(st0, a.sig)))])


class ExportPort(Contract):
    key = "hdl21.proto.exporting:export_port"
    props = ("C01", "C11")
    pure = False
    raises = (ValueError,)
    returns = "ref"
    result_classes = (vckt.Port,)

    def scenarios(self, eng):
        def setup(eng, st):
            p = sym_ref(st, "port", (Signal,))
            st.assume(z3.Not(st.heap.get("name$none", p.z)))
            return {"port": p}
        yield Scenario("named-port", setup)

    def p_rec(self, eng, st0, st, a, res):
        if not isinstance(res, SRef):
            return False
        calls = [c for c in st.calls if c[0] == ExportPortDirCallee.key]
        return z3.And(st.heap.get("Port.signal", res.z) == st0.heap.get("name", a.port.z),
                      z3.BoolVal(len(calls) == 1 and calls[0][1].port is a.port))
    posts = property(lambda self: [("names-the-port", self.p_rec)])


def engine():
    return mk_engine(contracts=[ExportSliceCallee(), ExportConcatCallee(), ExportPortDirCallee()],
                     schema_extra=SCHEMA_EXTRA, field_classes=c_import.FIELD_CLASSES)


VERIFY = [ExportTarget(), ExportPort()]


@guarded("oi")
def roundtrip_obligations():
    """import_connection_target(export_connection_target(sig), module) is sig - one symbolic run through both bodies"""
    eng = mk_engine(contracts=[ExportSliceCallee(), ExportConcatCallee(), c_import.ImportConcat()],
                    schema_extra=SCHEMA_EXTRA, field_classes=c_import.FIELD_CLASSES,
                    inline={"hdl21.sliceable:is_sliceable"})
    ext_e = loader.extract(KEY)
    ext_i = loader.extract(c_import.KEY)
    info = {"sha": ext_e.sha + "+" + ext_i.sha, "lines": ext_e.lines, "path": ext_e.path, "paths": 0, "scenarios": 1}
    st = eng.new_state()
    sig = sym_ref(st, "sig", (Signal,))
    module = sym_ref(st, "module", (Module,))
    st.assume(st.heap.get("_initialized", module.z))
    st.assume(z3.Not(st.heap.get("name$none", sig.z)))
    ns = st.heap.get("namespace", module.z)
    st.assume(z3.Select(ns, st.heap.get("name", sig.z)) == sig.z)       # the signal is declared in the module
    obs = []
    eng.cuts = []
    for k1, s1, rec in eng.run(ext_e, st, {"sig": sig}):
        if k1 != "ret":
            obs.append(Obligation(f"{KEY}/roundtrip/export-raises", "raises", list(s1.pc), z3.BoolVal(False), KEY,
                                  "roundtrip", len(obs)))
            continue
        for k2, s2, back in eng.run(ext_i, s1, {"pconn": rec, "module": module}):
            info["paths"] += 1
            if k2 != "ret" or not isinstance(back, SRef):
                obs.append(Obligation(f"{KEY}/roundtrip/import-raises", "raises", list(s2.pc), z3.BoolVal(False), KEY,
                                      "roundtrip", len(obs)))
                continue
            obs.append(Obligation(f"{KEY}/roundtrip/p{len(obs)}/post.same-signal", "post", list(s2.pc), back.z == sig.z,
                                  KEY, "roundtrip", len(obs)))
    return obs, info


# ---------------------------------------------------------------------------------------------------------------------
# export_concat: VLSIR concatenations are most-significant part first, Hdl21's least-significant first - the exported
# parts are the exports of the parts in REVERSE order (tuple arity unrolled for 1-4 parts: bounded in the arity,
# symbolic in the parts).
# ---------------------------------------------------------------------------------------------------------------------
class ExportTargetCallee(Contract):
    key = KEY
    pure = False
    raises = (RuntimeError, ValueError, TypeError)
    returns = "ref"
    result_classes = (vckt.ConnectionTarget,)

    def scenarios(self, eng):
        return []

    def frame(self, eng, st, a):
        st.heap.havoc_field("_inner")

    def make_result(self, eng, st, a):
        return st.alloc(vckt.ConnectionTarget)


@guarded("koi", "hdl21.proto.exporting:export_concat")
def export_concat_obligations(max_arity=4):
    key = "hdl21.proto.exporting:export_concat"
    ext = loader.extract(key)
    info = {"sha": ext.sha, "lines": ext.lines, "path": ext.path, "paths": 0, "scenarios": 0, "unsupported": []}
    obs = []
    for arity in range(1, max_arity + 1):
        schema = dict(SCHEMA_EXTRA)
        schema["Concat.parts"] = "py"
        schema["parts"] = "seq[ref]"
        eng = mk_engine(contracts=[ExportTargetCallee()], schema_extra=schema, field_classes=c_import.FIELD_CLASSES)
        st = eng.new_state()
        cc = sym_ref(st, "concat", (Concat,))
        parts = tuple(sym_ref(st, f"part{k}", (Signal, Slice, Concat)) for k in range(arity))
        eng.write_field(st, cc, "parts", parts)
        eng.cuts = []
        try:
            outs = eng.run(ext, st, {"concat": cc})
        except Unsupported as e:
            info["unsupported"].append(f"arity {arity}: {e}")
            continue
        info["scenarios"] += 1
        for pi, (kind, s2, v) in enumerate(outs):
            info["paths"] += 1
            if kind != "ret":
                continue           # a part that cannot be exported: refusal is allowed
            calls = [c for c in s2.calls if c[0] == KEY]
            order_ok = len(calls) == arity and all(isinstance(calls[j][1].sig, SRef) and calls[j][1].sig.z.eq(parts[arity - 1 - j].z) for j in range(arity))
            goal = z3.BoolVal(False)
            if order_ok and isinstance(v, SRef):
                got = eng.read_field(s2, v, "parts")[0][1]
                if isinstance(got, (list, tuple)):      # (vlsir's Concat shares the class name: python-side field)
                    goal = z3.BoolVal(len(got) == arity and all(isinstance(g, SRef) for g in got))
                elif isinstance(got, SLoc):
                    goal = z3.Length(s2.heap.get(got.field, got.owner)) == arity
            obs.append(Obligation(f"{key}/arity{arity}/p{pi}/post.parts-in-reverse-order", "post", list(s2.pc), goal, key,
                                  f"arity{arity}", pi, {"trace": list(s2.trace), "havoc": list(s2.ghost.get("havoc", ()))}))
    return key, obs, info


@guarded("koi", "hdl21.proto.exporting:ProtoExporter.export_instance")
def export_instance_conn_obligations():
    """ProtoExporter.export_instance: the connection loop body located in the current source, executed for one arbitrary
    (port name, connectable) entry of inst.conns: one Connection record carrying that port name and the export of that
    very connectable is appended at the end of pinst.connections (so: one exported connection per entry, in order)."""
    import ast
    from pyvc.engine import Frame
    from hdl21.proto.exporting import ProtoExporter
    key = "hdl21.proto.exporting:ProtoExporter.export_instance"
    ext = loader.extract(key)
    info = {"sha": ext.sha, "lines": ext.lines, "path": ext.path, "paths": 0, "scenarios": 0, "unsupported": []}
    loops = [n for n in ast.walk(ext.node) if isinstance(n, ast.For) and "conns" in ast.unparse(n.iter)
             and isinstance(n.target, ast.Tuple)]
    obs = []
    if len(loops) != 1:
        info["unsupported"].append(f"expected one loop over inst.conns in export_instance, found {len(loops)}")
        return key, obs, info
    loop = loops[0]
    schema = dict(SCHEMA_EXTRA)
    schema.update({"Connection.portname": "str", "Connection.target": "ref", "connections": "py"})
    eng = mk_engine(contracts=[ExportTargetCallee()], schema_extra=schema, field_classes=c_import.FIELD_CLASSES)
    st = eng.new_state()
    me = sym_ref(st, "self", (ProtoExporter,))
    pinst = sym_ref(st, "pinst", (vckt.Instance,))
    before = tuple(sym_ref(st, f"earlier{k}", (vckt.Connection,)) for k in range(2))
    eng.write_field(st, pinst, "connections", before)
    conn = sym_ref(st, "conn", (Signal, Slice, Concat))
    tk, tv = (t.id for t in loop.target.elts)
    pname = SStr(z3.String("pname"))
    st.locals = {"self": me, "pinst": pinst, "inst": Opaque("inst"), tk: pname, tv: conn}
    eng.frames.append(Frame(ext, ext.key))
    eng.cuts = []
    try:
        outs = eng.exec_block(loop.body, st)
    except Unsupported as e:
        info["unsupported"].append(f"connection loop body: {e}")
        return key, obs, info
    finally:
        eng.frames.pop()
    info["scenarios"] = 1
    for pi, (kind, s2, v) in enumerate(outs):
        info["paths"] += 1
        if kind == "exc":
            continue       # an unexportable connectable: refusal is allowed
        calls = [c for c in s2.calls if c[0] == KEY]
        got = eng.read_field(s2, pinst, "connections")[0][1]
        goal = z3.BoolVal(False)
        if len(calls) == 1 and isinstance(calls[0][1].sig, SRef) and calls[0][1].sig.z.eq(conn.z) and \
                isinstance(got, tuple) and len(got) == 3 and all(g.z.eq(b.z) for g, b in zip(got[:2], before)) and \
                isinstance(got[2], SRef):
            rec = got[2]
            goal = z3.And(s2.heap.get("Connection.portname", rec.z) == pname.z,
                          s2.heap.get("Connection.target", rec.z) != NULL)
        obs.append(Obligation(f"{key}/connection-loop/p{pi}/post.one-record-appended", "post", list(s2.pc), goal, key,
                              "connection-loop", pi, {"trace": list(s2.trace), "havoc": list(s2.ghost.get("havoc", ()))}))
    return key, obs, info
