"""Obligations on hdl21/prefix.py (C14): the six comparison operators, __hash__, __int__, __float__ of `Prefixed`,
for ALL rational mantissas and every ordered pair of the 21 prefixes.

The real methods (and the helpers they call: `_rounded_to_smaller`, `to_prefixed`, `exact`, inlined from source) are
executed symbolically over exact rationals (z3 Reals): `number` is an arbitrary real, `prefix` is concrete per
scenario (21 x 21 scenarios), so `Fraction(10) ** prefix.value` is a constant and every query is linear real/integer
arithmetic with floor (round-half-even, truncation).

Clauses, taken from the property statement (L, R = exact values, T = 1e-20 in units of the larger prefix):
  never-raises      no path of any of the six operators raises
  agreement         |L - R| > T  =>  each operator returns what the same operator returns on (L, R)
  same-value        L == R => a == b, not a != b, not a < b, not a > b, a <= b, a >= b, hash(a) == hash(b)
  relations         exactly one of a < b, a == b, a > b;  (a <= b) == (a < b or a == b);  >= likewise;  != is not ==
  swap              (a < b) == (b > a), (a <= b) == (b >= a), (a == b) == (b == a), (a != b) == (b != a)
  int / float       int(a) is L truncated toward zero; float(a) is nearest_float(L)

Assumed (listed in the evidence): `Fraction(Decimal)` is exact for finite Decimals; `hash(Fraction)` and
`float(Fraction)` are functions of the rational value (CPython documents both); NaN / infinite mantissas are outside
the property ("finite prefixed numbers").
"""
import itertools
import z3
from fractions import Fraction
from pyvc import *
from pyvc import loader
from .common import *
from hdl21.prefix import Prefix, Prefixed

KEY = "hdl21.prefix:Prefixed"
SCHEMA_EXTRA = {"Prefixed.number": "real", "Prefixed.prefix": "py"}
INLINE = {"hdl21.prefix:_rounded_to_smaller", "hdl21.prefix:to_prefixed", "hdl21.prefix:Prefixed.exact"}
OPS = ("__lt__", "__le__", "__eq__", "__ne__", "__gt__", "__ge__")
N1, N2 = z3.Real("n1"), z3.Real("n2")


def engine():
    return mk_engine(inline=INLINE, schema_extra=SCHEMA_EXTRA)


def _setup(eng, p1, p2):
    st = eng.new_state()
    a = sym_ref(st, "a", (Prefixed,))
    b = sym_ref(st, "b", (Prefixed,))
    st.assume(a.z != b.z)
    st.heap.put("Prefixed.number", a.z, N1)
    st.heap.put("Prefixed.number", b.z, N2)
    eng.write_field(st, a, "prefix", p1)
    eng.write_field(st, b, "prefix", p2)
    return st, a, b


class Merged:
    """all paths of one call merged: a fresh result constant constrained per path"""
    def __init__(self, name, sort):
        self.name = name
        self.res = z3.Const(name, sort)
        self.facts = []       # pc => res == value
        self.raising = []     # (pc, Exc, trace)
        self.paths = 0
        self.havoc = []       # uncontracted calls met on some path


def run_merged(eng, method, st, args, name, sort):
    ext = loader.extract(f"{KEY}.{method}")
    eng.cuts = []
    base = len(st.pc)
    m = Merged(name, sort)
    for kind, s2, v in eng.run(ext, st.fork(), args):
        m.paths += 1
        m.havoc += [h for h in s2.ghost.get("havoc", ()) if h not in m.havoc]
        pc = z3.And(list(s2.pc)[base:]) if len(s2.pc) > base else z3.BoolVal(True)
        if kind == "exc":
            m.raising.append((pc, v, list(s2.trace)))
            continue
        if kind != "ret":
            raise Unsupported(f"{method}: outcome {kind}")
        if sort == z3.BoolSort():
            if isinstance(v, bool):
                zv = z3.BoolVal(v)
            elif isinstance(v, SBool):
                zv = v.z
            else:
                raise Unsupported(f"{method} returned {v!r}, not a bool")
        elif sort == z3.IntSort():
            if isinstance(v, bool) or not isinstance(v, (int, SInt)):
                raise Unsupported(f"{method} returned {v!r}, not an int")
            zv = zint(v)
        else:
            if not isinstance(v, SReal):
                raise Unsupported(f"{method} returned {v!r}, not an exact real")
            zv = v.z
        m.facts.append(z3.Implies(pc, m.res == zv))
    return ext, m


def pair_obligations(eng, p1, p2, info):
    sc = f"{p1.name}x{p2.name}"
    st, a, b = _setup(eng, p1, p2)
    base = list(st.pc)
    L = N1 * zreal(Fraction(10) ** p1.value)
    R = N2 * zreal(Fraction(10) ** p2.value)
    T = zreal(Fraction(10) ** (max(p1.value, p2.value) - 20))
    ab, ba = {}, {}
    for op in OPS:
        ext, ab[op] = run_merged(eng, op, st, {"self": a, "other": b}, f"r_ab{op}", z3.BoolSort())
        _, ba[op] = run_merged(eng, op, st, {"self": b, "other": a}, f"r_ba{op}", z3.BoolSort())
        info["paths"] += ab[op].paths + ba[op].paths
    _, ha = run_merged(eng, "__hash__", st, {"self": a}, "h_a", z3.IntSort())
    _, hb = run_merged(eng, "__hash__", st, {"self": b}, "h_b", z3.IntSort())
    _, ia = run_merged(eng, "__int__", st, {"self": a}, "i_a", z3.IntSort())
    _, fa = run_merged(eng, "__float__", st, {"self": a}, "f_a", z3.RealSort())
    info["paths"] += ha.paths + hb.paths + ia.paths + fa.paths
    info["sha"], info["lines"], info["path"] = ext.sha, ext.lines, ext.path
    obs = []
    everything = list(ab.values()) + list(ba.values()) + [ha, hb, ia, fa]

    def ob(clause, goal, uses, kind="post"):
        # only the facts about the results a clause mentions: small queries stay fast and stable
        facts = list(base)
        for m in uses:
            facts += m.facts
        o = Obligation(f"{KEY}/{sc}/p0/{clause}", kind, facts, goal, KEY, sc, len(obs))
        o.meta["prefixes"] = (p1.name, p2.name)
        o.meta["first"] = "cvc5"
        o.meta["havoc"] = [h for m in (uses or everything) for h in m.havoc]
        obs.append(o)
    # never-raises: every raising path is infeasible
    raising = [pc for m in everything for pc, _, _ in m.raising]
    ob("never-raises", z3.Not(z3.Or(raising)) if raising else z3.BoolVal(True), [])
    r = {op: ab[op].res for op in OPS}
    q = {op: ba[op].res for op in OPS}
    exact = {"__lt__": lambda x, y: x < y, "__le__": lambda x, y: x <= y, "__eq__": lambda x, y: x == y,
             "__ne__": lambda x, y: x != y, "__gt__": lambda x, y: x > y, "__ge__": lambda x, y: x >= y}
    mirror = {"__lt__": "__gt__", "__le__": "__ge__", "__eq__": "__eq__", "__ne__": "__ne__", "__gt__": "__lt__",
              "__ge__": "__le__"}
    for op in OPS:
        ob(f"agreement{op}", z3.Implies(z3.Or(L < R - T, L > R + T), r[op] == exact[op](L, R)), [ab[op]])
        ob(f"same-value{op}", z3.Implies(L == R, r[op] == z3.BoolVal(op in ("__eq__", "__le__", "__ge__"))), [ab[op]])
        ob(f"swap{op}", r[op] == q[mirror[op]], [ab[op], ba[mirror[op]]])
    ob("same-value.hash", z3.Implies(L == R, ha.res == hb.res), [ha, hb])
    three = [ab["__lt__"], ab["__eq__"], ab["__gt__"]]
    one = z3.Or(z3.And(r["__lt__"], z3.Not(r["__eq__"]), z3.Not(r["__gt__"])),
                z3.And(z3.Not(r["__lt__"]), r["__eq__"], z3.Not(r["__gt__"])),
                z3.And(z3.Not(r["__lt__"]), z3.Not(r["__eq__"]), r["__gt__"]))
    ob("relations.trichotomy", one, three)
    ob("relations.le", r["__le__"] == z3.Or(r["__lt__"], r["__eq__"]), [ab["__le__"], ab["__lt__"], ab["__eq__"]])
    ob("relations.ge", r["__ge__"] == z3.Or(r["__gt__"], r["__eq__"]), [ab["__ge__"], ab["__gt__"], ab["__eq__"]])
    ob("relations.ne", r["__ne__"] == z3.Not(r["__eq__"]), [ab["__ne__"], ab["__eq__"]])
    ob("int-truncates", ia.res == z_trunc(L), [ia])
    ob("float-nearest", fa.res == z3.Function("nearest_float", z3.RealSort(), z3.RealSort())(L), [fa])
    # vacuity guard: the merged facts are satisfiable together (some result assignment exists for some mantissas)
    facts = list(base)
    for m in everything:
        facts += m.facts
    o = Obligation(f"{KEY}/{sc}/cover", "cover", facts, z3.BoolVal(False), KEY, sc, len(obs))
    o.meta["expect"] = "sat"
    return obs, o


def all_pairs():
    return list(itertools.product(list(Prefix), repeat=2))


def obligations(pairs=None):
    eng = engine()
    info = {"paths": 0, "scenarios": 0, "unsupported": []}
    obs, covers = [], []
    for p1, p2 in (pairs or all_pairs()):
        try:
            o, c = pair_obligations(eng, p1, p2, info)
        except Unsupported as e:
            info["unsupported"].append(f"{p1.name}x{p2.name}: {e}")
            continue
        info["scenarios"] += 1
        obs += o
        covers.append(c)
    return obs, covers, info


def decimal_model(ob, places=40):
    """Re-solve the negated goal with both mantissas restricted to decimals of <= `places` fractional digits, so that the
    counterexample can be replayed on the real (Decimal-based) code.  -> (n1, n2) as Fractions, or None"""
    s = z3.Solver()
    s.set("timeout", 20000)
    k1, k2 = z3.Int("k1!dec"), z3.Int("k2!dec")
    scale = z3.ToReal(z3.IntVal(10 ** places))
    for c in ob.pc:
        s.add(c)
    s.add(z3.Not(ob.goal), N1 * scale == z3.ToReal(k1), N2 * scale == z3.ToReal(k2))
    if s.check() != z3.sat:
        return None
    m = s.model()
    v1 = m.eval(k1, model_completion=True).as_long()
    v2 = m.eval(k2, model_completion=True).as_long()
    return Fraction(v1, 10 ** places), Fraction(v2, 10 ** places)
