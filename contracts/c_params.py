"""Contracts for parameter export (C13): export_prefix, export_param_value."""
import z3
import vlsir
from pyvc import *
from .common import *
from hdl21.prefix import Prefix, Prefixed
from hdl21.literal import Literal

SCHEMA_EXTRA = {"literal": "str", "int64_value": "int", "text": "str", "prefixed": "ref", "Prefixed.prefix": "py",
                "string_value": "str"}


class ExportPrefix(Contract):
    """export_prefix(pre): total over the 21 prefixes; the VLSIR prefix of the same name."""
    key = "hdl21.proto.exporting:export_prefix"
    props = ("C13", "C11")
    raises = ()

    def scenarios(self, eng):
        def setup(eng, st):
            z = z3.Int("pre")
            st.assume(z3.And(z >= 0, z < len(list(Prefix))))
            return {"pre": SEnum(z, Prefix)}
        yield Scenario("any-prefix", setup)

    def p_same(self, eng, st0, st, a, res):
        ok = []
        for k, m in enumerate(Prefix):
            ok.append(z3.Implies(a.pre.z == k, z3.BoolVal(res == getattr(vlsir.SIPrefix, m.name))))
        return z3.And(ok)
    posts = property(lambda self: [("same-name", self.p_same)])


class ExportPrefixed(Contract):
    key = "hdl21.proto.exporting:export_prefixed"
    raises = (ValueError,)
    returns = "ref"
    result_classes = (vlsir.Prefixed,)

    def scenarios(self, eng):
        return []


class ExportParamValue(Contract):
    """export_param_value(val): the ParamValue variant matching val's type, carrying exactly val; None -> None;
    anything outside ToVlsirParam -> TypeError."""
    key = "hdl21.proto.exporting:export_param_value"
    props = ("C13",)
    pure = False
    raises = (TypeError, ValueError)

    def scenarios(self, eng):
        def mk(nm, f, expect_raise=False):
            s = Scenario(nm, f)
            s.expect_raise = expect_raise
            return s
        yield mk("None", lambda eng, st: {"val": None})
        yield mk("str", lambda eng, st: {"val": SStr(z3.String("s"))})
        yield mk("int", lambda eng, st: {"val": SInt(z3.Int("n"))})
        yield mk("bool", lambda eng, st: {"val": SBool(z3.Bool("b"))})
        yield mk("Literal", lambda eng, st: {"val": sym_ref(st, "lit", (Literal,))})
        yield mk("Prefixed", lambda eng, st: {"val": sym_ref(st, "pre", (Prefixed,))})
        from hdl21.module import Module
        yield mk("unsupported", lambda eng, st: {"val": sym_ref(st, "obj", (Module, Signal))}, True)

    def p_variant(self, eng, st0, st, a, res):
        v = a.val
        if v is None:
            return res is None
        if not isinstance(res, SRef):
            return False
        g = lambda f: st.heap.get(f, res.z)
        if isinstance(v, SStr):
            return g("literal") == v.z
        if isinstance(v, (SInt, SBool)):
            return g("int64_value") == zint(v)
        if isinstance(v, SRef) and issubclass(eng.classes_of(st0, v)[0], Literal):
            return g("literal") == st0.heap.get("text", v.z)
        if isinstance(v, SRef) and issubclass(eng.classes_of(st0, v)[0], Prefixed):
            called = [c for c in st.calls if c[0] == "hdl21.proto.exporting:export_prefixed"]
            return z3.And(g("prefixed") != NULL, z3.BoolVal(len(called) == 1 and called[0][1].pref is v))
        return False
    posts = property(lambda self: [("variant-and-value", self.p_variant)])

    def _supported(self, eng, st0, a):
        v = a.val
        if isinstance(v, SRef):
            return all(issubclass(k, (Literal, Prefixed)) for k in eng.classes_of(st0, v))
        return True
    reasons = property(lambda self: {
        TypeError: lambda eng, st0, a: not self._supported(eng, st0, a),
        # only through export_prefixed (a Prefixed whose prefix is not one of the 21)
        ValueError: lambda eng, st0, a: isinstance(a.val, SRef) and issubclass(eng.classes_of(st0, a.val)[0], Prefixed)})
    must_raise = property(lambda self: [("unsupported", lambda eng, st0, a: not self._supported(eng, st0, a))])


PULSE_MAP = {"v1": "v1", "v2": "v2", "td": "delay", "tr": "rise", "tf": "fall", "tpw": "width", "tper": "period"}


class DictifyParams(Contract):
    key = "hdl21.proto.exporting:dictify_params"
    raises = (TypeError,)

    def scenarios(self, eng):
        return []


class ExportPrimitiveParams(Contract):
    """export_primitive_params(params): a pulse source's parameters under their VLSIR names (delay->td, rise->tr,
    fall->tf, width->tpw, period->tper, v1, v2), every value being the parameter object itself; other primitives'
    parameters pass through name by name."""
    key = "hdl21.proto.exporting:export_primitive_params"
    props = ("C13",)
    raises = (TypeError,)

    def scenarios(self, eng):
        from hdl21.primitives import PulseVoltageSourceParams, DcVoltageSourceParams

        def pulse(eng, st):
            p = sym_ref(st, "params", (PulseVoltageSourceParams,))
            eng.field_classes.update({f"PulseVoltageSourceParams.{f}": (Prefixed, Literal) for f in PULSE_MAP.values()})
            return {"params": p}
        yield Scenario("pulse", pulse)

        def other(eng, st):
            return {"params": sym_ref(st, "params", (DcVoltageSourceParams,))}
        yield Scenario("other-primitive", other)

    def p_map(self, eng, st0, st, a, res):
        from hdl21.primitives import PulseVoltageSourceParams
        if not issubclass(eng.classes_of(st0, a.params)[0], PulseVoltageSourceParams):
            calls = [c for c in st.calls if c[0] == DictifyParams.key]
            return len(calls) == 1 and calls[0][1].params is a.params
        if not isinstance(res, dict) or list(res) != list(PULSE_MAP):
            return False
        conj = []
        for vname, field in PULSE_MAP.items():
            want = st0.heap.get(f"PulseVoltageSourceParams.{field}", a.params.z)
            got = res[vname]
            conj.append(want == NULL if got is None else (got.z == want if isinstance(got, SRef) else z3.BoolVal(False)))
        return z3.And(conj)
    posts = property(lambda self: [("documented-renaming", self.p_map)])


def engine():
    schema = dict(SCHEMA_EXTRA)
    schema.update({f"PulseVoltageSourceParams.{f}": "ref" for f in PULSE_MAP.values()})
    return mk_engine(contracts=CONTRACTS, schema_extra=schema)


CONTRACTS = [ExportPrefix(), ExportPrefixed(), ExportParamValue(), DictifyParams(), ExportPrimitiveParams()]
VERIFY = [CONTRACTS[0], CONTRACTS[2], CONTRACTS[4]]
