"""Contracts for parameter export (C13): export_prefix, export_param_value."""
import z3
import vlsir
from pyvc import *
from .common import *
from hdl21.prefix import Prefix, Prefixed
from hdl21.literal import Literal

SCHEMA_EXTRA = {"literal": "str", "int64_value": "int", "text": "str", "prefixed": "ref", "Prefixed.prefix": "py",
                "string_value": "str"}


class ExportPrefix(Contract):
    """export_prefix(pre): total over the 21 prefixes; the VLSIR prefix of the same name."""
    key = "hdl21.proto.exporting:export_prefix"
    props = ("C13", "C11")
    raises = ()

    def scenarios(self, eng):
        def setup(eng, st):
            z = z3.Int("pre")
            st.assume(z3.And(z >= 0, z < len(list(Prefix))))
            return {"pre": SEnum(z, Prefix)}
        yield Scenario("any-prefix", setup)

    def p_same(self, eng, st0, st, a, res):
        ok = []
        for k, m in enumerate(Prefix):
            ok.append(z3.Implies(a.pre.z == k, z3.BoolVal(res == getattr(vlsir.SIPrefix, m.name))))
        return z3.And(ok)
    posts = property(lambda self: [("same-name", self.p_same)])


class ExportPrefixed(Contract):
    key = "hdl21.proto.exporting:export_prefixed"
    raises = (ValueError,)
    returns = "ref"
    result_classes = (vlsir.Prefixed,)

    def scenarios(self, eng):
        return []


class ExportParamValue(Contract):
    """export_param_value(val): the ParamValue variant matching val's type, carrying exactly val; None -> None;
    anything outside ToVlsirParam -> TypeError."""
    key = "hdl21.proto.exporting:export_param_value"
    props = ("C13",)
    pure = False
    raises = (TypeError, ValueError)

    def scenarios(self, eng):
        def mk(nm, f, expect_raise=False):
            s = Scenario(nm, f)
            s.expect_raise = expect_raise
            return s
        yield mk("None", lambda eng, st: {"val": None})
        yield mk("str", lambda eng, st: {"val": SStr(z3.String("s"))})
        yield mk("int", lambda eng, st: {"val": SInt(z3.Int("n"))})
        yield mk("bool", lambda eng, st: {"val": SBool(z3.Bool("b"))})
        yield mk("Literal", lambda eng, st: {"val": sym_ref(st, "lit", (Literal,))})
        yield mk("Prefixed", lambda eng, st: {"val": sym_ref(st, "pre", (Prefixed,))})
        from hdl21.module import Module
        yield mk("unsupported", lambda eng, st: {"val": sym_ref(st, "obj", (Module, Signal))}, True)

    def p_variant(self, eng, st0, st, a, res):
        v = a.val
        if v is None:
            return res is None
        if not isinstance(res, SRef):
            return False
        g = lambda f: st.heap.get(f, res.z)
        if isinstance(v, SStr):
            return g("literal") == v.z
        if isinstance(v, (SInt, SBool)):
            return g("int64_value") == zint(v)
        if isinstance(v, SRef) and issubclass(eng.classes_of(st0, v)[0], Literal):
            return g("literal") == st0.heap.get("text", v.z)
        if isinstance(v, SRef) and issubclass(eng.classes_of(st0, v)[0], Prefixed):
            called = [c for c in st.calls if c[0] == "hdl21.proto.exporting:export_prefixed"]
            return z3.And(g("prefixed") != NULL, z3.BoolVal(len(called) == 1 and called[0][1].pref is v))
        return False
    posts = property(lambda self: [("variant-and-value", self.p_variant)])

    def _supported(self, eng, st0, a):
        v = a.val
        if isinstance(v, SRef):
            return all(issubclass(k, (Literal, Prefixed)) for k in eng.classes_of(st0, v))
        return True
    reasons = property(lambda self: {
        TypeError: lambda eng, st0, a: not self._supported(eng, st0, a),
        # only through export_prefixed (a Prefixed whose prefix is not one of the 21)
        ValueError: lambda eng, st0, a: isinstance(a.val, SRef) and issubclass(eng.classes_of(st0, a.val)[0], Prefixed)})
    must_raise = property(lambda self: [("unsupported", lambda eng, st0, a: not self._supported(eng, st0, a))])


PULSE_MAP = {"v1": "v1", "v2": "v2", "td": "delay", "tr": "rise", "tf": "fall", "tpw": "width", "tper": "period"}


class DictifyParams(Contract):
    key = "hdl21.proto.exporting:dictify_params"
    raises = (TypeError,)

    def scenarios(self, eng):
        return []


class ExportPrimitiveParams(Contract):
    """export_primitive_params(params): a pulse source's parameters under their VLSIR names (delay->td, rise->tr,
    fall->tf, width->tpw, period->tper, v1, v2), every value being the parameter object itself; other primitives'
    parameters pass through name by name."""
    key = "hdl21.proto.exporting:export_primitive_params"
    props = ("C13",)
    raises = (TypeError,)

    def scenarios(self, eng):
        from hdl21.primitives import PulseVoltageSourceParams, DcVoltageSourceParams

        def pulse(eng, st):
            p = sym_ref(st, "params", (PulseVoltageSourceParams,))
            eng.field_classes.update({f"PulseVoltageSourceParams.{f}": (Prefixed, Literal) for f in PULSE_MAP.values()})
            return {"params": p}
        yield Scenario("pulse", pulse)

        def other(eng, st):
            return {"params": sym_ref(st, "params", (DcVoltageSourceParams,))}
        yield Scenario("other-primitive", other)

    def p_map(self, eng, st0, st, a, res):
        from hdl21.primitives import PulseVoltageSourceParams
        if not issubclass(eng.classes_of(st0, a.params)[0], PulseVoltageSourceParams):
            calls = [c for c in st.calls if c[0] == DictifyParams.key]
            return len(calls) == 1 and calls[0][1].params is a.params
        if not isinstance(res, dict) or list(res) != list(PULSE_MAP):
            return False
        conj = []
        for vname, field in PULSE_MAP.items():
            want = st0.heap.get(f"PulseVoltageSourceParams.{field}", a.params.z)
            got = res[vname]
            conj.append(want == NULL if got is None else (got.z == want if isinstance(got, SRef) else z3.BoolVal(False)))
        return z3.And(conj)
    posts = property(lambda self: [("documented-renaming", self.p_map)])


def engine():
    schema = dict(SCHEMA_EXTRA)
    schema.update({f"PulseVoltageSourceParams.{f}": "ref" for f in PULSE_MAP.values()})
    return mk_engine(contracts=CONTRACTS, schema_extra=schema)


CONTRACTS = [ExportPrefix(), ExportPrefixed(), ExportParamValue(), DictifyParams(), ExportPrimitiveParams()]
VERIFY = [CONTRACTS[0], CONTRACTS[2], CONTRACTS[4]]


# ---------------------------------------------------------------------------------------------------------------------
# export_prefixed proved over exact rationals (the mantissa is an arbitrary real; finite Decimals are exact rationals)
# ---------------------------------------------------------------------------------------------------------------------
class ExportPrefixedProved(Contract):
    """export_prefixed(pref): never raises; the prefix is export_prefix(pref.prefix); a mantissa that is an integer
    within the int64 range goes out as exactly that integer, anything else as its decimal string - so the exported value
    is the number, whatever its size."""
    key = "hdl21.proto.exporting:export_prefixed"
    props = ("C13",)
    pure = False
    raises = ()
    returns = "ref"
    result_classes = (vlsir.Prefixed,)

    def scenarios(self, eng):
        def setup(eng, st):
            p = sym_ref(st, "pref", (Prefixed,))
            z = z3.Int("pre")
            st.assume(z3.And(z >= 0, z < len(list(Prefix))))
            eng.write_field(st, p, "prefix", SEnum(z, Prefix))
            return {"pref": p}
        yield Scenario("any-mantissa-any-prefix", setup)

    def p_value(self, eng, st0, st, a, res):
        if not isinstance(res, SRef):
            return False
        n = st0.heap.get("Prefixed.number", a.pref.z)
        isint = z3.ToReal(z3.ToInt(n)) == n
        fits = z3.And(n >= -(2 ** 63), n < 2 ** 63)
        i64 = st.heap.get("int64_value", res.z)
        sv = st.heap.get("string_value", res.z)
        dstr = z3.Function("decimal_str", z3.RealSort(), z3.StringSort())
        which = st.heap.get("$oneof_number", res.z) if "$oneof_number" in st.heap.schema else None
        return z3.And(z3.Implies(z3.And(isint, fits), z3.And(z3.ToReal(i64) == n, sv == z3.StringVal(""))),
                      z3.Implies(z3.Not(z3.And(isint, fits)), z3.And(sv == dstr(n), i64 == 0)))

    def p_prefix(self, eng, st0, st, a, res):
        if not isinstance(res, SRef):
            return False
        pre = eng.read_field(st0, a.pref, "prefix")[0][1]
        got = eng.read_field(st, res, "prefix")[0][1]     # (vlsir.Prefixed shares the class name: same per-class key)
        if not isinstance(got, (int, SInt)):
            return False
        got = zint(got)
        return z3.And([z3.Implies(pre.z == k, got == int(getattr(vlsir.SIPrefix, m.name))) for k, m in enumerate(Prefix)])
    posts = property(lambda self: [("value-exact", self.p_value), ("prefix-through-export_prefix", self.p_prefix)])


class ExportPrefixEnum(ExportPrefix):
    """export_prefix as a callee (proved above): the VLSIR enum number of the prefix of the same name"""
    returns = "int"

    def scenarios(self, eng):
        return []

    def p_num(self, eng, st0, st, a, res):
        return z3.And([z3.Implies(a.pre.z == k, zint(res) == int(getattr(vlsir.SIPrefix, m.name)))
                       for k, m in enumerate(Prefix)])
    posts = property(lambda self: [("same-name", self.p_num)])


def prefixed_engine():
    schema = dict(SCHEMA_EXTRA)
    schema.update({"Prefixed.number": "real", "Prefixed.prefix": "py", "vlsir_prefix": "int"})
    return mk_engine(contracts=[ExportPrefixEnum()], schema_extra=schema)


VERIFY_PREFIXED = [ExportPrefixedProved()]
