"""Contracts for hdl21/generator.py:run (C08 exception safety of the generator cache, C09 memoisation)."""
import z3
from pyvc import *
from .common import *
from hdl21.module import Module
from hdl21.generator import Generator, GeneratorCall, GeneratorCache

SCHEMA_EXTRA = {"GeneratorCache.done": "map[key,ref]", "GeneratorCache.pending": "set[key]",
                "GeneratorCache.stack": "seq[ref]", "gen": "ref", "enable_cache": "bool",
                "_generated_by": "ref", "params": "py", "func": "py", "paramtype": "py"}
FIELD_CLASSES = {"gen": (Generator,), "GeneratorCache.done[]": (Module,), "GeneratorCache.stack[]": (GeneratorCall,),
                 "_generated_by": (GeneratorCall,)}
GC = z3.Int("gencache")
CLASS_ATTRS = {(Generator, "Cache"): lambda eng, st, obj: SRef(GC, (GeneratorCache,))}
EQ = z3.Function("eqclass", z3.IntSort(), z3.IntSort())
_k = z3.Int("qk")

D, P, S = "GeneratorCache.done", "GeneratorCache.pending", "GeneratorCache.stack"


def cache_spec(st0, st):
    d0, d1 = st0.heap.get(D, GC), st.heap.get(D, GC)
    return z3.And(st.heap.get(P, GC) == st0.heap.get(P, GC), st.heap.get(S, GC) == st0.heap.get(S, GC),
                  z3.ForAll([_k], z3.Implies(z3.Select(d0, _k) != NULL, z3.Select(d1, _k) == z3.Select(d0, _k))))


class InnerRun(Contract):
    """_run(call): runs user code (the generator body), which may itself call generators: ASSUMED to leave the pending
    set and the stack as found and to keep existing cache entries (this is `run`'s own contract, used modularly)."""
    key = "hdl21.generator:_run"
    props = ("C08", "C09")
    pure = False
    raises = (Exception,)
    returns = "ref"
    result_classes = (Module,)

    def scenarios(self, eng):
        return []

    def frame(self, eng, st, a):
        keep = {f: st.heap.arr(f) for f in ("gen", "enable_cache", "$alive", "$cls")}
        st.heap.havoc_all()
        # assumed: generator bodies do not mutate Generator / GeneratorCall objects
        for f, arr in keep.items():
            st.heap.arrays[f] = arr
    posts = property(lambda self: [("cache", lambda eng, st0, st, a, res: cache_spec(st0, st))])
    xposts = property(lambda self: [("cache", lambda eng, st0, st, a, E: cache_spec(st0, st))])


class Run(Contract):
    key = "hdl21.generator:run"
    props = ("C08", "C09")
    pure = False
    raises = (Exception,)
    returns = "ref"
    result_classes = (Module,)

    def scenarios(self, eng):
        def setup(eng, st):
            eng.field_classes.update(FIELD_CLASSES)
            call = sym_ref(st, "call", (GeneratorCall,))
            st.assume(GC != NULL)
            st.assume(st.heap.get("$alive", GC))
            gen = st.heap.get("gen", call.z)
            st.assume(gen != NULL)
            st.assume(st.heap.get("$alive", gen))
            st.assume(st.heap.get("$cls", gen) == st.classid(Generator))
            return {"call": call}
        yield Scenario("any", setup)

    def frame(self, eng, st, a):
        st.heap.havoc_all()

    @staticmethod
    def _cached(st0, a):
        gen = st0.heap.get("gen", a.call.z)
        return z3.And(st0.heap.get("enable_cache", gen), z3.Select(st0.heap.get(D, GC), EQ(a.call.z)) != NULL)

    def p_memo(self, eng, st0, st, a, res):
        """a cached call returns the stored module and touches nothing (the body is not run)"""
        same = z3.And([st.heap.arr(f) == st0.heap.arr(f) for f in (D, P, S, "name", "_generated_by")])
        return z3.Implies(self._cached(st0, a),
                          z3.And(res.z == z3.Select(st0.heap.get(D, GC), EQ(a.call.z)), same))

    def p_stored(self, eng, st0, st, a, res):
        gen = st0.heap.get("gen", a.call.z)
        return z3.Implies(st0.heap.get("enable_cache", gen), z3.Select(st.heap.get(D, GC), EQ(a.call.z)) == res.z)

    def p_cache(self, eng, st0, st, a, res):
        return cache_spec(st0, st)

    posts = property(lambda self: [("memo", self.p_memo), ("stored", self.p_stored), ("cache-restored", self.p_cache)])
    xposts = property(lambda self: [("cache-restored", lambda eng, st0, st, a, E: cache_spec(st0, st))])
    must_raise = property(lambda self: [("circular", lambda eng, st0, a: z3.And(
        st0.heap.get("enable_cache", st0.heap.get("gen", a.call.z)),
        z3.Select(st0.heap.get(D, GC), EQ(a.call.z)) == NULL,
        z3.Select(st0.heap.get(P, GC), EQ(a.call.z))))])


CONTRACTS = [Run(), InnerRun()]
VERIFY = [CONTRACTS[0]]


# ---------------------------------------------------------------------------------------------------------------------
# _run itself: the generator body is user code (ASSUMED: keeps the cache bookkeeping, returns anything); what _run does
# with its result is proved - one module, one name (C09): a module that comes back already owned by a generator call
# (handed along, by ANY generator including the same one) keeps its name; a fresh one is named exactly once.
# ---------------------------------------------------------------------------------------------------------------------
import hdl21 as _h


@_h.paramclass
class StubParams:
    p = _h.Param(dtype=int, desc="p", default=0)


def generator_body(params):          # stands for call.gen.func: never executed, its contract is GenBody
    raise NotImplementedError


GENNAME = z3.Function("generator_name", z3.IntSort(), z3.StringSort())
UNIQ = z3.Function("unique_name_of", z3.IntSort(), z3.StringSort())
HASP = z3.Bool("generator_has_params")
RUN_CLASS_ATTRS = dict(CLASS_ATTRS)
RUN_CLASS_ATTRS.update({
    (Generator, "func"): lambda eng, st, obj: generator_body,
    (Generator, "Params"): lambda eng, st, obj: StubParams,
    (Generator, "name"): lambda eng, st, obj: SStr(GENNAME(obj.z)),
})


class GenBody(Contract):
    """ASSUMED contract of an arbitrary generator body: any heap effect that keeps cache_spec (it may call generators),
    never mutates Generator / GeneratorCall objects; returns a Module (new or existing, named or not, owned by a call
    or not), or a non-Module, or raises."""
    key = "contracts.c_generator:generator_body"
    pure = False

    def scenarios(self, eng):
        return []

    def apply(self, eng, st, args, kwargs, node=None):
        from hdl21.signal import Signal
        st0 = st.fork()
        outs = []
        for kind in ("module", "not-a-module", "raises"):
            n = st.fork()
            keep = {f: n.heap.arr(f) for f in ("gen", "enable_cache", "$cls")}
            n.heap.havoc_all()
            for f, arr in keep.items():
                n.heap.arrays[f] = arr
            n.assume(cache_spec(st0, n))
            if kind == "raises":
                outs.append((n, Exc(Exception, "from the generator body")))
                continue
            m = fresh("body_result", Ref)
            n.assume(m != NULL)
            n.assume(n.heap.get("$alive", m))
            cls = Module if kind == "module" else Signal
            n.assume(n.heap.get("$cls", m) == n.classid(cls))
            if kind == "module":
                n.assume(n.heap.get("_initialized", m))
                n.assume(n.heap.get("Module._elaborated", m) == NULL)
            n.ghost["body_heap"] = n.heap.copy()
            n.ghost["body_result"] = m
            if eng.feasible(n):
                outs.append((n, SRef(m, (cls,))))
        return outs


class UniqueNameStub(Contract):
    key = "hdl21.params:_unique_name"
    pure = True

    def scenarios(self, eng):
        return []

    def apply(self, eng, st, args, kwargs, node=None):
        p = args[0]
        return [(st, SStr(UNIQ(p.z) if isinstance(p, SRef) else fresh("uniq", z3.StringSort())))]


class HasParamsStub(Contract):
    key = "hdl21.params:hasparams"
    pure = True

    def scenarios(self, eng):
        return []

    def apply(self, eng, st, args, kwargs, node=None):
        return [(st, SBool(HASP))]


class InnerRunProved(Contract):
    key = "hdl21.generator:_run"
    props = ("C09", "C08")
    pure = False
    raises = (Exception, RuntimeError)
    returns = "ref"
    result_classes = (Module,)

    def scenarios(self, eng):
        from hdl21.signal import Signal

        def base(eng, st):
            eng.field_classes.update(FIELD_CLASSES)
            call = sym_ref(st, "call", (GeneratorCall,))
            st.assume(GC != NULL)
            st.assume(st.heap.get("$alive", GC))
            gen = st.heap.get("gen", call.z)
            st.assume(gen != NULL)
            st.assume(st.heap.get("$alive", gen))
            st.assume(st.heap.get("$cls", gen) == st.classid(Generator))
            return call

        def valid(eng, st):
            call = base(eng, st)
            eng.write_field(st, call, "params", sym_ref(st, "params", (StubParams,)))
            return {"call": call}

        def invalid(eng, st):
            call = base(eng, st)
            eng.write_field(st, call, "params", sym_ref(st, "params", (Signal,)))
            return {"call": call}
        yield Scenario("valid-params", valid)
        s = Scenario("params-of-the-wrong-class", invalid)
        s.expect_raise = True
        yield s

    # ---- posts
    @staticmethod
    def _body(st):
        return st.ghost.get("body_heap"), st.ghost.get("body_result")

    def p_result(self, eng, st0, st, a, res):
        hb, m = self._body(st)
        if hb is None or not isinstance(res, SRef):
            return False
        return z3.And(res.z == m, st.heap.get("_generated_by", m) == a.call.z)

    def p_keeps_name(self, eng, st0, st, a, res):
        """one module, one name: a result that already belongs to a generator call keeps the name it has"""
        hb, m = self._body(st)
        owned = hb.get("_generated_by", m) != NULL
        same = z3.And(st.heap.get("name$none", m) == hb.get("name$none", m),
                      z3.Implies(z3.Not(hb.get("name$none", m)), st.heap.get("name", m) == hb.get("name", m)))
        return z3.Implies(owned, same)

    def p_named_once(self, eng, st0, st, a, res):
        """a fresh result is named: <its own name, or the generator's> [ '(' unique-name-of-params ')' ]"""
        hb, m = self._body(st)
        fresh_ = hb.get("_generated_by", m) == NULL
        gen = st0.heap.get("gen", a.call.z)
        stem = z3.If(hb.get("name$none", m), GENNAME(gen), hb.get("name", m))
        params = eng.read_field(st0, a.call, "params")[0][1]
        full = z3.If(HASP, z3.Concat(stem, z3.StringVal("("), UNIQ(params.z), z3.StringVal(")")), stem)
        return z3.Implies(fresh_, z3.And(z3.Not(st.heap.get("name$none", m)), st.heap.get("name", m) == full))

    def p_frame(self, eng, st0, st, a, res):
        """beyond the body's own effects, only the result's name and owner change"""
        hb, m = self._body(st)
        r = z3.Int("qr")
        cs = []
        for f in st.heap.schema:
            if f.startswith("$") and f != "$alive":
                continue
            try:
                a1, a0 = st.heap.arr(f), hb.arr(f)
            except Exception:
                continue
            if f in ("name", "name$none", "_generated_by"):
                cs.append(z3.ForAll([r], z3.Implies(r != m, z3.Select(a1, r) == z3.Select(a0, r))))
            else:
                cs.append(a1 == a0)
        return z3.And(cs)

    posts = property(lambda self: [("result-owned-by-call", self.p_result), ("handed-along-keeps-name", self.p_keeps_name),
                                   ("fresh-named-once", self.p_named_once), ("frame", self.p_frame),
                                   ("cache", lambda eng, st0, st, a, res: cache_spec(st0, st))])
    xposts = property(lambda self: [("cache", lambda eng, st0, st, a, E: cache_spec(st0, st))])


RUN_CONTRACTS = [GenBody(), UniqueNameStub(), HasParamsStub()]
VERIFY_RUN = [InnerRunProved()]


def run_engine():
    eng = mk_engine(contracts=RUN_CONTRACTS, class_attrs=RUN_CLASS_ATTRS, field_classes=FIELD_CLASSES,
                    schema_extra=SCHEMA_EXTRA)
    return eng
