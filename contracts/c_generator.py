"""Contracts for hdl21/generator.py:run (C08 exception safety of the generator cache, C09 memoisation)."""
import z3
from pyvc import *
from .common import *
from hdl21.module import Module
from hdl21.generator import Generator, GeneratorCall, GeneratorCache

SCHEMA_EXTRA = {"GeneratorCache.done": "map[key,ref]", "GeneratorCache.pending": "set[key]",
                "GeneratorCache.stack": "seq[ref]", "gen": "ref", "enable_cache": "bool",
                "_generated_by": "ref", "params": "py", "func": "py", "paramtype": "py"}
FIELD_CLASSES = {"gen": (Generator,), "GeneratorCache.done[]": (Module,), "GeneratorCache.stack[]": (GeneratorCall,),
                 "_generated_by": (GeneratorCall,)}
GC = z3.Int("gencache")
CLASS_ATTRS = {(Generator, "Cache"): lambda eng, st, obj: SRef(GC, (GeneratorCache,))}
EQ = z3.Function("eqclass", z3.IntSort(), z3.IntSort())
_k = z3.Int("qk")

D, P, S = "GeneratorCache.done", "GeneratorCache.pending", "GeneratorCache.stack"


def cache_spec(st0, st):
    d0, d1 = st0.heap.get(D, GC), st.heap.get(D, GC)
    return z3.And(st.heap.get(P, GC) == st0.heap.get(P, GC), st.heap.get(S, GC) == st0.heap.get(S, GC),
                  z3.ForAll([_k], z3.Implies(z3.Select(d0, _k) != NULL, z3.Select(d1, _k) == z3.Select(d0, _k))))


class InnerRun(Contract):
    """_run(call): runs user code (the generator body), which may itself call generators: ASSUMED to leave the pending
    set and the stack as found and to keep existing cache entries (this is `run`'s own contract, used modularly)."""
    key = "hdl21.generator:_run"
    props = ("C08", "C09")
    pure = False
    raises = (Exception,)
    returns = "ref"
    result_classes = (Module,)

    def scenarios(self, eng):
        return []

    def frame(self, eng, st, a):
        keep = {f: st.heap.arr(f) for f in ("gen", "enable_cache", "$alive", "$cls")}
        st.heap.havoc_all()
        # assumed: generator bodies do not mutate Generator / GeneratorCall objects
        for f, arr in keep.items():
            st.heap.arrays[f] = arr
    posts = property(lambda self: [("cache", lambda eng, st0, st, a, res: cache_spec(st0, st))])
    xposts = property(lambda self: [("cache", lambda eng, st0, st, a, E: cache_spec(st0, st))])


class Run(Contract):
    key = "hdl21.generator:run"
    props = ("C08", "C09")
    pure = False
    raises = (Exception,)
    returns = "ref"
    result_classes = (Module,)

    def scenarios(self, eng):
        def setup(eng, st):
            eng.field_classes.update(FIELD_CLASSES)
            call = sym_ref(st, "call", (GeneratorCall,))
            st.assume(GC != NULL)
            st.assume(st.heap.get("$alive", GC))
            gen = st.heap.get("gen", call.z)
            st.assume(gen != NULL)
            st.assume(st.heap.get("$alive", gen))
            st.assume(st.heap.get("$cls", gen) == st.classid(Generator))
            return {"call": call}
        yield Scenario("any", setup)

    def frame(self, eng, st, a):
        st.heap.havoc_all()

    @staticmethod
    def _cached(st0, a):
        gen = st0.heap.get("gen", a.call.z)
        return z3.And(st0.heap.get("enable_cache", gen), z3.Select(st0.heap.get(D, GC), EQ(a.call.z)) != NULL)

    def p_memo(self, eng, st0, st, a, res):
        """a cached call returns the stored module and touches nothing (the body is not run)"""
        same = z3.And([st.heap.arr(f) == st0.heap.arr(f) for f in (D, P, S, "name", "_generated_by")])
        return z3.Implies(self._cached(st0, a),
                          z3.And(res.z == z3.Select(st0.heap.get(D, GC), EQ(a.call.z)), same))

    def p_stored(self, eng, st0, st, a, res):
        gen = st0.heap.get("gen", a.call.z)
        return z3.Implies(st0.heap.get("enable_cache", gen), z3.Select(st.heap.get(D, GC), EQ(a.call.z)) == res.z)

    def p_cache(self, eng, st0, st, a, res):
        return cache_spec(st0, st)

    posts = property(lambda self: [("memo", self.p_memo), ("stored", self.p_stored), ("cache-restored", self.p_cache)])
    xposts = property(lambda self: [("cache-restored", lambda eng, st0, st, a, E: cache_spec(st0, st))])
    must_raise = property(lambda self: [("circular", lambda eng, st0, a: z3.And(
        st0.heap.get("enable_cache", st0.heap.get("gen", a.call.z)),
        z3.Select(st0.heap.get(D, GC), EQ(a.call.z)) == NULL,
        z3.Select(st0.heap.get(P, GC), EQ(a.call.z))))])


CONTRACTS = [Run(), InnerRun()]
VERIFY = [CONTRACTS[0]]
