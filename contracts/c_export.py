"""Contracts on the leaf functions of hdl21/proto/exporting.py / importing.py (C01, C06, C11, C13)."""
import z3
from pyvc import *
from .common import *
from . import c_slice, c_width
from .c_width import W
import vlsir
import vlsir.circuit_pb2 as vckt
from hdl21.prefix import Prefix

TOP = z3.Function("slice_top", z3.IntSort(), z3.IntSort())
BOT = z3.Function("slice_bot", z3.IntSort(), z3.IntSort())
STEP = z3.Function("slice_step", z3.IntSort(), z3.IntSort())
WID = z3.Function("slice_width", z3.IntSort(), z3.IntSort())

SCHEMA_EXTRA = {"signal": "str"}
ASSUMPTIONS = ["a Slice's parent, index and parent width do not change between the reads of top/bot/step/width inside ONE "
               "verified function (each read resolves the slice anew; the ghost numbers TOP/BOT/STEP/WID stand for the "
               "values in that function's entry state)"]


def inner_rel(st, slize_z, top, bot, step, width):
    """the four numbers are the fields of a SliceInner meeting _slice_inner's postcondition for this slice"""
    a = NS({"slize": SRef(slize_z, (Slice,))})
    sp = c_slice.SliceInnerContract.spec(st, a)
    c = sp["step"]
    first = bot if c > 0 else top - 1
    last = (bot + (width - 1) * c) if c > 0 else (top - 1 + (width - 1) * c)
    rel = z3.And(step == c, width == sp["n"], width >= 1, first == sp["first"], 0 <= bot, bot < top, top <= sp["w"],
                 bot <= last, last < top)
    if abs(c) == 1:
        rel = z3.And(rel, top - bot == width)
    rel = z3.And(rel, c_slice.tight_bounds(c, top, bot, width))
    return sp, rel


def cache_coherent(st, slize_z):
    """Slices keep no memo of their resolved numbers (since the repair recorded in known_findings.jsonl: a memo went
    stale when the parent was resized): there is no cache invariant left to state.  Kept as the place where one would
    go; code that reads a `_inner` slot again finds an arbitrary object there and fails its postcondition."""
    return z3.BoolVal(True)


def mk_slice(eng, st, index, parent_classes=(Signal,)):
    eng.field_classes["parent"] = parent_classes
    eng.field_classes["_inner"] = (SliceInner,)
    parent = sym_ref(st, "parent", parent_classes)
    w = W(parent.z)
    st.assume(w >= 1)
    if all(issubclass(k, Signal) for k in parent_classes):
        st.assume(w == st.heap.get("width", parent.z))
    slize = sym_ref(st, "slize", (Slice,))
    st.assume(slize.z != parent.z)
    st.heap.put("parent", slize.z, parent.z)
    eng.write_field(st, slize, "index", index)
    return slize


def index_scenarios(steps=(None, 1, -1, 2, -3)):
    yield "int", lambda: SInt(z3.Int("i"))
    for step in steps:
        yield f"slice[step={step}]", (lambda step=step: SSlice(SInt(z3.Int("start")), SInt(z3.Int("stop")), step))
        yield f"slice[::{step}]", (lambda step=step: SSlice(None, None, step))


class GetInner(Contract):
    """_get_inner(slice): returns the slice's SliceInner, computed from the slice and its parent's present width."""
    key = "hdl21.slice:_get_inner"
    props = ("C03", "C01")
    pure = False
    raises = (ValueError, RuntimeError)
    returns = "ref"
    result_classes = (SliceInner,)

    def scenarios(self, eng):
        for nm, mk in index_scenarios():
            def setup(eng, st, mk=mk):
                return {"slice": mk_slice(eng, st, mk())}
            yield Scenario(nm, setup)

    def pre(self, eng, st, a):
        return cache_coherent(st, a.slice.z)

    def frame(self, eng, st, a):
        # only the slice's cache slot changes; the SliceInner it may point to is a fresh object
        st.heap.havoc_at("_inner", a.slice.z)

    def p_rel(self, eng, st0, st, a, res):
        z = a.slice.z
        g = lambda f: st.heap.get(f, res.z)
        sp, rel = inner_rel(st0, z, TOP(z), BOT(z), STEP(z), WID(z))
        return z3.And(g("top") == TOP(z), g("bot") == BOT(z), g("step") == STEP(z), g("width") == WID(z), rel)
    posts = property(lambda self: [("inner", self.p_rel)])

    def _bad(self, eng, st0, a):
        return z3.Not(c_slice.SliceInnerContract.spec(st0, NS({"slize": a.slice}))["ok"])
    reasons = property(lambda self: {ValueError: lambda eng, st0, a: self._bad(eng, st0, a),
                                     RuntimeError: lambda eng, st0, a: False})


class SliceAttr(Contract):
    """Slice.top / bot / step / width: the corresponding field of the slice's one resolved SliceInner."""
    props = ("C03", "C01")
    pure = False
    raises = (ValueError,)
    returns = "int"

    def __init__(self, name, fn):
        self.key = f"hdl21.slice:Slice.{name}"
        self.fn = fn

    def scenarios(self, eng):
        for nm, mk in index_scenarios((None, -2)):
            def setup(eng, st, mk=mk):
                return {"self": mk_slice(eng, st, mk())}
            yield Scenario(nm, setup)

    def pre(self, eng, st, a):
        return cache_coherent(st, a.self.z)

    def frame(self, eng, st, a):
        st.heap.havoc_at("_inner", a.self.z)

    def p_val(self, eng, st0, st, a, res):
        z = a.self.z
        sp, rel = inner_rel(st0, z, TOP(z), BOT(z), STEP(z), WID(z))
        return z3.And(res.z == self.fn(z), rel, cache_coherent(st, z))
    posts = property(lambda self: [("value", self.p_val)])
    reasons = property(lambda self: {ValueError: lambda eng, st0, a: z3.Not(
        c_slice.SliceInnerContract.spec(st0, NS({"slize": a.self}))["ok"])})


class ExportSlice(Contract):
    """export_slice(slize): vbits(result) == bits(slize) for a unit-step slice of a Signal (VLSIR top is inclusive);
    anything else is refused with RuntimeError; no exported slice names a bit outside its signal."""
    key = "hdl21.proto.exporting:export_slice"
    props = ("C01", "C06", "C11")
    pure = False
    raises = (RuntimeError, ValueError)
    returns = "ref"
    result_classes = (vckt.Slice,)

    def scenarios(self, eng):
        for nm, mk in index_scenarios((None, 1, -1, 2)):
            def setup(eng, st, mk=mk):
                s = mk_slice(eng, st, mk())
                st.assume(z3.Not(st.heap.get("name$none", st.heap.get("parent", s.z))))
                return {"slize": s}
            yield Scenario("signal-parent," + nm, setup)

        def setup2(eng, st):
            return {"slize": mk_slice(eng, st, SInt(z3.Int("i")), (Slice, Concat))}
        sc = Scenario("non-signal-parent", setup2)
        sc.expect_raise = True
        yield sc

    def pre(self, eng, st, a):
        return cache_coherent(st, a.slize.z)

    def frame(self, eng, st, a):
        st.heap.havoc_at("_inner", a.slize.z)

    def p_bits(self, eng, st0, st, a, res):
        sp = c_slice.SliceInnerContract.spec(st0, a)
        g = lambda f: st.heap.get(f, res.z)
        parent = st0.heap.get("parent", a.slize.z)
        return z3.And(g("bot") == sp["first"], g("top") == sp["first"] + sp["n"] - 1,
                      0 <= g("bot"), g("bot") <= g("top"), g("top") < sp["w"],
                      g("signal") == st0.heap.get("name", parent))
    posts = property(lambda self: [("vbits==bits", self.p_bits)])

    def _exportable(self, eng, st0, a):
        sp = c_slice.SliceInnerContract.spec(st0, a)
        is_sig = all(issubclass(k, Signal) for k in eng.field_classes["parent"])
        return is_sig and sp["step"] == 1
    reasons = property(lambda self: {
        RuntimeError: lambda eng, st0, a: not self._exportable(eng, st0, a),
        ValueError: lambda eng, st0, a: z3.Not(c_slice.SliceInnerContract.spec(st0, a)["ok"])})
    must_raise = property(lambda self: [("not-flat-unit-step", lambda eng, st0, a: not self._exportable(eng, st0, a))])


class PortDirExport(Contract):
    """export_port_dir: total on PortDir, maps each member to the like-named VLSIR direction."""
    key = "hdl21.proto.exporting:export_port_dir"
    props = ("C11", "C10")
    raises = ()

    def scenarios(self, eng):
        def setup(eng, st):
            port = sym_ref(st, "port", (Signal,))
            d = st.heap.get("direction", port.z)
            st.assume(z3.And(d >= 0, d < len(list(PortDir))))
            return {"port": port}
        yield Scenario("any-direction", setup)

    def p_name(self, eng, st0, st, a, res):
        d = st0.heap.get("direction", a.port.z)
        ok = []
        for k, m in enumerate(PortDir):
            want = getattr(vckt.Port.Direction, m.name)
            ok.append(z3.Implies(d == k, z3.BoolVal(res == want)))
        return z3.And(ok)
    posts = property(lambda self: [("same-name", self.p_name)])


class SliceInnerDefining(c_slice.SliceInnerContract):
    """_slice_inner as seen by its callers here: additionally *defines* the ghost functions TOP/BOT/STEP/WID of the
    slice as the numbers it returns (sound: _slice_inner is a deterministic function of the slice's index and its
    parent's width, which are assumed not to change; listed under ASSUMPTIONS)."""
    def p_def(self, eng, st0, st, a, res):
        z = a.slize.z
        g = lambda f: st.heap.get(f, res.z)
        return z3.And(g("top") == TOP(z), g("bot") == BOT(z), g("step") == STEP(z), g("width") == WID(z))
    posts = property(lambda self: c_slice.SliceInnerContract.posts.fget(self) + [("ghost-def", self.p_def)])

    def scenarios(self, eng):
        return []


def engine():
    s = SliceInnerDefining()
    s.steps = [None, 1, -1, 2, -2, -3]
    contracts = [s] + c_width.CONTRACTS + CONTRACTS
    eng = mk_engine(contracts=contracts, schema_extra=SCHEMA_EXTRA)
    return eng


SLICE_ATTRS = [SliceAttr("top", TOP), SliceAttr("bot", BOT), SliceAttr("step", STEP), SliceAttr("width", WID)]
CONTRACTS = [GetInner(), ExportSlice(), PortDirExport()] + SLICE_ATTRS
VERIFY = CONTRACTS
MIN_OBLIGATIONS = {"hdl21.proto.exporting:export_slice": 8}


# ------------------------------------------------------------------------------------------------ module names
from hdl21.proto.exporting import ProtoExporter, ModuleMapping
from hdl21.module import Module as _Module


class ModuleQualname(Contract):
    key = "hdl21.qualname:qualname"
    raises = ()
    returns = "str"

    def scenarios(self, eng):
        return []


class ExportModuleName(Contract):
    """export_module_name(module): the module's qualified name, refused (RuntimeError) when another module of this
    export already carries it - two different modules never share an exported name."""
    key = "hdl21.proto.exporting:ProtoExporter.export_module_name"
    props = ("C06", "C02", "C09")
    raises = (RuntimeError,)
    returns = "str"

    def scenarios(self, eng):
        def setup(eng, st):
            eng.field_classes["modules_by_name[]"] = (ModuleMapping,)
            eng.field_classes["hmod"] = (_Module,)
            return {"self": sym_ref(st, "self", (ProtoExporter,)), "module": sym_ref(st, "module", (_Module,))}
        yield Scenario("any", setup)

    def p_fresh(self, eng, st0, st, a, res):
        taken = st0.heap.get("modules_by_name", a.self.z)
        return z3.Select(taken, zstr(res)) == NULL
    posts = property(lambda self: [("name-not-taken", self.p_fresh)])


def names_engine():
    return mk_engine(contracts=[ModuleQualname(), ExportModuleName()],
                     schema_extra={"modules_by_name": "map[str,ref]", "hmod": "ref"})


VERIFY_NAMES = [ExportModuleName()]


# ---------------------------------------------------------------------------------------------------------------------
# elab/passes/slices.py:_indices - the positions a slice selects in its parent, in selection order (C03).  Over the
# contracts of Slice.top / bot / step (one resolved index): a range starting at the first selected position, stepping by
# the slice's step, as long as the slice is wide.
# ---------------------------------------------------------------------------------------------------------------------
class Indices(Contract):
    key = "hdl21.elab.passes.slices:_indices"
    props = ("C03",)
    pure = False
    raises = (ValueError,)

    def scenarios(self, eng):
        for nm, mk in index_scenarios((None, 1, -1, 2, -3)):
            def setup(eng, st, mk=mk):
                return {"slize": mk_slice(eng, st, mk())}
            yield Scenario(nm, setup)

    def pre(self, eng, st, a):
        return cache_coherent(st, a.slize.z)

    def frame(self, eng, st, a):
        st.heap.havoc_at("_inner", a.slize.z)

    def p_range(self, eng, st0, st, a, res):
        from pyvc.pysem import SRange
        sp = c_slice.SliceInnerContract.spec(st0, a)
        if isinstance(res, range):
            res = SRange(res.start, res.stop, res.step)
        if not isinstance(res, SRange):
            return False
        return z3.And(z3.BoolVal(res.step == sp["step"]), zint(res.start) == sp["first"], zint(res.length()) == sp["n"])
    posts = property(lambda self: [("selection-order", self.p_range)])
    reasons = property(lambda self: {ValueError: lambda eng, st0, a: z3.Not(
        c_slice.SliceInnerContract.spec(st0, a)["ok"])})


VERIFY_INDICES = [Indices()]
