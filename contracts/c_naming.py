"""Relational obligations on hdl21/params.py:_unique_name (C09): the readable branch is injective."""
import z3
from pyvc import *
from pyvc import loader
from .common import *
import hdl21 as h
from typing import Optional


@h.paramclass
class P2s:
    a = h.Param(dtype=str, desc="a")
    b = h.Param(dtype=str, desc="b")


@h.paramclass
class P3mix:
    a = h.Param(dtype=Optional[str], desc="a", default=None)
    b = h.Param(dtype=str, desc="b", default="")


@h.paramclass
class P1o:
    a = h.Param(dtype=Optional[str], desc="a", default=None)


SHAPES = {"two-strings": (P2s, {"a": "str", "b": "str"}),
          "optional-then-string": (P3mix, {"a": "optstr", "b": "str"}),
          "one-optional": (P1o, {"a": "optstr"})}


def run_symbolic(eng, cls, fields, tag):
    """Execute the real _unique_name on a symbolic instance of paramclass `cls` -> [(pc, name-or-None, fieldvals)]"""
    ext = loader.extract("hdl21.params:_unique_name")
    st = eng.new_state()
    p = sym_ref(st, f"params{tag}", (cls,))
    vals = {}
    for f, kind in fields.items():
        # each field value is a plain constant (stored into the heap, so reads fold back to the constant)
        if kind == "int":
            c = z3.Int(f"{f}{tag}")
            st.heap.put(f"pf_{f}", p.z, c)
            vals[f] = ("int", c)
        elif kind == "str":
            c = z3.String(f"{f}{tag}")
            st.heap.put(f"pf_{f}", p.z, c)
            vals[f] = ("str", c)
        else:
            c, n = z3.String(f"{f}{tag}"), z3.Bool(f"{f}{tag}_none")
            st.heap.put(f"pf_{f}", p.z, c)
            st.heap.put(f"pf_{f}$none", p.z, n)
            vals[f] = ("optstr", c, n)
    eng.cuts = []
    outs = eng.run(ext, st, {"params": p})
    res = []
    for kind, s2, v in outs:
        if kind == "ret":
            res.append((list(s2.pc), v if isinstance(v, (str, SStr)) else None, vals, s2))
        elif kind == "exc":
            res.append((list(s2.pc), v, vals, s2))
    return ext, res


def engine(fields):
    schema = {}
    for f, kind in fields.items():
        schema[f"pf_{f}"] = kind
    eng = mk_engine(inline={"hdl21.params:isparamclass"}, schema_extra=schema)
    # paramclass fields are read by getattr(params, k): map attribute k -> heap field pf_k
    orig = eng.field_key

    def field_key(st, ref, field):
        return f"pf_{field}" if f"pf_{field}" in st.heap.schema and any(
            c in (P2s, P3mix, P1o) for c in eng.classes_of(st, ref)) else orig(st, ref, field)
    eng.field_key = field_key
    return eng


def injectivity_obligations():
    """-> list of pyvc Obligations: two runs with equal readable names have equal parameter values."""
    obs = []
    info = {}
    for shape, (cls, fields) in SHAPES.items():
        eng = engine(fields)
        try:
            ext, r1 = run_symbolic(eng, cls, fields, "1")
            _, r2 = run_symbolic(eng, cls, fields, "2")
        except Unsupported as e:
            info.setdefault("unsupported", []).append(f"{shape}: {e}")
            continue
        info["sha"], info["lines"], info["path"] = ext.sha, ext.lines, ext.path
        readable1 = [r for r in r1 if isinstance(r[1], (str, SStr))]
        readable2 = [r for r in r2 if isinstance(r[1], (str, SStr))]
        info.setdefault("paths", 0)
        info["paths"] += len(r1)
        for r in r1:
            if isinstance(r[1], Exc) and not (r[1].cls is Exception and r[1].note == "any"):
                ob = Obligation(f"hdl21.params:_unique_name/{shape}/raises.{r[1].cls.__name__}", "raises", r[0],
                                z3.BoolVal(False), "hdl21.params:_unique_name", shape, 0)
                ob.meta["trace"] = list(r[3].trace) + [r[1].note]
                ob.meta["havoc"] = list(r[3].ghost.get("havoc", ()))
                obs.append(ob)
        for i, (pc1, n1, v1, s1_) in enumerate(readable1):
            for j, (pc2, n2, v2, s2_) in enumerate(readable2):
                same = []
                for f in fields:
                    a, b = v1[f], v2[f]
                    if a[0] == "optstr":
                        same.append(z3.And(a[2] == b[2], z3.Implies(z3.Not(a[2]), a[1] == b[1])))
                    else:
                        same.append(a[1] == b[1])
                goal = z3.Implies(zstr(n1) == zstr(n2), z3.And(same))
                obs.append(Obligation(f"hdl21.params:_unique_name/{shape}/injective/p{i}xp{j}", "lemma", pc1 + pc2, goal,
                                      "hdl21.params:_unique_name", shape, i * 100 + j,
                                      {"havoc": list(s1_.ghost.get("havoc", ())) + list(s2_.ghost.get("havoc", ()))}))
            # a readable name always contains '=' (so it cannot coincide with a hex digest)
            obs.append(Obligation(f"hdl21.params:_unique_name/{shape}/readable-has-equals/p{i}", "post", pc1,
                                  z3.Contains(zstr(n1), z3.StringVal("=")), "hdl21.params:_unique_name", shape, i))
    return obs, info
