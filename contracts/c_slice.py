"""Contracts for hdl21/slice.py, hdl21/sliceable.py (C03, and used by C01/C02/C06)."""
import z3
from pyvc import *
from .common import *
from .c_width import W

# ---------------------------------------------------------------------------------------------------
# Specification vocabulary (spec side; never calls Hdl21 code)
# ---------------------------------------------------------------------------------------------------


def py_adjust(w, start, stop, step):
    """CPython PySlice_AdjustIndices on symbolic ints; `step` is a concrete non-zero int, start/stop None|int|z3.
    -> (start', stop', n): first selected position, exclusive stop, number selected."""
    w = zint(w)
    if step > 0:
        if start is None:
            s = z3.IntVal(0)
        else:
            s0 = zint(start)
            s = z3.If(s0 < 0, z3.If(s0 + w < 0, 0, s0 + w), z3.If(s0 >= w, w, s0))
        if stop is None:
            e = w
        else:
            e0 = zint(stop)
            e = z3.If(e0 < 0, z3.If(e0 + w < 0, 0, e0 + w), z3.If(e0 >= w, w, e0))
        n = z3.If(s < e, (e - s + step - 1) / step, 0)      # z3 `/` on ints with positive divisor == floor
    else:
        if start is None:
            s = w - 1
        else:
            s0 = zint(start)
            s = z3.If(s0 < 0, z3.If(s0 + w < 0, -1, s0 + w), z3.If(s0 >= w, w - 1, s0))
        if stop is None:
            e = z3.IntVal(-1)
        else:
            e0 = zint(stop)
            e = z3.If(e0 < 0, z3.If(e0 + w < 0, -1, e0 + w), z3.If(e0 >= w, w - 1, e0))
        n = z3.If(e < s, (s - e - step - 1) / (-step), 0)
    return s, e, n


def py_adjust_concrete(w, start, stop, step):
    """The same specification on concrete ints (used by the CPython cross-check of the spec itself)."""
    r = range(w)[slice(start, stop, step)]
    return list(r)


STEPS_QUICK = [None] + [s for s in range(-4, 5) if s != 0]
STEPS_THOROUGH = [None] + [s for s in range(-16, 17) if s != 0]


def tight_bounds(c, top, bot, width):
    if c > 0:
        last = bot + (width - 1) * c
        return z3.And(last < top, top <= last + c)
    last = top - 1 + (width - 1) * c
    return z3.And(bot <= last, last + c + 1 <= bot)


class SliceInnerContract(Contract):
    """_slice_inner(slize): the result denotes exactly what Python selects from a list of `width` items.

    sel(result): positions denoted by SliceInner(top, bot, step, width) as its consumers read it
       step > 0:  bot + k*step,      0 <= k < width
       step < 0:  (top-1) + k*step,  0 <= k < width
    """
    key = "hdl21.slice:_slice_inner"
    props = ("C03", "C02", "C06")
    raises = (ValueError, RuntimeError)
    returns = "ref"
    result_classes = (SliceInner,)
    steps = STEPS_QUICK
    parent_classes = (Signal,)

    def scenarios(self, eng):
        def int_index(eng, st):
            slize, w = self._mk(eng, st)
            i = SInt(z3.Int("i"))
            eng.write_field(st, slize, "index", i)
            return {"slize": slize}
        yield Scenario("int", int_index)
        for step in self.steps:
            for has_start in (False, True):
                for has_stop in (False, True):
                    def setup(eng, st, step=step, has_start=has_start, has_stop=has_stop):
                        slize, w = self._mk(eng, st)
                        start = SInt(z3.Int("start")) if has_start else None
                        stop = SInt(z3.Int("stop")) if has_stop else None
                        eng.write_field(st, slize, "index", SSlice(start, stop, step))
                        return {"slize": slize}
                    nm = f"slice[start={'int' if has_start else 'None'},stop={'int' if has_stop else 'None'},step={step}]"
                    yield Scenario(nm, setup)

        def step0(eng, st):
            slize, w = self._mk(eng, st)
            eng.write_field(st, slize, "index", SSlice(SInt(z3.Int("start")), SInt(z3.Int("stop")), 0))
            return {"slize": slize}
        yield Scenario("slice[step=0]", step0)

    def _mk(self, eng, st):
        eng.field_classes["parent"] = self.parent_classes
        parent = sym_ref(st, "parent", (Signal,))
        w = W(parent.z)
        st.assume(w >= 1)                      # a sliceable's width is positive (Signal.__post_init__ enforces it)
        if all(issubclass(k, Signal) for k in self.parent_classes):
            st.assume(w == st.heap.get("width", parent.z))
        slize = sym_ref(st, "slize", (Slice,))
        st.assume(slize.z != parent.z)
        st.heap.put("parent", slize.z, parent.z)
        st.heap.put("_inner", slize.z, NULL)
        return slize, w

    # -- spec of the selected positions, from the argument's own fields
    @staticmethod
    def spec(st0, a):
        idx = st0.ghost.get(("fld", "index", zid(a.slize.z)))
        parent = st0.heap.get("parent", a.slize.z)
        w = W(parent)
        if isinstance(idx, (int, SInt)) and not isinstance(idx, bool):
            i = zint(idx)
            ok = z3.And(i >= -w, i < w)
            first = z3.If(i < 0, i + w, i)
            return {"ok": ok, "first": first, "n": z3.IntVal(1), "step": 1, "w": w}
        if isinstance(idx, slice):
            idx = SSlice(idx.start, idx.stop, idx.step)
        if not isinstance(idx, SSlice):
            raise Unsupported(f"_slice_inner contract: index {idx!r}")
        step = 1 if idx.step is None else idx.step
        if not isinstance(step, int):
            raise Unsupported("_slice_inner contract: symbolic step")
        if step == 0:
            return {"ok": z3.BoolVal(False), "first": z3.IntVal(0), "n": z3.IntVal(0), "step": 1, "w": w}
        s, e, n = py_adjust(w, idx.start, idx.stop, step)
        return {"ok": n >= 1, "first": s, "n": n, "step": step, "w": w}

    def _res(self, st, res):
        g = lambda f: st.heap.get(f, res.z)
        return g("top"), g("bot"), g("step"), g("width")

    def p_sel(self, eng, st0, st, a, res):
        """sel(result) == pysel(width, index): same first position, same stride, same length."""
        sp = self.spec(st0, a)
        top, bot, step, width = self._res(st, res)
        first = bot if sp["step"] > 0 else top - 1
        return z3.And(step == sp["step"], width == sp["n"], first == sp["first"])

    def p_width(self, eng, st0, st, a, res):
        sp = self.spec(st0, a)
        _, _, _, width = self._res(st, res)
        return z3.And(width == sp["n"], width >= 1)

    def p_inrange(self, eng, st0, st, a, res):
        """every denoted position lies in [0, w) and inside [bot, top); unit steps: top - bot == width"""
        sp = self.spec(st0, a)
        top, bot, step, width = self._res(st, res)
        w = sp["w"]
        c = sp["step"]
        last = (bot + (width - 1) * c) if c > 0 else (top - 1 + (width - 1) * c)
        first = bot if c > 0 else top - 1
        rng = z3.And(0 <= bot, bot < top, top <= w, bot <= last, last < top, bot <= first, first < top)
        if abs(c) == 1:
            rng = z3.And(rng, top - bot == width)
        return rng

    def p_tight(self, eng, st0, st, a, res):
        """the bounds are tight enough that walking from the first position by `step` stays inside [bot, top) for exactly
        `width` positions: range(bot, top, step) / range(top-1, bot-1, step) enumerate the selection"""
        sp = self.spec(st0, a)
        top, bot, step, width = self._res(st, res)
        return tight_bounds(sp["step"], top, bot, width)

    posts = property(lambda self: [("sel", self.p_sel), ("width", self.p_width), ("inrange", self.p_inrange),
                                   ("tight-bounds", self.p_tight)])

    # an index selecting nothing (or out of range int) must be rejected
    must_raise = property(lambda self: [("selects-nothing", lambda eng, st0, a: z3.Not(self.spec(st0, a)["ok"]))])
    # and ValueError may only escape when the index really selects nothing
    reasons = property(lambda self: {
        # (a parent that is itself an invalid slice makes its own width unobtainable: ValueError from the helper)
        ValueError: lambda eng, st0, a: z3.Not(self.spec(st0, a)["ok"]) if all(
            issubclass(k, Signal) for k in self.parent_classes) else True,
        # the parent's own width may be unobtainable (unresolvable reference, invalid parent slice): never for a Signal
        RuntimeError: lambda eng, st0, a: not all(issubclass(k, Signal) for k in self.parent_classes)})


class SliceRejects(SliceInnerContract):
    """The C02 part of the contract alone: an index that selects nothing (out of range, empty) never yields a result."""
    props = ("C02",)
    posts = property(lambda self: [])


CONTRACTS = [SliceInnerContract()]
