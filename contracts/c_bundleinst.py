"""Contracts for hdl21/bundle.py (C10): BundleInstance.__copy__ keeps every public field (the flip flag, the role, the
source / destination roles among them) and `flipped(bi)` returns a copy whose flag is the negation - so the flip count
along a leaf's path is the number of constructor flags plus `flipped()` calls, and two flips cancel."""
import z3
from pyvc import *
from .common import *
from hdl21.bundle import BundleInstance, Bundle

SCHEMA_EXTRA = {"port": "bool", "flipped": "bool", "role": "ref", "src": "ref", "dest": "ref", "desc": "optstr",
                "BundleInstance._elaborated": "bool", "refs_to_me": "map[str,ref]"}
FIELD_CLASSES = {"of": (Bundle,), "role": (object,), "src": (object,), "dest": (object,)}
PUBLIC = ("of", "port", "flipped", "role", "src", "dest")


def _same_public(st0, st, old, new, flip=False):
    cs = []
    for f in PUBLIC:
        a, b = st0.heap.get(f, old), st.heap.get(f, new)
        cs.append(b == z3.Not(a) if (flip and f == "flipped") else b == a)
    for f in ("name", "desc"):
        cs.append(st.heap.get(f + "$none", new) == st0.heap.get(f + "$none", old))
        cs.append(z3.Implies(z3.Not(st0.heap.get(f + "$none", old)), st.heap.get(f, new) == st0.heap.get(f, old)))
    return z3.And(cs)


def _others_untouched(st0, st):
    """frame: every object that existed before is unchanged in its public fields"""
    r = z3.Int("qr")
    cs = []
    for f in PUBLIC + ("name", "name$none", "desc", "desc$none"):
        cs.append(z3.ForAll([r], z3.Implies(st0.heap.get("$alive", r), st.heap.get(f, r) == st0.heap.get(f, r))))
    return z3.And(cs)


class _Base(Contract):
    pure = False
    raises = ()
    returns = "ref"
    result_classes = (BundleInstance,)
    flip = False
    argname = "self"

    def scenarios(self, eng):
        def setup(eng, st):
            eng.field_classes.update(FIELD_CLASSES)
            bi = sym_ref(st, "bi", (BundleInstance,))
            st.assume(st.heap.get("_initialized", bi.z))
            return {self.argname: bi}
        yield Scenario("any-instance", setup)

    def frame(self, eng, st, a):
        st.heap.havoc_all()

    def make_result(self, eng, st, a):
        return st.alloc(BundleInstance)

    def p_fresh(self, eng, st0, st, a, res):
        old = getattr(a, self.argname)
        return z3.And(res.z != old.z, z3.Not(st0.heap.get("$alive", res.z)), st.heap.get("$alive", res.z),
                      st.heap.get("$cls", res.z) == st.classid(BundleInstance), st.heap.get("_initialized", res.z))

    def p_fields(self, eng, st0, st, a, res):
        return _same_public(st0, st, getattr(a, self.argname).z, res.z, flip=self.flip)

    def p_frame(self, eng, st0, st, a, res):
        return _others_untouched(st0, st)

    posts = property(lambda self: [("fresh-object", self.p_fresh), ("public-fields", self.p_fields),
                                   ("others-untouched", self.p_frame)])


class Copy(_Base):
    key = "hdl21.bundle:BundleInstance.__copy__"
    props = ("C10",)


class Flipped(_Base):
    key = "hdl21.bundle:flipped"
    props = ("C10",)
    flip = True
    argname = "bi"


def engine():
    return mk_engine(contracts=[Copy()], schema_extra=SCHEMA_EXTRA, field_classes=FIELD_CLASSES)


def copy_engine():
    return mk_engine(contracts=[], schema_extra=SCHEMA_EXTRA, field_classes=FIELD_CLASSES)


VERIFY_COPY = [Copy()]
VERIFY_FLIPPED = [Flipped()]
