"""Contracts for hdl21/module.py and the Bundle counterparts in hdl21/bundle.py (C18)."""
import z3
from pyvc import *
from .common import *
from hdl21.module import Module
from hdl21.instance import Instance, InstanceArray, InstanceBundle
from hdl21.bundle import BundleInstance, Bundle
from hdl21.role import Role

# The reserved names of the specification (C18): the Module's / Bundle's own public attributes and methods. Stated here,
# not read from the code under verification - a list that shrinks there must fail the contracts, not follow them.
RESERVED_MODULE = ("ports", "signals", "instances", "instarrays", "instbundles", "bundles", "literals", "props",
                   "namespace", "add", "get")
RESERVED_BUNDLE = ("signals", "bundles", "namespace")

MODULE_ATTRS = (Signal, Instance, InstanceArray, InstanceBundle, BundleInstance)
BUNDLE_ATTRS = (Signal, BundleInstance)
NON_ATTRS = (Module, Concat, PortRef)
FIELD_CLASSES = {"namespace[]": MODULE_ATTRS, "ports[]": (Signal,), "signals[]": (Signal,),
                 "instances[]": (Instance,), "instarrays[]": (InstanceArray,), "instbundles[]": (InstanceBundle,),
                 "bundles[]": (BundleInstance,), "Module._elaborated": (Module,), "_parent_module": (Module,)}
_n = z3.String("qn")
PORT = list(Visibility).index(Visibility.PORT)


def _is(st, v, classes):
    """dynamic type of object v is one of `classes` or a subclass that the engine has seen"""
    ids = [i for c, i in st.classids.items() if issubclass(c, classes)]
    for c in classes:
        ids.append(st.classid(c))
    return z3.Or([st.heap.get("$cls", v) == i for i in sorted(set(ids))])


MOD_KINDS = {
    "ports": lambda st, v: z3.And(_is(st, v, (Signal,)), st.heap.get("vis", v) == PORT),
    "signals": lambda st, v: z3.And(_is(st, v, (Signal,)), st.heap.get("vis", v) != PORT),
    "instances": lambda st, v: _is(st, v, (Instance,)),
    "instarrays": lambda st, v: _is(st, v, (InstanceArray,)),
    "instbundles": lambda st, v: _is(st, v, (InstanceBundle,)),
    "bundles": lambda st, v: _is(st, v, (BundleInstance,)),
}
BUN_KINDS = {
    "signals": lambda st, v: _is(st, v, (Signal,)),
    "bundles": lambda st, v: _is(st, v, (BundleInstance,)),
}


def inv_ns(st, m, kinds=MOD_KINDS, attrs=MODULE_ATTRS, parent="_parent_module"):
    """Inv_ns(m): every name denotes exactly one object: each kind view holds name n exactly when the namespace's
    object for n is of that kind, and nothing else; members are valid attributes and report m as their parent."""
    ns = st.heap.get("namespace", m)
    parts = []
    v = z3.Select(ns, _n)
    for d, pred in kinds.items():
        dd = st.heap.get(d, m)
        parts.append(z3.ForAll([_n], z3.Select(dd, _n) == z3.If(z3.And(v != NULL, pred(st, v)), v, NULL)))
    parts.append(z3.ForAll([_n], z3.Implies(v != NULL, z3.And(_is(st, v, attrs), st.heap.get(parent, v) == m))))
    return z3.And(parts)


def ns_after(st0, m, name, val):
    return z3.Store(st0.heap.get("namespace", m), name, val)


def ns_after_assign(st0, m, key, val):
    """namespace of m after the assignment `m.<key> = val`: val is held under `key`; if it was held by m under another
    name before (`m.b = m.a`), it has MOVED - an object has one name"""
    ns0 = st0.heap.get("namespace", m)
    prior = st0.heap.get("name", val)
    moved = z3.And(z3.Not(st0.heap.get("name$none", val)), prior != key, z3.Select(ns0, prior) == val)
    return z3.If(moved, z3.Store(z3.Store(ns0, key, val), prior, NULL), z3.Store(ns0, key, val))


class AddBase(Contract):
    pure = False
    returns = "ref"
    kinds = MOD_KINDS
    attrs = MODULE_ATTRS
    parent = "_parent_module"
    owner_classes = (Module,)
    owner_arg = "module"

    def mk(self, eng, st, val_classes):
        eng.field_classes.update(FIELD_CLASSES)
        m = sym_ref(st, "m", self.owner_classes)
        st.assume(st.heap.get("_initialized", m.z))
        val = sym_ref(st, "val", val_classes)
        st.assume(st.heap.get("_initialized", val.z))
        st.assume(val.z != m.z)
        return m, val

    def frame(self, eng, st, a):
        for f in list(self.kinds) + ["namespace", self.parent]:
            st.heap.havoc_field(f)

    def _frozen(self, st0, m):
        raise NotImplementedError

    def others_frame(self, st0, st, m, val, prior):
        """only m's containers change; only val and the evicted object get a new parent"""
        out = []
        for f in list(self.kinds) + ["namespace"]:
            a0, a1 = st0.heap.arr(f), st.heap.arr(f)
            out.append(a1 == z3.Store(a0, m, a1[m]))
        p0, p1 = st0.heap.arr(self.parent), st.heap.arr(self.parent)
        out.append(p1 == z3.Store(z3.Store(p0, prior, p1[prior]), val, p1[val]))
        return z3.And(out)


class ModuleAdd(AddBase):
    """_add(module, val): requires val.name is a string. Raises RuntimeError iff the module is elaborated, TypeError iff
    val is not a Module attribute; otherwise namespace' == namespace[val.name := val] and Inv_ns holds again
    (re-using a name for another kind evicts the old entry from its view)."""
    key = "hdl21.module:_add"
    props = ("C18", "C05", "C07")
    raises = (RuntimeError, TypeError)
    result_classes = MODULE_ATTRS

    def scenarios(self, eng):
        def good(eng, st):
            m, val = self.mk(eng, st, MODULE_ATTRS)
            return {"module": m, "val": val}
        yield Scenario("attr", good)

        def bad(eng, st):
            m, val = self.mk(eng, st, NON_ATTRS)
            return {"module": m, "val": val}
        s = Scenario("non-attr", bad)
        s.expect_raise = True
        yield s

    def pre(self, eng, st, a):
        return z3.And(inv_ns(st, a.module.z), z3.Not(st.heap.get("name$none", a.val.z)))

    def _is_attr(self, eng, st0, a):
        return all(issubclass(k, MODULE_ATTRS) for k in eng.classes_of(st0, a.val))

    def _frozen(self, st0, a):
        return st0.heap.get("Module._elaborated", a.module.z) != NULL

    def p_view(self, eng, st0, st, a, res):
        m, v = a.module.z, a.val.z
        name = st0.heap.get("name", v)
        prior = st0.heap.get("namespace", m)[name]
        return z3.And(res.z == v, st.heap.get("namespace", m) == ns_after(st0, m, name, v),
                      st.heap.get("_parent_module", v) == m,
                      st.heap.arr("Module._elab_error") == st0.heap.arr("Module._elab_error"),
                      st.heap.arr("Module._elaborated") == st0.heap.arr("Module._elaborated"),
                      self.others_frame(st0, st, m, v, prior), self.evicted(st0, st, m, name, v, prior, "_parent_module"))

    @staticmethod
    def evicted(st0, st, m, name, v, prior, parent):
        """the prior holder of the name leaves: it no longer reports m as its parent - unless m also holds it under
        another name, in which case nothing changes for it"""
        ns0 = st0.heap.get("namespace", m)
        q = z3.String("qheld")
        elsewhere = z3.Exists([q], z3.And(q != name, z3.Select(ns0, q) == prior))
        p0, p1 = st0.heap.get(parent, prior), st.heap.get(parent, prior)
        return z3.Implies(z3.And(prior != NULL, prior != v), z3.If(elsewhere, p1 == p0, p1 == NULL))

    def p_inv(self, eng, st0, st, a, res):
        return inv_ns(st, a.module.z)

    posts = property(lambda self: [("view", self.p_view), ("inv_ns", self.p_inv)])
    reasons = property(lambda self: {
        RuntimeError: lambda eng, st0, a: self._frozen(st0, a),
        TypeError: lambda eng, st0, a: z3.And(z3.Not(self._frozen(st0, a)), not self._is_attr(eng, st0, a))})
    must_raise = property(lambda self: [
        ("elaborated", lambda eng, st0, a: self._frozen(st0, a)),
        ("non-attr", lambda eng, st0, a: not self._is_attr(eng, st0, a))])

    def x_unchanged(self, eng, st0, st, a, E):
        return z3.And([st.heap.arr(f) == st0.heap.arr(f) for f in list(MOD_KINDS) + ["namespace", "_parent_module"]])
    xposts = property(lambda self: [("unchanged", self.x_unchanged)])


class AttrTypeError(Contract):
    key = "hdl21.module:_attr_type_error"
    raises = (TypeError,)
    posts = [("never-returns", lambda eng, st0, st, a, res: False)]

    def scenarios(self, eng):
        return []


class ModuleSetattr(AddBase):
    """Module.__setattr__(key, val) for an initialised module and a public key: banned names raise RuntimeError,
    `name` is a plain attribute, a non-HDL value raises TypeError, otherwise val is named `key` and added."""
    key = "hdl21.module:Module.__setattr__"
    props = ("C18",)
    raises = (RuntimeError, TypeError)
    returns = "none"

    def scenarios(self, eng):
        _banned = RESERVED_MODULE
        def good(eng, st):
            m, val = self.mk(eng, st, MODULE_ATTRS)
            key = SStr(z3.String("key"))
            st.assume(z3.Not(z3.PrefixOf(z3.StringVal("_"), key.z)))
            st.assume(key.z != z3.StringVal("name"))
            return {"self": m, "key": key, "val": val}
        yield Scenario("attr", good)

        def bad(eng, st):
            m, val = self.mk(eng, st, NON_ATTRS)
            key = SStr(z3.String("key"))
            st.assume(z3.Not(z3.PrefixOf(z3.StringVal("_"), key.z)))
            st.assume(key.z != z3.StringVal("name"))
            return {"self": m, "key": key, "val": val}
        s = Scenario("non-attr", bad)
        s.expect_raise = True
        yield s

    def pre(self, eng, st, a):
        return inv_ns(st, a.self.z)

    @staticmethod
    def _banned(a):
        _banned = RESERVED_MODULE
        return z3.Or([zstr(a.key) == z3.StringVal(b) for b in _banned])

    def _is_attr(self, eng, st0, a):
        return all(issubclass(k, MODULE_ATTRS) for k in eng.classes_of(st0, a.val))

    def _frozen(self, st0, a):
        return st0.heap.get("Module._elaborated", a.self.z) != NULL

    def p_view(self, eng, st0, st, a, res):
        m, v = a.self.z, a.val.z
        name = zstr(a.key)
        return z3.And(st.heap.get("namespace", m) == ns_after_assign(st0, m, name, v),
                      st.heap.get("name", v) == name, z3.Not(st.heap.get("name$none", v)),
                      st.heap.get("_parent_module", v) == m)

    posts = property(lambda self: [("view", self.p_view),
                                   ("inv_ns", lambda eng, st0, st, a, res: inv_ns(st, a.self.z))])
    reasons = property(lambda self: {
        RuntimeError: lambda eng, st0, a: z3.Or(self._banned(a), self._frozen(st0, a)),
        TypeError: lambda eng, st0, a: not self._is_attr(eng, st0, a)})
    must_raise = property(lambda self: [
        ("banned", lambda eng, st0, a: self._banned(a)),
        ("elaborated", lambda eng, st0, a: self._frozen(st0, a)),
        ("non-attr", lambda eng, st0, a: not self._is_attr(eng, st0, a))])
    xposts = property(lambda self: [("ns-unchanged", lambda eng, st0, st, a, E: z3.And(
        [st.heap.arr(f) == st0.heap.arr(f) for f in list(MOD_KINDS) + ["namespace"]]))])


class ModuleAddMethod(AddBase):
    """Module.add(val, name=None): exactly one name source, else RuntimeError; then as _add."""
    key = "hdl21.module:Module.add"
    props = ("C18",)
    raises = (RuntimeError, TypeError)
    result_classes = MODULE_ATTRS

    def scenarios(self, eng):
        for has_name in (False, True):
            def good(eng, st, has_name=has_name):
                m, val = self.mk(eng, st, MODULE_ATTRS)
                return {"self": m, "val": val, "name": SStr(z3.String("name")) if has_name else None}
            yield Scenario(f"attr,name={'str' if has_name else 'None'}", good)

        def bad(eng, st):
            m, val = self.mk(eng, st, NON_ATTRS)
            return {"self": m, "val": val, "name": SStr(z3.String("name"))}
        s = Scenario("non-attr", bad)
        s.expect_raise = True
        yield s

    def pre(self, eng, st, a):
        return inv_ns(st, a.self.z)

    def _is_attr(self, eng, st0, a):
        return all(issubclass(k, MODULE_ATTRS) for k in eng.classes_of(st0, a.val))

    def _badnames(self, st0, a):
        vnone = st0.heap.get("name$none", a.val.z)
        return vnone if a.name is None else z3.Not(vnone)

    def _frozen(self, st0, a):
        return st0.heap.get("Module._elaborated", a.self.z) != NULL

    def _reserved(self, st0, a):
        """the name the object would go under is one of the module's own attributes (C18: reserved names are rejected
        by add() as they are by assignment)"""
        _banned = RESERVED_MODULE
        name = st0.heap.get("name", a.val.z) if a.name is None else zstr(a.name)
        return z3.And(z3.Not(self._badnames(st0, a)), z3.Or([name == z3.StringVal(b) for b in _banned]))

    def p_view(self, eng, st0, st, a, res):
        m, v = a.self.z, a.val.z
        name = st0.heap.get("name", v) if a.name is None else zstr(a.name)
        return z3.And(res.z == v, st.heap.get("namespace", m) == ns_after(st0, m, name, v),
                      st.heap.get("name", v) == name, z3.Not(st.heap.get("name$none", v)),
                      st.heap.get("_parent_module", v) == m)

    posts = property(lambda self: [("view", self.p_view),
                                   ("inv_ns", lambda eng, st0, st, a, res: inv_ns(st, a.self.z))])
    reasons = property(lambda self: {
        RuntimeError: lambda eng, st0, a: z3.Or(self._badnames(st0, a), self._frozen(st0, a), self._reserved(st0, a)),
        TypeError: lambda eng, st0, a: not self._is_attr(eng, st0, a)})
    must_raise = property(lambda self: [
        ("name-sources", lambda eng, st0, a: z3.And(self._is_attr(eng, st0, a), self._badnames(st0, a))),
        ("reserved-name", lambda eng, st0, a: z3.And(self._is_attr(eng, st0, a), self._reserved(st0, a))),
        ("elaborated", lambda eng, st0, a: self._frozen(st0, a)),
        ("non-attr", lambda eng, st0, a: not self._is_attr(eng, st0, a))])


class ModuleGet(Contract):
    key = "hdl21.module:Module.get"
    props = ("C18",)
    raises = ()

    def scenarios(self, eng):
        def setup(eng, st):
            eng.field_classes.update(FIELD_CLASSES)
            m = sym_ref(st, "m", (Module,))
            return {"self": m, "name": SStr(z3.String("name"))}
        yield Scenario("any", setup)

    def p_val(self, eng, st0, st, a, res):
        v = st0.heap.get("namespace", a.self.z)[zstr(a.name)]
        if res is None:
            return v == NULL
        return z3.And(v != NULL, res.z == v)
    posts = property(lambda self: [("value", self.p_val)])


class ModuleGetattr(Contract):
    """Module.__getattr__(key) for any key but Python's __dunder__ names: the namespace object if present (else ordinary
    lookup)."""
    key = "hdl21.module:Module.__getattr__"
    props = ("C18",)
    raises = (AttributeError,)

    def scenarios(self, eng):
        def setup(eng, st):
            eng.field_classes.update(FIELD_CLASSES)
            m = sym_ref(st, "m", (Module,))
            key = SStr(z3.String("key"))
            st.assume(z3.Not(z3.PrefixOf(z3.StringVal("_"), key.z)))
            return {"self": m, "key": key}
        yield Scenario("public-key", setup)

        def setup_(eng, st):
            # a name with a leading underscore that is not one of Python's __dunder__ names: reachable the same way
            eng.field_classes.update(FIELD_CLASSES)
            m = sym_ref(st, "m", (Module,))
            key = SStr(z3.String("key"))
            st.assume(z3.PrefixOf(z3.StringVal("_"), key.z))
            st.assume(z3.Not(z3.And(z3.PrefixOf(z3.StringVal("__"), key.z), z3.SuffixOf(z3.StringVal("__"), key.z))))
            return {"self": m, "key": key}
        yield Scenario("underscore-key", setup_)

    def p_val(self, eng, st0, st, a, res):
        v = st0.heap.get("namespace", a.self.z)[zstr(a.key)]
        if isinstance(res, SRef):
            return z3.Implies(v != NULL, res.z == v)
        return v == NULL
    posts = property(lambda self: [("namespace-first", self.p_val)])
    reasons = property(lambda self: {AttributeError: lambda eng, st0, a:
                                     st0.heap.get("namespace", a.self.z)[zstr(a.key)] == NULL})


class AlwaysRaises(Contract):
    raises = (RuntimeError,)
    posts = [("never-returns", lambda eng, st0, st, a, res: False)]
    arg_names = ()

    def __init__(self, key, props, argnames):
        self.key = key
        self.props = props
        self.arg_names = argnames

    def scenarios(self, eng):
        def setup(eng, st):
            eng.field_classes.update(FIELD_CLASSES)
            d = {}
            for n in self.arg_names:
                if n in ("self",):
                    d[n] = sym_ref(st, "m", (Module,))
                elif n == "cls":
                    d[n] = Module
                else:
                    d[n] = SStr(z3.String(n))
            return d
        s = Scenario("any", setup)
        s.expect_raise = True
        yield s


# ------------------------------------------------------------------------------------------------ Bundle
class BundleAdd(AddBase):
    key = "hdl21.bundle:_add"
    props = ("C18",)
    raises = (RuntimeError, TypeError)
    kinds = BUN_KINDS
    attrs = BUNDLE_ATTRS
    parent = "_parent_bundle"
    owner_classes = (Bundle,)
    result_classes = BUNDLE_ATTRS

    def scenarios(self, eng):
        def good(eng, st):
            eng.field_classes.update({"namespace[]": BUNDLE_ATTRS})
            m, val = self.mk(eng, st, BUNDLE_ATTRS)
            return {"bundle": m, "val": val}
        yield Scenario("attr", good)

        def bad(eng, st):
            m, val = self.mk(eng, st, (Module, Instance, Concat))
            return {"bundle": m, "val": val}
        s = Scenario("non-attr", bad)
        s.expect_raise = True
        yield s

    def pre(self, eng, st, a):
        return z3.And(inv_ns(st, a.bundle.z, BUN_KINDS, BUNDLE_ATTRS, "_parent_bundle"),
                      z3.Not(st.heap.get("name$none", a.val.z)))

    def _is_attr(self, eng, st0, a):
        return all(issubclass(k, BUNDLE_ATTRS) for k in eng.classes_of(st0, a.val))

    def _frozen(self, st0, a):
        return st0.heap.get("_elaborated", a.bundle.z)

    def p_view(self, eng, st0, st, a, res):
        m, v = a.bundle.z, a.val.z
        name = st0.heap.get("name", v)
        prior = st0.heap.get("namespace", m)[name]
        return z3.And(res.z == v, st.heap.get("namespace", m) == ns_after(st0, m, name, v),
                      st.heap.get("_parent_bundle", v) == m,
                      ModuleAdd.evicted(st0, st, m, name, v, prior, "_parent_bundle"))

    posts = property(lambda self: [("view", self.p_view),
                                   ("inv_ns", lambda eng, st0, st, a, res:
                                    inv_ns(st, a.bundle.z, BUN_KINDS, BUNDLE_ATTRS, "_parent_bundle"))])
    reasons = property(lambda self: {
        RuntimeError: lambda eng, st0, a: self._frozen(st0, a),
        TypeError: lambda eng, st0, a: not self._is_attr(eng, st0, a)})
    must_raise = property(lambda self: [
        ("elaborated", lambda eng, st0, a: self._frozen(st0, a)),
        ("non-attr", lambda eng, st0, a: not self._is_attr(eng, st0, a))])


class BundleAddMethod(AddBase):
    """Bundle.add(val, name=None): exactly one name source, not one of the bundle's protected names; then the namespace
    and the kind views hold the object under that name, the object is named and owned (as bundle._add)."""
    key = "hdl21.bundle:Bundle.add"
    props = ("C18",)
    raises = (RuntimeError, TypeError)
    kinds = BUN_KINDS
    attrs = BUNDLE_ATTRS
    parent = "_parent_bundle"
    owner_classes = (Bundle,)
    result_classes = BUNDLE_ATTRS

    def scenarios(self, eng):
        for has_name in (False, True):
            def good(eng, st, has_name=has_name):
                eng.field_classes.update({"namespace[]": BUNDLE_ATTRS})
                m, val = self.mk(eng, st, BUNDLE_ATTRS)
                return {"self": m, "val": val, "name": SStr(z3.String("name")) if has_name else None}
            yield Scenario(f"attr,name={'str' if has_name else 'None'}", good)

        def bad(eng, st):
            m, val = self.mk(eng, st, (Module, Instance, Concat))
            return {"self": m, "val": val, "name": SStr(z3.String("name"))}
        s = Scenario("non-attr", bad)
        s.expect_raise = True
        yield s

    def pre(self, eng, st, a):
        return inv_ns(st, a.self.z, BUN_KINDS, BUNDLE_ATTRS, "_parent_bundle")

    def _is_attr(self, eng, st0, a):
        return all(issubclass(k, BUNDLE_ATTRS) for k in eng.classes_of(st0, a.val))

    def _badnames(self, st0, a):
        vnone = st0.heap.get("name$none", a.val.z)
        return vnone if a.name is None else z3.Not(vnone)

    def _frozen(self, st0, a):
        return st0.heap.get("_elaborated", a.self.z)

    def _reserved(self, st0, a):
        _banned = RESERVED_BUNDLE
        name = st0.heap.get("name", a.val.z) if a.name is None else zstr(a.name)
        return z3.And(z3.Not(self._badnames(st0, a)), z3.Or([name == z3.StringVal(b) for b in _banned]))

    def p_view(self, eng, st0, st, a, res):
        m, v = a.self.z, a.val.z
        name = st0.heap.get("name", v) if a.name is None else zstr(a.name)
        return z3.And(res.z == v, st.heap.get("namespace", m) == ns_after(st0, m, name, v),
                      st.heap.get("name", v) == name, z3.Not(st.heap.get("name$none", v)),
                      st.heap.get("_parent_bundle", v) == m)

    posts = property(lambda self: [("view", self.p_view),
                                   ("inv_ns", lambda eng, st0, st, a, res:
                                    inv_ns(st, a.self.z, BUN_KINDS, BUNDLE_ATTRS, "_parent_bundle"))])
    reasons = property(lambda self: {
        RuntimeError: lambda eng, st0, a: z3.Or(self._badnames(st0, a), self._frozen(st0, a), self._reserved(st0, a)),
        TypeError: lambda eng, st0, a: not self._is_attr(eng, st0, a)})
    must_raise = property(lambda self: [
        ("name-sources", lambda eng, st0, a: z3.And(self._is_attr(eng, st0, a), self._badnames(st0, a))),
        ("reserved-name", lambda eng, st0, a: z3.And(self._is_attr(eng, st0, a), self._reserved(st0, a))),
        ("elaborated", lambda eng, st0, a: self._frozen(st0, a)),
        ("non-attr", lambda eng, st0, a: not self._is_attr(eng, st0, a))])


CONTRACTS = [ModuleAdd(), AttrTypeError(), ModuleSetattr(), ModuleAddMethod(), ModuleGet(), ModuleGetattr(),
             AlwaysRaises("hdl21.module:Module.__delattr__", ("C18",), ("self", "__name")),
             BundleAdd(), BundleAddMethod()]
INLINE = {"hdl21.module:_assert_module_attr", "hdl21.module:_is_module_attr", "hdl21.module:_drop", "hdl21.bundle:assert_bundle_attr",
          "hdl21.bundle:is_bundle_attr"}
VERIFY = [c for c in CONTRACTS if not isinstance(c, AttrTypeError)]
# __setattr__/__getattr__ hooks are always entered (inlined) at attribute accesses, never replaced by their contract
CALLEE_CONTRACTS = [c for c in CONTRACTS if not c.key.endswith(("__setattr__", "__getattr__"))]
SCHEMA_EXTRA = {"Module._elab_error": "ref"}


def engine():
    fc = dict(FIELD_CLASSES)
    fc["Module._elab_error"] = (Exception,)
    return mk_engine(contracts=CALLEE_CONTRACTS, inline=INLINE, field_classes=fc, schema_extra=SCHEMA_EXTRA)


# ------------------------------------------------------------------------------------------------ establishment
class PureOpaque(Contract):
    raises = ()

    def __init__(self, key):
        self.key = key

    def scenarios(self, eng):
        return []


class ModuleInit(Contract):
    """Module.__init__ establishes Inv_ns: every kind view and the namespace start empty, the module is not frozen and
    carries no elaboration error; a non-string name is refused."""
    key = "hdl21.module:Module.__init__"
    props = ("C18",)
    pure = False
    raises = (TypeError,)
    returns = "none"

    def scenarios(self, eng):
        for nm, mk in (("named", lambda: SStr(z3.String("nm"))), ("anonymous", lambda: None)):
            def setup(eng, st, mk=mk):
                eng.field_classes.update(FIELD_CLASSES)
                me = st.alloc(Module)
                st.heap.put("_initialized", me.z, z3.BoolVal(False))
                return {"self": me, "name": mk()}
            yield Scenario(nm, setup)

    def p_empty(self, eng, st0, st, a, res):
        m = a.self.z
        empties = [z3.ForAll([_n], z3.Select(st.heap.get(d, m), _n) == NULL) for d in list(MOD_KINDS) + ["namespace"]]
        return z3.And(empties + [inv_ns(st, m), st.heap.get("Module._elaborated", m) == NULL,
                                 st.heap.get("Module._elab_error", m) == NULL, st.heap.get("_initialized", m)])
    posts = property(lambda self: [("establishes-inv_ns", self.p_empty)])


def init_engine():
    fc = dict(FIELD_CLASSES)
    fc["Module._elab_error"] = (Exception,)
    return mk_engine(contracts=[ModuleInit(), PureOpaque("hdl21.source_info:source_info")], field_classes=fc,
                     schema_extra=SCHEMA_EXTRA)


VERIFY_INIT = [ModuleInit()]


# ------------------------------------------------------------------------------------------------ @module / @bundle
# "a class-style definition equals the equivalent procedural one": the decorators walk the class dictionary; for every
# entry that is an HDL attribute the effect must be that of the assignment `obj.<key> = value` - the KEY names the value,
# whatever name the value carried before.  The loop body is located in the AST of the current source and executed once
# from an arbitrary state with a symbolic (public) key and a symbolic value.
DECORATORS = [("hdl21.module:module", "module", (Module,), MODULE_ATTRS, "hdl21.module:_add", "module", MOD_KINDS,
               "_parent_module"),
              ("hdl21.bundle:bundle", "bundle", (Bundle,), BUNDLE_ATTRS, "hdl21.bundle:_add", "bundle", BUN_KINDS,
               "_parent_bundle")]


@guarded("list")
def decorator_loop_obligations():
    """-> [(function key, obligations, info)]"""
    import ast as _ast
    from pyvc import loader
    from pyvc.engine import Frame
    out = []
    for key, local, owner_classes, attrs, add_key, add_arg, kinds, parent in DECORATORS:
        ext = loader.extract(key)
        info = {"sha": ext.sha, "lines": ext.lines, "path": ext.path, "paths": 0, "scenarios": 0, "unsupported": []}
        obs = []
        loops = [n for n in _ast.walk(ext.node) if isinstance(n, _ast.For) and "__dict__" in _ast.unparse(n.iter)]
        if len(loops) != 1:
            info["unsupported"].append(f"expected one loop over the class dictionary, found {len(loops)}")
            out.append((key, obs, info))
            continue
        loop = loops[0]
        tgt = [t.id for t in loop.target.elts] if isinstance(loop.target, _ast.Tuple) else None
        if not tgt or len(tgt) != 2:
            info["unsupported"].append("the loop over the class dictionary no longer unpacks (key, value)")
            out.append((key, obs, info))
            continue
        for scen, val_classes in (("attribute", attrs), ("other-value", (Concat,))):
            eng = engine()
            st = eng.new_state()
            eng.field_classes.update(FIELD_CLASSES)
            if owner_classes == (Bundle,):
                eng.field_classes.update({"namespace[]": BUNDLE_ATTRS})
            m = sym_ref(st, "m", owner_classes)
            st.assume(st.heap.get("_initialized", m.z))
            val = sym_ref(st, "val", val_classes)
            st.assume(st.heap.get("_initialized", val.z))
            st.assume(val.z != m.z)
            k = SStr(z3.String("key"))
            st.assume(z3.Not(z3.PrefixOf(z3.StringVal("_"), k.z)))
            st.assume(k.z != z3.StringVal("name"))
            if owner_classes == (Bundle,):
                st.assume(z3.And(k.z != z3.StringVal("roles"), k.z != z3.StringVal("Roles")))     # the role set, not a member
                st.assume(z3.Not(st.heap.get("_elaborated", m.z)))
                st.assume(inv_ns(st, m.z, BUN_KINDS, BUNDLE_ATTRS, "_parent_bundle"))
            else:
                st.assume(st.heap.get("Module._elaborated", m.z) == NULL)
                st.assume(inv_ns(st, m.z))
            st.locals = {}
            for stmt in ext.node.body:          # plain literal locals set up before the loop (lists of names, empty dicts)
                if stmt is loop:
                    break
                tgt_, value = (stmt.targets[0], stmt.value) if isinstance(stmt, _ast.Assign) and len(stmt.targets) == 1 else \
                    (stmt.target, stmt.value) if isinstance(stmt, _ast.AnnAssign) else (None, None)
                if isinstance(tgt_, _ast.Name) and value is not None:
                    try:
                        st.locals[tgt_.id] = _ast.literal_eval(value)
                    except Exception:
                        if isinstance(value, _ast.Call) and isinstance(value.func, _ast.Name) and not value.args and \
                                value.func.id in ("list", "dict", "set"):
                            st.locals[tgt_.id] = {"list": list, "dict": dict, "set": set}[value.func.id]()
            st.locals.update({local: m, tgt[0]: k, tgt[1]: val, "cls": Opaque("the decorated class")})
            st0 = st.fork()
            eng.frames.append(Frame(ext, ext.key))
            eng.cuts = []
            try:
                outs = eng.exec_block(loop.body, st)
            except Unsupported as e:
                info["unsupported"].append(f"{scen}: loop body: {e}")
                continue
            finally:
                eng.frames.pop()
            info["scenarios"] += 1
            mb, bb = RESERVED_MODULE, RESERVED_BUNDLE
            banned = z3.Or([k.z == z3.StringVal(b) for b in (bb if owner_classes == (Bundle,) else mb)])
            for pi, (kind, s2, v) in enumerate(outs):
                info["paths"] += 1
                pname = f"{key}/class-body-entry/{scen}/p{pi}"
                meta = {"trace": list(s2.trace), "havoc": list(s2.ghost.get("havoc", ()))}
                for (oname, opc, goal) in s2.obligations:
                    obs.append(Obligation(f"{pname}/{oname.split('/')[0]}/{oname.split('/')[1].split(':')[-1]}", "callsite",
                                          opc, zbool(goal), key, scen, pi, meta))
                if kind == "exc":
                    # only a protected key may be refused (RuntimeError)
                    ok = banned if getattr(v, "cls", None) is RuntimeError else z3.BoolVal(False)
                    obs.append(Obligation(f"{pname}/raises.{getattr(getattr(v, 'cls', None), '__name__', 'Exception')}",
                                          "raises", list(s2.pc), ok, key, scen, pi, meta))
                    continue
                if scen == "attribute":      # (another value under a protected key is simply not a member)
                    obs.append(Obligation(f"{pname}/protected-key-refused", "post", list(s2.pc), z3.Not(banned), key, scen, pi, meta))
                ns0, ns1 = st0.heap.get("namespace", m.z), s2.heap.get("namespace", m.z)
                if scen == "attribute":
                    goal = z3.And(z3.Select(ns1, k.z) == val.z, s2.heap.get("name", val.z) == k.z,
                                  z3.Not(s2.heap.get("name$none", val.z)), s2.heap.get(parent, val.z) == m.z,
                                  ns1 == ns_after_assign(st0, m.z, k.z, val.z))
                    obs.append(Obligation(f"{pname}/post.as-assignment", "post", list(s2.pc), goal, key, scen, pi, meta))
                else:
                    obs.append(Obligation(f"{pname}/post.forgotten", "post", list(s2.pc), ns1 == ns0, key, scen, pi, meta))
        out.append((key, obs, info))
    return out
