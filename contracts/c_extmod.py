"""hdl21/proto/exporting.py: export_external_module (the free function) - C06 (every port of an exported external
module names a signal declared in it, of the port's width), C01 / C11 (ports in port_list order).

The port loop's body, located in the current source, is executed for ONE arbitrary port of emod.port_list from an
arbitrary state of the record under construction (two earlier signals, two earlier ports): exactly one Signal record
carrying the port's name and width is appended at the end of pmod.signals, and exactly one Port record - the result of
export_port on that very port (contract in c_conntarget: it names the port's name) - at the end of pmod.ports; the
earlier entries stay where they were.  By induction over the loop: signals and ports are parallel to port_list, in order,
and port k names signal k."""
import z3
import vlsir.circuit_pb2 as vckt
from pyvc import *
from pyvc import loader
from .common import *

KEY = "hdl21.proto.exporting:export_external_module"
K_PORT = "hdl21.proto.exporting:export_port"


class ExportPortCallee(Contract):
    """export_port as a callee (proved in c_conntarget.ExportPort): a new Port record naming the port's name."""
    key = K_PORT
    pure = True
    raises = (ValueError,)
    returns = "ref"
    result_classes = (vckt.Port,)

    def scenarios(self, eng):
        return []

    def make_result(self, eng, st, a):
        return st.alloc(vckt.Port)

    def p_names(self, eng, st0, st, a, res):
        return st.heap.get("Port.signal", res.z) == st0.heap.get("name", a.port.z)
    posts = property(lambda self: [("names-the-port", self.p_names)])


@guarded("koi", KEY)
def port_loop_obligations():
    import ast
    from pyvc.engine import Frame
    ext = loader.extract(KEY)
    info = {"sha": ext.sha, "lines": ext.lines, "path": ext.path, "paths": 0, "scenarios": 0, "unsupported": []}
    loops = [n for n in ast.walk(ext.node) if isinstance(n, ast.For) and "port_list" in ast.unparse(n.iter)
             and isinstance(n.target, ast.Name)]
    obs = []
    if len(loops) != 1 or ast.unparse(loops[0].iter) != "emod.port_list":
        info["unsupported"].append(f"expected one loop over emod.port_list itself, found "
                                   f"{[ast.unparse(l.iter) for l in loops]}")
        return KEY, obs, info
    loop = loops[0]
    schema = {"Port.signal": "str", "Port.direction": "int", "ExternalModule.signals": "py", "ExternalModule.ports": "py"}
    eng = mk_engine(contracts=[ExportPortCallee()], schema_extra=schema)
    st = eng.new_state()
    pmod = sym_ref(st, "pmod", (vckt.ExternalModule,))
    sigs0 = tuple(sym_ref(st, f"sig{k}", (vckt.Signal,)) for k in range(2))
    ports0 = tuple(sym_ref(st, f"port{k}", (vckt.Port,)) for k in range(2))
    eng.write_field(st, pmod, "signals", sigs0)
    eng.write_field(st, pmod, "ports", ports0)
    port = sym_ref(st, "the_port", (Signal,))
    st.assume(z3.Not(st.heap.get("name$none", port.z)))
    name0, width0 = st.heap.get("name", port.z), st.heap.get("width", port.z)
    st.locals = {"emod": Opaque("emod"), "pmod": pmod, "qname": Opaque("qname"), loop.target.id: port}
    st0 = st.fork()
    eng.frames.append(Frame(ext, ext.key))
    eng.cuts = []
    try:
        outs = eng.exec_block(loop.body, st)
    except Unsupported as e:
        info["unsupported"].append(f"port loop body: {e}")
        return KEY, obs, info
    finally:
        eng.frames.pop()
    info["scenarios"] = 1
    for pi, (kind, s2, v) in enumerate(outs):
        info["paths"] += 1
        if kind == "exc":
            continue                       # a port export_port refuses: the whole export is refused
        calls = [c for c in s2.calls if c[0] == K_PORT]
        gs = eng.read_field(s2, pmod, "signals")[0][1]
        gp = eng.read_field(s2, pmod, "ports")[0][1]
        goal = z3.BoolVal(False)
        shape = isinstance(gs, tuple) and isinstance(gp, tuple) and len(gs) == 3 and len(gp) == 3 and \
            all(isinstance(x, SRef) for x in gs + gp) and \
            all(g.z.eq(b.z) for g, b in zip(gs[:2], sigs0)) and all(g.z.eq(b.z) for g, b in zip(gp[:2], ports0)) and \
            len(calls) == 1 and isinstance(calls[0][1].port, SRef) and calls[0][1].port.z.eq(port.z)
        if shape:
            fk_n = eng.field_key(s2, gs[2], "name")
            fk_w = eng.field_key(s2, gs[2], "width")
            goal = z3.And(s2.heap.get(fk_n, gs[2].z) == name0, s2.heap.get(fk_w, gs[2].z) == width0,
                          s2.heap.get("Port.signal", gp[2].z) == name0,
                          z3.Not(st0.heap.get("$alive", gs[2].z)), z3.Not(st0.heap.get("$alive", gp[2].z)))
        obs.append(Obligation(f"{KEY}/port-loop/p{pi}/post.one-signal-and-one-port-appended", "post", list(s2.pc), goal, KEY,
                              "port-loop", pi, {"trace": list(s2.trace), "havoc": list(s2.ghost.get("havoc", ()))}))
    return KEY, obs, info


# ------------------------------------------------------------------------------------------------ export_module's loops
K_MOD = "hdl21.proto.exporting:ProtoExporter.export_module"
K_INST = "hdl21.proto.exporting:ProtoExporter.export_instance"
WANT_ITERS = {"signals": "list(module.signals.values()) + list(module.ports.values())",
              "ports": "module.ports.values()", "instances": "module.instances.values()", "literals": "module.literals"}


class ExportInstanceCallee(Contract):
    """self.export_instance(inst) as a callee: a new Instance record or a refusal.  Frame ASSUMED: it writes the
    exporter's tables and other modules' records (it may export the instantiated module first), never the lists of the
    module record under construction."""
    key = K_INST
    pure = True
    raises = (RuntimeError, ValueError, TypeError)
    returns = "ref"
    result_classes = (vckt.Instance,)

    def scenarios(self, eng):
        return []

    def make_result(self, eng, st, a):
        return st.alloc(vckt.Instance)


@guarded("koi", K_MOD)
def module_loop_obligations():
    """ProtoExporter.export_module: (0) the three loops run over every signal and port / every port / every instance of
    the module (their iteration sources, compared as source text); each loop's body, executed for one arbitrary element
    from an arbitrary earlier state of the record: (1) one Signal record of the element's name and width appended at the
    end of pmod.signals; (2) export_port of that very port appended at the end of pmod.ports; (3) export_instance of that
    very instance appended at the end of pmod.instances, or the export refused."""
    import ast
    from pyvc.engine import Frame
    from hdl21.proto.exporting import ProtoExporter
    from hdl21.instance import Instance
    ext = loader.extract(K_MOD)
    info = {"sha": ext.sha, "lines": ext.lines, "path": ext.path, "paths": 0, "scenarios": 0, "unsupported": []}
    obs = []
    loops = {}
    for n in ast.walk(ext.node):
        if isinstance(n, ast.For) and isinstance(n.target, ast.Name):
            for field in WANT_ITERS:
                if any(isinstance(c, ast.Call) and ast.unparse(c.func) == f"pmod.{field}.append" for c in ast.walk(n)):
                    loops.setdefault(field, []).append(n)
    for field, want in WANT_ITERS.items():
        found = loops.get(field, [])
        ok = len(found) == 1 and ast.unparse(found[0].iter) == want
        # (a comparison of source text: losing it loses the inductive argument, not necessarily the property - the
        #  caller files these under frame_audit, i.e. UNDECIDED, and the bounded part decides)
        info.setdefault("iteration_sources", 0)
        info["iteration_sources"] += 1
        if not ok:
            info.setdefault("iteration_offenders", []).append((f"{field}-loop", f"found {[ast.unparse(l.iter) for l in found]}, wanted {want}"))
    schema = {"Port.signal": "str", "Port.direction": "int", "Module.signals": "py", "Module.ports": "py",
              "Module.instances": "py", "of": "ref"}
    for field, elem_cls, rec_cls in (("signals", Signal, vckt.Signal), ("ports", Signal, vckt.Port),
                                     ("instances", Instance, vckt.Instance)):
        if len(loops.get(field, [])) != 1:
            continue
        loop = loops[field][0]
        eng = mk_engine(contracts=[ExportPortCallee(), ExportInstanceCallee()], schema_extra=schema)
        st = eng.new_state()
        me = sym_ref(st, "self", (ProtoExporter,))
        pmod = sym_ref(st, "pmod", (vckt.Module,))
        before = {f: tuple(sym_ref(st, f"{f}{k}", (c,)) for k in range(2))
                  for f, c in (("signals", vckt.Signal), ("ports", vckt.Port), ("instances", vckt.Instance))}
        for f, v in before.items():
            eng.write_field(st, pmod, f, v)
        elem = sym_ref(st, "elem", (elem_cls,))
        st.assume(z3.Not(st.heap.get("name$none", elem.z)))
        name0, width0 = st.heap.get("name", elem.z), st.heap.get("width", elem.z)
        st.locals = {"self": me, "module": Opaque("module"), "pmod": pmod, loop.target.id: elem}
        st0 = st.fork()
        eng.frames.append(Frame(ext, ext.key))
        eng.cuts = []
        try:
            outs = eng.exec_block(loop.body, st)
        except Unsupported as e:
            info["unsupported"].append(f"{field} loop body: {e}")
            continue
        finally:
            eng.frames.pop()
        info["scenarios"] += 1
        for pi, (kind, s2, v) in enumerate(outs):
            info["paths"] += 1
            if kind == "exc":
                continue
            now = {f: eng.read_field(s2, pmod, f)[0][1] for f in before}
            goal = z3.BoolVal(False)
            shape = all(isinstance(now[f], tuple) and all(isinstance(x, SRef) for x in now[f]) for f in before) and \
                all(len(now[f]) == (3 if f == field else 2) for f in before) and \
                all(g.z.eq(b.z) for f in before for g, b in zip(now[f][:2], before[f]))
            if shape:
                new = now[field][2]
                fresh_rec = z3.Not(st0.heap.get("$alive", new.z))
                if field == "signals":
                    goal = z3.And(fresh_rec, s2.heap.get(eng.field_key(s2, new, "name"), new.z) == name0,
                                  s2.heap.get(eng.field_key(s2, new, "width"), new.z) == width0)
                else:
                    k = K_PORT if field == "ports" else K_INST
                    calls = [c for c in s2.calls if c[0] == k]
                    arg = list(vars(calls[0][1]).values()) if len(calls) == 1 else []
                    handed = any(isinstance(x, SRef) and x.z.eq(elem.z) for x in arg)
                    goal = z3.And(fresh_rec, z3.BoolVal(handed))
                    if field == "ports":
                        goal = z3.And(goal, s2.heap.get("Port.signal", new.z) == name0)
            obs.append(Obligation(f"{K_MOD}/{field}-loop/p{pi}/post.one-record-appended", "post", list(s2.pc), goal, K_MOD,
                                  f"{field}-loop", pi, {"trace": list(s2.trace), "havoc": list(s2.ghost.get("havoc", ()))}))
    obs += _literal_loop(ext, loops, info)
    return K_MOD, obs, info


def _literal_loop(ext, loops, info):
    """(4) the literals loop: the text of that very Literal (export_literal inlined from the current source) is appended
    at the end of pmod.literals, the earlier texts stay"""
    from pyvc.engine import Frame
    from hdl21.literal import Literal
    from hdl21.proto.exporting import ProtoExporter
    if len(loops.get("literals", [])) != 1:
        return []
    loop = loops["literals"][0]
    eng = mk_engine(contracts=[], schema_extra={"Module.literals": "py", "text": "str"},
                    inline={"hdl21.proto.exporting:export_literal"})
    st = eng.new_state()
    pmod = sym_ref(st, "pmod", (vckt.Module,))
    before = (SStr(z3.String("lit0")), SStr(z3.String("lit1")))
    eng.write_field(st, pmod, "literals", before)
    elem = sym_ref(st, "elem", (Literal,))
    text0 = st.heap.get("text", elem.z)
    st.locals = {"self": sym_ref(st, "self", (ProtoExporter,)), "module": Opaque("module"), "pmod": pmod, loop.target.id: elem}
    eng.frames.append(Frame(ext, ext.key))
    eng.cuts = []
    try:
        outs = eng.exec_block(loop.body, st)
    except Unsupported as e:
        info["unsupported"].append(f"literals loop body: {e}")
        return []
    finally:
        eng.frames.pop()
    info["scenarios"] += 1
    obs = []
    for pi, (kind, s2, v) in enumerate(outs):
        info["paths"] += 1
        now = eng.read_field(s2, pmod, "literals")[0][1] if kind != "exc" else None
        goal = z3.BoolVal(False)
        if isinstance(now, tuple) and len(now) == 3 and all(isinstance(x, SStr) for x in now):
            goal = z3.And(now[0].z == before[0].z, now[1].z == before[1].z, now[2].z == text0)
        obs.append(Obligation(f"{K_MOD}/literals-loop/p{pi}/post.the-text-appended", "post", list(s2.pc), goal, K_MOD,
                              "literals-loop", pi, {"trace": list(s2.trace), "havoc": list(s2.ghost.get("havoc", ()))}))
    return obs
