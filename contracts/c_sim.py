"""Contracts for hdl21/sim/proto.py leaf exporters (C17)."""
import z3
import vlsir.spice_pb2 as vsp
from pyvc import *
from .common import *
from hdl21.sim import data
from hdl21.sim.proto import SimProtoExporter

SCHEMA_EXTRA = {"targ": "py", "signal": "str", "mode": "py", "analysis_count": "int", "Param.name": "str"}


class ExportSave(Contract):
    """export_save(save): every documented SaveTarget form is accepted - a mode maps to the like-named VLSIR mode, a
    Signal to its name, a name to itself, a list to the comma-joined names in order; nothing else is accepted."""
    key = "hdl21.sim.proto:export_save"
    props = ("C17",)
    pure = False
    raises = (TypeError,)
    returns = "ref"
    result_classes = (vsp.Save,)

    def scenarios(self, eng):
        def mk(nm, f, expect_raise=False):
            def setup(eng, st):
                save = sym_ref(st, "save", (data.Save,))
                t = f(st)
                eng.write_field(st, save, "targ", t)
                st.ghost["targ"] = t
                return {"save": save}
            s = Scenario(nm, setup)
            s.expect_raise = expect_raise
            return s

        def named_sig(st, n):
            s = sym_ref(st, n, (Signal,))
            st.assume(z3.Not(st.heap.get("name$none", s.z)))
            return s
        for m in (data.SaveMode.ALL, data.SaveMode.NONE):
            yield mk(f"mode-{m.name}", lambda st, m=m: m)
        yield mk("signal", lambda st: named_sig(st, "sig"))
        yield mk("name", lambda st: SStr(z3.String("nm")))
        yield mk("signal-list", lambda st: [named_sig(st, "s0"), named_sig(st, "s1"), named_sig(st, "s2")])
        yield mk("name-list", lambda st: [SStr(z3.String("n0")), SStr(z3.String("n1"))])
        yield mk("empty-list", lambda st: [])
        yield mk("mixed-list", lambda st: [named_sig(st, "s0"), SStr(z3.String("n1"))], True)
        yield mk("number", lambda st: SInt(z3.Int("k")), True)

    def p_value(self, eng, st0, st, a, res):
        t = st0.ghost["targ"]
        g = lambda f: st.heap.get(f, res.z)
        name = lambda s: st0.heap.get("name", s.z)
        if isinstance(t, data.SaveMode):
            got = st.ghost.get(("fld", "mode", zid(res.z)))
            return got == getattr(vsp.Save.SaveMode, t.name)
        if isinstance(t, SRef):
            return g("signal") == name(t)
        if isinstance(t, SStr):
            return g("signal") == t.z
        if isinstance(t, list):
            parts = [name(x) if isinstance(x, SRef) else x.z for x in t]
            if not parts:
                return g("signal") == z3.StringVal("")
            acc = parts[0]
            for p in parts[1:]:
                acc = z3.Concat(acc, z3.StringVal(","), p)
            return g("signal") == acc
        return False
    posts = property(lambda self: [("target", self.p_value)])

    @staticmethod
    def _valid(st0):
        t = st0.ghost["targ"]
        if isinstance(t, list):
            return all(isinstance(x, SRef) for x in t) or all(isinstance(x, SStr) for x in t)
        return isinstance(t, (data.SaveMode, SRef, SStr))
    reasons = property(lambda self: {TypeError: lambda eng, st0, a: not self._valid(st0)})
    must_raise = property(lambda self: [("not-a-save-target", lambda eng, st0, a: not self._valid(st0))])


class NextName(Contract):
    """next_analysis_name: returns "Analysis<k>" for the current counter k and increments it - so generated names are
    pairwise distinct."""
    key = "hdl21.sim.proto:SimProtoExporter.next_analysis_name"
    props = ("C17",)
    pure = False
    raises = ()
    returns = "str"

    def scenarios(self, eng):
        def setup(eng, st):
            me = sym_ref(st, "self", (SimProtoExporter,))
            st.assume(st.heap.get("analysis_count", me.z) >= 0)
            return {"self": me}
        yield Scenario("any", setup)

    def frame(self, eng, st, a):
        st.heap.havoc_at("analysis_count", a.self.z)

    def p_frame(self, eng, st0, st, a, res):
        """nothing but this exporter's counter changes"""
        cs = []
        for f in st.heap.schema:
            if f.startswith("$"):
                continue
            try:
                a1, a0 = st.heap.arr(f), st0.heap.arr(f)
            except Exception:
                continue
            if f == "analysis_count":
                r = z3.Int("qr")
                cs.append(z3.ForAll([r], z3.Implies(r != a.self.z, z3.Select(a1, r) == z3.Select(a0, r))))
            else:
                cs.append(a1 == a0)
        return z3.And(cs)

    def p_name(self, eng, st0, st, a, res):
        k = st0.heap.get("analysis_count", a.self.z)
        return z3.And(zstr(res) == z3.Concat(z3.StringVal("Analysis"), z3.IntToStr(k)),
                      st.heap.get("analysis_count", a.self.z) == k + 1)
    posts = property(lambda self: [("name-and-counter", self.p_name), ("frame", self.p_frame)])


class SweepVariable(Contract):
    key = "hdl21.sim.proto:SimProtoExporter.export_sweep_variable"
    props = ("C17",)
    raises = (TypeError,)
    returns = "str"

    def scenarios(self, eng):
        def s1(eng, st):
            return {"self": sym_ref(st, "self", (SimProtoExporter,)), "var": SStr(z3.String("v"))}
        yield Scenario("name", s1)

        def s2(eng, st):
            return {"self": sym_ref(st, "self", (SimProtoExporter,)), "var": sym_ref(st, "p", (data.Param,))}
        yield Scenario("param", s2)

        def s3(eng, st):
            return {"self": sym_ref(st, "self", (SimProtoExporter,)), "var": SInt(z3.Int("k"))}
        s = Scenario("number", s3)
        s.expect_raise = True
        yield s

    def p_val(self, eng, st0, st, a, res):
        if isinstance(a.var, SStr):
            return zstr(res) == a.var.z
        return zstr(res) == st0.heap.get("Param.name", a.var.z)
    posts = property(lambda self: [("name", self.p_val)])
    reasons = property(lambda self: {TypeError: lambda eng, st0, a: not isinstance(a.var, (SStr, SRef))})
    must_raise = property(lambda self: [("bad", lambda eng, st0, a: not isinstance(a.var, (SStr, SRef)))])


def engine():
    return mk_engine(contracts=CONTRACTS, schema_extra=SCHEMA_EXTRA)


CONTRACTS = [ExportSave(), NextName(), SweepVariable()]
VERIFY = CONTRACTS


# ------------------------------------------------------------------------------------------------ dispatch functions
from hdl21.literal import Literal as _Literal

CTRL_KINDS = {"include": (data.Include, "hdl21.sim.proto:export_include"), "lib": (data.Lib, "hdl21.sim.proto:export_lib"),
              "save": (data.Save, "hdl21.sim.proto:export_save"), "meas": (data.Meas, "hdl21.sim.proto:export_meas"),
              "param": (data.Param, "hdl21.sim.proto:export_param"), "literal": (_Literal, "hdl21.proto.exporting:export_literal")}
AN_KINDS = {"op": (data.Op, "export_op"), "dc": (data.Dc, "export_dc"), "ac": (data.Ac, "export_ac"),
            "tran": (data.Tran, "export_tran"), "noise": (data.Noise, "export_noise"),
            "sweep": (data.SweepAnalysis, "export_sweep_analysis"), "monte": (data.MonteCarlo, "export_monte"),
            "custom": (data.CustomAnalysis, "export_custom_analysis")}
DISPATCH_SCHEMA = {k: "ref" for k in list(CTRL_KINDS) + list(AN_KINDS)}


class Leaf(Contract):
    """a leaf exporter seen from its dispatcher: returns a message (or text), may refuse its argument"""
    pure = True
    raises = (TypeError, ValueError)
    returns = "ref"

    def __init__(self, key, returns="ref"):
        self.key = key
        self.returns = returns
        self.result_classes = (vsp.Control,)

    def scenarios(self, eng):
        return []


class ExportControl(Contract):
    """export_control(ctrl): total over the six control kinds, each wrapped in the like-named Control variant built
    from that very object by its own exporter; anything else is refused with TypeError."""
    key = "hdl21.sim.proto:export_control"
    props = ("C17",)
    pure = False
    raises = (TypeError, ValueError)
    returns = "ref"

    def scenarios(self, eng):
        for kind, (cls, _) in CTRL_KINDS.items():
            def setup(eng, st, cls=cls):
                return {"ctrl": sym_ref(st, "ctrl", (cls,))}
            yield Scenario(kind, setup)

        def bad(eng, st):
            return {"ctrl": sym_ref(st, "ctrl", (data.Options, data.Op, data.Sim))}
        s = Scenario("not-a-control", bad)
        s.expect_raise = True
        yield s

    def p_variant(self, eng, st0, st, a, res):
        cls = eng.classes_of(st0, a.ctrl)[0]
        kind = next(k for k, (c, _) in CTRL_KINDS.items() if issubclass(cls, c))
        callee = CTRL_KINDS[kind][1]
        calls = [c for c in st.calls if c[0] == callee]
        if len(calls) != 1 or list(vars(calls[0][1]).values())[0] is not a.ctrl:
            return False
        others = [st.heap.get(k, res.z) == NULL for k in CTRL_KINDS if k != kind and k != "literal"]
        if kind == "literal":
            return True      # the literal variant carries text, not a sub-message
        return z3.And([st.heap.get(kind, res.z) != NULL] + others)
    posts = property(lambda self: [("like-named-variant", self.p_variant)])
    must_raise = property(lambda self: [("not-a-control", lambda eng, st0, a: not any(
        issubclass(eng.classes_of(st0, a.ctrl)[0], c) for c, _ in CTRL_KINDS.values()))])


class ExportAnalysis(Contract):
    """SimProtoExporter.export_analysis(an): total over the eight analysis kinds, each in the like-named variant."""
    key = "hdl21.sim.proto:SimProtoExporter.export_analysis"
    props = ("C17",)
    pure = False
    raises = (TypeError, ValueError)
    returns = "ref"

    def scenarios(self, eng):
        for kind, (cls, _) in AN_KINDS.items():
            def setup(eng, st, cls=cls):
                return {"self": sym_ref(st, "self", (SimProtoExporter,)), "an": sym_ref(st, "an", (cls,))}
            yield Scenario(kind, setup)

        def bad(eng, st):
            return {"self": sym_ref(st, "self", (SimProtoExporter,)), "an": sym_ref(st, "an", (data.Save, data.Options))}
        s = Scenario("not-an-analysis", bad)
        s.expect_raise = True
        yield s

    def p_variant(self, eng, st0, st, a, res):
        cls = eng.classes_of(st0, a.an)[0]
        kind = next(k for k, (c, _) in AN_KINDS.items() if issubclass(cls, c))
        callee = "hdl21.sim.proto:SimProtoExporter." + AN_KINDS[kind][1]
        calls = [c for c in st.calls if c[0] == callee]
        if len(calls) != 1 or list(vars(calls[0][1]).values())[1] is not a.an:
            return False
        others = [st.heap.get(k, res.z) == NULL for k in AN_KINDS if k != kind]
        return z3.And([st.heap.get(kind, res.z) != NULL] + others)
    posts = property(lambda self: [("like-named-variant", self.p_variant)])
    must_raise = property(lambda self: [("not-an-analysis", lambda eng, st0, a: not any(
        issubclass(eng.classes_of(st0, a.an)[0], c) for c, _ in AN_KINDS.values()))])


def dispatch_engine():
    leaves = [Leaf(k, "ref" if not k.endswith("export_literal") else "str") for _, k in CTRL_KINDS.values()]
    leaves += [Leaf("hdl21.sim.proto:SimProtoExporter." + m) for _, m in AN_KINDS.values()]
    schema = dict(SCHEMA_EXTRA)
    schema.update(DISPATCH_SCHEMA)
    schema["literal"] = "str"
    eng = mk_engine(contracts=leaves + [ExportControl(), ExportAnalysis()], schema_extra=schema)
    return eng


VERIFY_DISPATCH = [ExportControl(), ExportAnalysis()]


# ---------------------------------------------------------------------------------------------------------------------
# export_attr: each Sim attribute lands, converted by its own exporter, at the END of exactly one of the SimInput's three
# lists (options / analyses / controls) and the other two lists are untouched - so the lists hold one entry per attribute
# in the original order (the loop in export() visits sim.attrs in order).
# ---------------------------------------------------------------------------------------------------------------------
class ExportOptionsLeaf(Leaf):
    def __init__(self):
        Leaf.__init__(self, "hdl21.sim.proto:export_options")
        self.result_classes = (vsp.SimOptions,)


class ExportAnalysisLeaf(Leaf):
    def __init__(self):
        Leaf.__init__(self, "hdl21.sim.proto:SimProtoExporter.export_analysis")
        self.result_classes = (vsp.Analysis,)
        self.pure = False

    def frame(self, eng, st, a):
        st.heap.havoc_field("analysis_count")       # unnamed analyses draw a fresh name


class ExportControlLeaf(Leaf):
    def __init__(self):
        Leaf.__init__(self, "hdl21.sim.proto:export_control")
        self.result_classes = (vsp.Control,)


ATTR_LISTS = {"opts": "hdl21.sim.proto:export_options", "an": "hdl21.sim.proto:SimProtoExporter.export_analysis",
              "ctrls": "hdl21.sim.proto:export_control"}


class ExportAttr(Contract):
    key = "hdl21.sim.proto:SimProtoExporter.export_attr"
    props = ("C17",)
    pure = False
    raises = (TypeError, ValueError)
    returns = "none"

    def scenarios(self, eng):
        groups = {"option": (data.Options,), "analysis": tuple(c for c, _ in AN_KINDS.values()),
                  "control": tuple(c for c, _ in CTRL_KINDS.values() if isinstance(c, type))}
        for nm, classes in groups.items():
            for cls in classes:
                def setup(eng, st, cls=cls):
                    me = sym_ref(st, "self", (SimProtoExporter,))
                    inp = st.heap.get("inp", me.z)
                    st.assume(z3.And(inp != NULL, st.heap.get("$alive", inp),
                                     st.heap.get("$cls", inp) == st.classid(vsp.SimInput)))
                    return {"self": me, "attr": sym_ref(st, "attr", (cls,))}
                yield Scenario(f"{nm}:{cls.__name__}", setup)

        def bad(eng, st):
            me = sym_ref(st, "self", (SimProtoExporter,))
            inp = st.heap.get("inp", me.z)
            st.assume(z3.And(inp != NULL, st.heap.get("$alive", inp), st.heap.get("$cls", inp) == st.classid(vsp.SimInput)))
            return {"self": me, "attr": sym_ref(st, "attr", (data.Sim, Signal))}
        s = Scenario("not-an-attribute", bad)
        s.expect_raise = True
        yield s

    def _which(self, eng, st0, a):
        cls = eng.classes_of(st0, a.attr)[0]
        if issubclass(cls, data.Options):
            return "opts"
        if any(issubclass(cls, c) for c, _ in AN_KINDS.values()):
            return "an"
        if any(isinstance(c, type) and issubclass(cls, c) for c, _ in CTRL_KINDS.values()):
            return "ctrls"
        return None

    def p_append(self, eng, st0, st, a, res):
        which = self._which(eng, st0, a)
        if which is None:
            return False
        inp = st0.heap.get("inp", a.self.z)
        calls = [c for c in st.calls if c[0] == ATTR_LISTS[which]]
        if len(calls) != 1:
            return False
        cs = []
        for f in ATTR_LISTS:
            s0, s1 = st0.heap.get(f, inp), st.heap.get(f, inp)
            if f == which:
                cs.append(z3.And(z3.Length(s1) == z3.Length(s0) + 1, z3.PrefixOf(s0, s1)))
            else:
                cs.append(s1 == s0)
        return z3.And(cs)
    posts = property(lambda self: [("appended-to-exactly-one-list", self.p_append)])
    must_raise = property(lambda self: [("not-an-attribute", lambda eng, st0, a: self._which(eng, st0, a) is None)])


def attr_engine():
    schema = dict(SCHEMA_EXTRA)
    schema.update({"inp": "ref", "opts": "seq[ref]", "an": "seq[ref]", "ctrls": "seq[ref]", "analysis_count": "int"})
    eng = mk_engine(contracts=[ExportOptionsLeaf(), ExportAnalysisLeaf(), ExportControlLeaf()], schema_extra=schema,
                    inline={"hdl21.sim.data:is_analysis", "hdl21.sim.data:is_control"})
    eng.field_classes["inp"] = (vsp.SimInput,)
    return eng


VERIFY_ATTR = [ExportAttr()]


# ---------------------------------------------------------------------------------------------------------------------
# Named or freshly named: export_op / export_tran carry the analysis' own name when it has one and draw the next
# Analysis<k> otherwise; export_tran passes tstop / tstep through export_float.
# ---------------------------------------------------------------------------------------------------------------------
FLT = z3.Function("export_float_of", z3.IntSort(), z3.RealSort())


class ExportFloatLeaf(Contract):
    key = "hdl21.sim.proto:export_float"
    raises = (TypeError, ValueError)

    def scenarios(self, eng):
        return []

    def apply(self, eng, st, args, kwargs, node=None):
        v = args[0]
        if v is None:
            import fractions
            return [(st, fractions.Fraction(0))]      # 0.0: the protobuf default (floats are modelled as exact reals)
        if isinstance(v, SRef):
            return [(st, SReal(FLT(v.z)))]
        raise Unsupported("export_float of a non-object", node)


class NamedAnalysis(Contract):
    props = ("C17",)
    pure = False
    raises = (TypeError, ValueError)
    returns = "ref"

    def __init__(self, meth, cls, rec, floats=()):
        self.key = "hdl21.sim.proto:SimProtoExporter." + meth
        self.argname = {"export_op": "op", "export_tran": "tran"}[meth]
        self.cls, self.rec, self.floats = cls, rec, floats
        self.result_classes = (rec,)

    def scenarios(self, eng):
        def setup(eng, st):
            me = sym_ref(st, "self", (SimProtoExporter,))
            st.assume(st.heap.get("analysis_count", me.z) >= 0)
            an = sym_ref(st, "an", (self.cls,))
            for f in self.floats:
                eng.field_classes[f] = (h.Prefixed,)
            return {"self": me, self.argname: an}
        yield Scenario("named-or-not", setup)

    def p_name(self, eng, st0, st, a, res):
        an = getattr(a, self.argname)
        none0 = st0.heap.get("name$none", an.z)
        nm0 = st0.heap.get("name", an.z)
        k0 = st0.heap.get("analysis_count", a.self.z)
        has = z3.And(z3.Not(none0), z3.Length(nm0) > 0)
        got = st.heap.get("analysis_name", res.z)
        return z3.And(z3.Implies(has, z3.And(got == nm0, st.heap.get("analysis_count", a.self.z) == k0)),
                      z3.Implies(z3.Not(has), z3.And(got == z3.Concat(z3.StringVal("Analysis"), z3.IntToStr(k0)),
                                                     st.heap.get("analysis_count", a.self.z) == k0 + 1)))

    def p_values(self, eng, st0, st, a, res):
        an = getattr(a, self.argname)
        cs = []
        for f in self.floats:
            src = st0.heap.get(f, an.z)
            cs.append(z3.If(src == NULL, st.heap.get("TranInput." + f, res.z) == 0, st.heap.get("TranInput." + f, res.z) == FLT(src)))
        return z3.And(cs) if cs else True
    posts = property(lambda self: [("own-name-or-next-fresh-name", self.p_name), ("values-through-export_float", self.p_values)])


import hdl21 as h  # noqa: E402


def named_engine():
    schema = dict(SCHEMA_EXTRA)
    schema.update({"analysis_count": "int", "analysis_name": "str", "tstop": "ref", "tstep": "ref",
                   "TranInput.tstop": "real", "TranInput.tstep": "real"})
    eng = mk_engine(contracts=[NextName(), ExportFloatLeaf()], schema_extra=schema)
    orig = eng.field_key

    def field_key(st, ref, field):
        return orig(st, ref, field)
    return eng


VERIFY_NAMED = [NamedAnalysis("export_op", data.Op, vsp.OpInput), NamedAnalysis("export_tran", data.Tran, vsp.TranInput,
                                                                               ("tstop", "tstep"))]


@guarded("koi", "hdl21.sim.data:Sim.add")
def sim_add_obligations():
    """Sim.add(*attrs): the loop body located in the current source, executed for one arbitrary attribute of every
    attribute class: a valid attribute is appended at the END of sim.attrs (whatever is already there - equal-looking
    attributes included), anything else is refused with TypeError."""
    import ast
    from pyvc import loader
    from pyvc.engine import Frame
    key = "hdl21.sim.data:Sim.add"
    ext = loader.extract(key)
    info = {"sha": ext.sha, "lines": ext.lines, "path": ext.path, "paths": 0, "scenarios": 0, "unsupported": []}
    loops = [n for n in ast.walk(ext.node) if isinstance(n, ast.For)]
    obs = []
    if len(loops) != 1 or not isinstance(loops[0].target, ast.Name):
        info["unsupported"].append("the attribute loop of Sim.add was not found")
        return key, obs, info
    loop = loops[0]
    classes = [data.Options] + [c for c, _ in AN_KINDS.values()] + [c for c, _ in CTRL_KINDS.values() if isinstance(c, type)]
    for cls in classes + [Signal]:
        schema = dict(SCHEMA_EXTRA)
        schema["attrs"] = "seq[ref]"
        eng = mk_engine(schema_extra=schema, inline={"hdl21.sim.data:is_simattr", "hdl21.sim.data:is_analysis",
                                                     "hdl21.sim.data:is_control"})
        st = eng.new_state()
        me = sym_ref(st, "self", (data.Sim,))
        attr = sym_ref(st, "attr", (cls,))
        st.locals = {"self": me, loop.target.id: attr, "attrs": (attr,)}
        st0 = st.fork()
        eng.frames.append(Frame(ext, ext.key))
        eng.cuts = []
        try:
            outs = eng.exec_block(loop.body, st)
        except Unsupported as e:
            info["unsupported"].append(f"{cls.__name__}: {e}")
            continue
        finally:
            eng.frames.pop()
        info["scenarios"] += 1
        for pi, (kind, s2, v) in enumerate(outs):
            info["paths"] += 1
            a0, a1 = st0.heap.get("attrs", me.z), s2.heap.get("attrs", me.z)
            meta = {"trace": list(s2.trace), "havoc": list(s2.ghost.get("havoc", ()))}
            if cls is Signal:
                goal = z3.BoolVal(kind == "exc" and v.cls is TypeError)
                obs.append(Obligation(f"{key}/not-an-attribute/p{pi}/rejects", "raises", list(s2.pc), goal, key,
                                      "not-an-attribute", pi, meta))
                continue
            if kind == "exc":
                obs.append(Obligation(f"{key}/{cls.__name__}/p{pi}/raises.{v.cls.__name__}", "raises", list(s2.pc),
                                      z3.BoolVal(False), key, cls.__name__, pi, meta))
                continue
            goal = a1 == z3.Concat(a0, z3.Unit(attr.z))
            obs.append(Obligation(f"{key}/{cls.__name__}/p{pi}/post.appended-at-the-end", "post", list(s2.pc), goal, key,
                                  cls.__name__, pi, meta))
    return key, obs, info


# ------------------------------------------------------------------------------------------------ to_proto(Sim | [Sim])
import vlsir.circuit_pb2 as vckt  # noqa: E402
from hdl21.module import Module  # noqa: E402
EXPORTED = z3.Function("exported_sim_input", z3.IntSort(), z3.IntSort(), z3.IntSort())   # ghost: (sim, package) -> SimInput
PKG_OF = z3.Function("package_of_testbenches", z3.IntSort(), z3.IntSort())               # ghost: id of the tb list -> package


class ModuleToProto(Contract):
    """hdl21.proto.to_proto as called by the Sim exporter: one package for the whole list of testbenches (assumed)."""
    key = "hdl21.proto.exporting:to_proto"
    raises = (Exception,)
    returns = "ref"
    result_classes = (vckt.Package,)

    def scenarios(self, eng):
        return []


class ExporterCtor(Contract):
    """SimProtoExporter(sim=, pkg=): a new exporter holding exactly that Sim and that package."""
    key = "hdl21.sim.proto:SimProtoExporter"
    pure = False

    def scenarios(self, eng):
        return []

    def apply(self, eng, st, args, kwargs, node=None):
        r = st.alloc(SimProtoExporter)
        sim, pkg = kwargs.get("sim", args[0] if args else None), kwargs.get("pkg", args[1] if len(args) > 1 else None)
        if not isinstance(sim, SRef) or not isinstance(pkg, SRef):
            raise Unsupported("SimProtoExporter built from something else than a Sim and a package", node)
        st.heap.put("sim", r.z, sim.z)
        st.heap.put("pkg", r.z, pkg.z)
        return [(st, r)]


class ExporterExport(Contract):
    """SimProtoExporter.export(): the SimInput of ITS Sim over ITS package (ghost function of the two) - assumed here,
    its pieces (attributes, analyses, controls) are proved separately."""
    key = "hdl21.sim.proto:SimProtoExporter.export"
    raises = (Exception,)
    returns = "ref"
    result_classes = (vsp.SimInput,)

    def scenarios(self, eng):
        return []
    posts = property(lambda self: [("of-its-sim", lambda eng, st0, st, a, res:
                                    res.z == EXPORTED(st0.heap.get("sim", a.self.z), st0.heap.get("pkg", a.self.z)))])


class SimToProto(Contract):
    """hdl21.sim.to_proto(inp): a single Sim gives its SimInput; a list of k Sims gives k SimInputs, the i-th being that of
    the i-th Sim, all over the one package co-exported for their testbenches."""
    key = "hdl21.sim.proto:to_proto"
    props = ("C17",)
    pure = False
    raises = (Exception,)

    def scenarios(self, eng):
        def single(eng, st):
            eng.field_classes.update({"sim": (data.Sim,), "pkg": (vckt.Package,), "tb": (Module,)})
            return {"inp": sym_ref(st, "s0", (data.Sim,))}
        yield Scenario("single", single)
        for k in (1, 2, 3):
            def many(eng, st, k=k):
                eng.field_classes.update({"sim": (data.Sim,), "pkg": (vckt.Package,), "tb": (Module,)})
                sims = [sym_ref(st, f"s{i}", (data.Sim,)) for i in range(k)]
                st.ghost["sims"] = sims
                return {"inp": sims}
            yield Scenario(f"list-of-{k}", many)

    def p_each(self, eng, st0, st, a, res):
        pkgs = [c[1] for c in st.calls if c[0] == ExporterExport.key]
        sims = a.inp if isinstance(a.inp, list) else [a.inp]
        if len(pkgs) != len(sims):
            return False
        # every exporter was built over the same package ...
        ctor_pkgs = [st.heap.get("pkg", c[1].self.z) for c in st.calls if c[0] == ExporterExport.key]
        same_pkg = z3.And([p == ctor_pkgs[0] for p in ctor_pkgs])
        if isinstance(a.inp, list):
            if not isinstance(res, list) or len(res) != len(sims):
                return False
            return z3.And(same_pkg, *[r.z == EXPORTED(s.z, ctor_pkgs[0]) for r, s in zip(res, sims)])
        if not isinstance(res, SRef):
            return False
        return z3.And(same_pkg, res.z == EXPORTED(a.inp.z, ctor_pkgs[0]))
    posts = property(lambda self: [("i-th-result-is-the-i-th-sim", self.p_each)])


def to_proto_engine():
    from hdl21.module import Module as _M
    schema = dict(SCHEMA_EXTRA)
    schema.update({"sim": "ref", "pkg": "ref", "tb": "ref"})
    return mk_engine(contracts=[ModuleToProto(), ExporterCtor(), ExporterExport()], schema_extra=schema)


VERIFY_TO_PROTO = [SimToProto()]
