"""hdl21/sim/proto.py: export_include / export_lib (C17: "... the same names, expressions, paths ...").
The path of an Include / Lib is a pathlib.Path; its text is modelled as a string field of the object and `str()` of it as
that text (ASSUMED: str(Path) is the path's own text - it keeps `..` components and relative forms).  Proved: the record
carries exactly that text (z3 string equality, so any rewriting of the text that the engine can follow fails, and one it
cannot follow is reported as UNSUPPORTED and left to the bounded family), and a Lib's section unchanged."""
import z3
import vlsir.spice_pb2 as vsp
from pyvc import *
from .common import *
from hdl21.sim import data

K_INC = "hdl21.sim.proto:export_include"
K_LIB = "hdl21.sim.proto:export_lib"
SCHEMA_EXTRA = {"path": "str", "section": "str"}


class ExportInclude(Contract):
    key = K_INC
    props = ("C17",)
    pure = False
    raises = ()

    def scenarios(self, eng):
        yield Scenario("any-include", lambda eng, st: {"inc": sym_ref(st, "inc", (data.Include,))})

    def p_path(self, eng, st0, st, a, res):
        if not isinstance(res, SRef) or tuple(eng.classes_of(st, res)) != (vsp.Include,):
            return False
        return st.heap.get(eng.field_key(st, res, "path"), res.z) == st0.heap.get(eng.field_key(st0, a.inc, "path"), a.inc.z)
    posts = property(lambda self: [("the-path-as-text", self.p_path)])


class ExportLib(Contract):
    key = K_LIB
    props = ("C17",)
    pure = False
    raises = ()

    def scenarios(self, eng):
        yield Scenario("any-lib", lambda eng, st: {"lib": sym_ref(st, "lib", (data.Lib,))})

    def p_path(self, eng, st0, st, a, res):
        if not isinstance(res, SRef) or tuple(eng.classes_of(st, res)) != (vsp.LibInclude,):
            return False
        g1 = lambda f: st.heap.get(eng.field_key(st, res, f), res.z)
        g0 = lambda f: st0.heap.get(eng.field_key(st0, a.lib, f), a.lib.z)
        return z3.And(g1("path") == g0("path"), g1("section") == g0("section"))
    posts = property(lambda self: [("the-path-as-text-and-the-section", self.p_path)])


def engine():
    return mk_engine(contracts=[], schema_extra=SCHEMA_EXTRA)


VERIFY = [ExportInclude(), ExportLib()]


def replay(con, ob):
    """native replay over a fixed set of paths: the exported text is str() of the Sim's path"""
    import importlib
    sp = importlib.import_module("hdl21.sim.proto")
    bad = []
    for p in ("/tmp/a.sp", "models/../corners/a.sp", "../up/a.sp", "a.sp", "/A/Mixed/Case.sp", "dir with blank/a.sp"):
        if con.key == K_INC:
            inc = data.Include(path=p)
            got = sp.export_include(inc).path
            if got != str(inc.path):
                bad.append(f"export_include({p!r}).path == {got!r}")
        else:
            lib = data.Lib(path=p, section="tt")
            r = sp.export_lib(lib)
            if (r.path, r.section) != (str(lib.path), "tt"):
                bad.append(f"export_lib({p!r}, 'tt') == ({r.path!r}, {r.section!r})")
    inp = {"function": con.key, "obligation": ob.name, "witness_class": ob.scenario}
    if bad:
        inp["case"] = bad[0]
        return (True, "; ".join(bad[:3]), inp)
    return ("undecided", "no probed path is exported changed", inp)


replay.finds_own_model = True
